(* Lemmas about Model/Errors.v (C12). *)
From LedgerV Require Import Base.Prelude Gen.StatusOfCount Gen.CheckingStyle Gen.NameChecks Model.Errors.
Local Open Scope Z_scope.

(* ---- induction over lines with the included files' lines as sub-terms ------------------- *)
Section LineInd.
  Variable P : line -> Prop.
  Hypothesis HE : P LEmpty.
  Hypothesis HW : P LWs.
  Hypothesis HS : forall t, P (LSub t).
  Hypothesis HI : forall t b f, P (LItem t b f).
  Hypothesis HInc : forall name body, Forall P body -> P (LInclude name body).

  Fixpoint line_ind2 (l : line) : P l :=
    match l with
    | LEmpty => HE
    | LWs => HW
    | LSub t => HS t
    | LItem t b f => HI t b f
    | LInclude name body =>
        HInc name body
             ((fix go (ls : list line) : Forall P ls :=
                 match ls with
                 | [] => Forall_nil P
                 | x :: r => Forall_cons x (line_ind2 x) (go r)
                 end) body)
    end.
End LineInd.

(* induction over files: to prove Q of a file one may assume Q of every file it includes *)
Lemma files_ind (Q : list line -> Prop) :
  (forall ls, Forall (fun l => match l with LInclude _ b => Q b | _ => True end) ls -> Q ls) ->
  forall ls, Q ls.
Proof.
  intros H.
  assert (HP : forall l, match l with LInclude _ b => Q b | _ => True end).
  { apply line_ind2; try exact I; try (intros; exact I).
    intros name body Hb. apply H. exact Hb. }
  intros ls. apply H. apply Forall_forall. intros l _. apply HP.
Qed.

(* ---- the include case of step runs the same loop as run ---------------------------------- *)
Lemma step_include file chain s name body more :
  step file chain s (LInclude name body) more =
  join (bump (close file chain s))
       (parse_file name (chain ++ [(file, s_line (bump (close file chain s)))]) body).
Proof.
  cbn [step]. f_equal. unfold parse_file.
  generalize init_st. induction body as [|x r IH]; intros cs; cbn [run]; [reflexivity|].
  apply IH.
Qed.

Lemma run_app file chain a b s :
  run file chain (a ++ b) s =
  match a with [] => run file chain b s | _ => run file chain (a ++ b) s end.
Proof. destruct a; reflexivity. Qed.

(* ---- the error counter counts the messages ------------------------------------------------- *)
Definition grows (s s' : st) : Prop :=
  exists ms, s_msgs s' = s_msgs s ++ ms /\ s_errs s' = s_errs s + Z.of_nat (length ms).

Lemma grows_refl s : grows s s.
Proof. exists []. rewrite app_nil_r. cbn. split; [reflexivity|lia]. Qed.

Lemma grows_trans a b c : grows a b -> grows b c -> grows a c.
Proof.
  intros [m1 [H1 E1]] [m2 [H2 E2]]. exists (m1 ++ m2). split.
  - rewrite H2, H1, app_assoc. reflexivity.
  - rewrite E2, E1, app_length, Nat2Z.inj_add. lia.
Qed.

Lemma grows_bump s : grows s (bump s).
Proof. exists []. cbn. rewrite app_nil_r. split; [reflexivity|lia]. Qed.

Lemma grows_raise file chain k rng s : grows s (raise file chain k rng s).
Proof. eexists. cbn. split; [reflexivity|]. cbn. lia. Qed.

Lemma grows_finalize file chain beg fin s : grows s (finalize file chain beg fin s).
Proof.
  destruct fin; cbn [finalize]; [apply grows_raise|].
  exists []. cbn. rewrite app_nil_r. split; [reflexivity|lia].
Qed.

Lemma grows_close file chain s : grows s (close file chain s).
Proof. unfold close. destruct (s_mode s); [apply grows_refl|apply grows_finalize]. Qed.

Lemma grows_set s fl md : grows s (mk_st fl md (s_line s) (s_errs s) (s_msgs s)).
Proof. exists []. cbn. rewrite app_nil_r. split; [reflexivity|lia]. Qed.

Lemma grows_step_block file chain beg fin s l more :
  grows s (step_block file chain beg fin s l more).
Proof.
  unfold step_block.
  destruct l as [| |[k|]| |]; try destruct more;
    try (eapply grows_trans; [apply grows_bump|]; try apply grows_raise; try apply grows_finalize; apply grows_refl);
    apply grows_bump.
Qed.

Lemma grows_step_ws_top file chain s l : grows s (step_ws_top file chain s l).
Proof.
  unfold step_ws_top. destruct l; try apply grows_bump.
  destruct (s_flag (bump s)); [apply grows_bump|].
  eapply grows_trans; [apply grows_bump|apply grows_raise].
Qed.

Lemma grows_step_item file chain s t block fin more :
  grows s (step_item file chain s t block fin more).
Proof.
  unfold step_item. destruct t as [k|].
  - eapply grows_trans; [apply grows_set|]. apply grows_raise.
  - destruct block; [destruct more|]; cbn.
    + apply (grows_set s false (MBlock (s_line s) fin)).
    + eapply grows_trans; [apply (grows_set s false MTop)|]. apply grows_finalize.
    + apply grows_set.
Qed.

Definition line_grows (l : line) : Prop :=
  forall file chain s more, grows s (step file chain s l more).

Lemma run_grows_of ls :
  Forall line_grows ls -> forall file chain s, grows s (run file chain ls s).
Proof.
  induction 1 as [|x r Hx _ IH]; intros file chain s; cbn [run]; [apply grows_refl|].
  eapply grows_trans; [apply Hx|apply IH].
Qed.

Lemma step_grows : forall l, line_grows l.
Proof.
  apply line_ind2; unfold line_grows.
  - intros. cbn [step]. eapply grows_trans; [apply grows_close|apply grows_bump].
  - intros. cbn [step]. destruct (s_mode s); [apply grows_step_ws_top|apply grows_step_block].
  - intros. cbn [step]. destruct (s_mode s); [apply grows_step_ws_top|apply grows_step_block].
  - intros. cbn [step]. eapply grows_trans; [apply grows_close|].
    eapply grows_trans; [apply grows_bump|apply grows_step_item].
  - intros name body Hb file chain s more. rewrite step_include.
    eapply grows_trans; [apply grows_close|]. eapply grows_trans; [apply grows_bump|].
    set (s1 := bump (close file chain s)).
    destruct (run_grows_of body Hb name (chain ++ [(file, s_line s1)]) init_st) as [ms [Hm He]].
    fold (parse_file name (chain ++ [(file, s_line s1)]) body) in Hm, He.
    cbn in Hm, He. exists ms. unfold join. cbn. rewrite Hm, He. split; [reflexivity|lia].
Qed.

Lemma run_grows file chain ls s : grows s (run file chain ls s).
Proof. apply run_grows_of. apply Forall_forall. intros l _. apply step_grows. Qed.

Lemma parse_file_errs file chain ls :
  s_errs (parse_file file chain ls) = Z.of_nat (length (s_msgs (parse_file file chain ls))).
Proof.
  destruct (run_grows file chain ls init_st) as [ms [Hm He]].
  unfold parse_file. rewrite Hm, He. cbn. reflexivity.
Qed.

(* ---- one item at a time ------------------------------------------------------------------ *)
Definition nohead (tl : list line) : Prop := Forall (fun l => is_head l = false) tl.

Ltac zeq :=
  match goal with
  | |- _ = _ => first [reflexivity | lia | (f_equal; zeq)]
  end.

Ltac simp :=
  cbn [step]; unfold step_ws_top, step_block, step_item, join;
  unfold close; cbn [s_mode]; unfold finalize, raise, bump;
  cbn [s_mode s_flag s_line s_errs s_msgs stray_scan block_scan].

Lemma len_cons {A} (x : A) l : Z.of_nat (length (x :: l)) = 1 + Z.of_nat (length l).
Proof. cbn [length]. lia. Qed.

(* the state after an item: flag, line, counter and stderr as the item's fault dictates *)
Definition fault_state (file : Z) (chain : list loc) (start ln' er : Z) (ms : list msg)
           (r : option (Z * Z * bool)) : st :=
  match r with
  | None => mk_st false MTop ln' er ms
  | Some (o, k, w) =>
      mk_st true MTop ln' (er + 1)
            (ms ++ [mk_msg chain file (start + o) k (if w then Some (start, start + o) else None)])
  end.

(* after an error the rest of the item is swallowed *)
Lemma run_skip file chain tl rest :
  nohead tl -> forall ln er ms,
  run file chain (tl ++ rest) (mk_st true MTop ln er ms) =
  run file chain rest (mk_st true MTop (ln + Z.of_nat (length tl)) er ms).
Proof.
  induction 1 as [|l tl Hl _ IH]; intros ln er ms.
  - cbn. zeq.
  - cbn [app run]. rewrite len_cons.
    assert (E : step file chain (mk_st true MTop ln er ms) l (peek (tl ++ rest)) =
                mk_st true MTop (ln + 1) er ms)
      by (destruct l as [| |t| |]; try discriminate; reflexivity).
    rewrite E, IH. zeq.
Qed.

(* lines that belong to no block: the first indented one is an error *)
Lemma run_stray file chain tl rest :
  nohead tl -> forall off start ln er ms, ln = start + off - 1 ->
  run file chain (tl ++ rest) (mk_st false MTop ln er ms) =
  run file chain rest
      (fault_state file chain start (ln + Z.of_nat (length tl)) er ms (stray_scan off tl)).
Proof.
  induction 1 as [|l tl Hl Htl IH]; intros off start ln er ms Hln.
  - cbn. zeq.
  - cbn [app run]. rewrite len_cons. destruct l as [| |t| |]; try discriminate.
    + simp.
      rewrite (IH (off + 1) start) by (cbn; lia). cbn [s_line]. zeq.
    + simp.
      rewrite (IH (off + 1) start) by (cbn; lia). zeq.
    + simp. cbn [fault_state].
      rewrite run_skip by exact Htl. unfold k_stray. zeq.
Qed.

Lemma block_scan_end o fin r rest :
  peek (r ++ rest) = false ->
  block_scan o fin r =
  match fin with Some k => Some (o - 1, k, true) | None => stray_scan o r end.
Proof.
  destruct r as [|x r']; [reflexivity|].
  destruct x as [| |t| |]; cbn; try discriminate; reflexivity.
Qed.

(* the lines of a block *)
Lemma run_block file chain tl rest :
  nohead tl -> peek rest = false ->
  forall off start fin ln er ms, ln = start + off - 1 -> peek (tl ++ rest) = true ->
  run file chain (tl ++ rest) (mk_st false (MBlock start fin) ln er ms) =
  run file chain rest
      (fault_state file chain start (ln + Z.of_nat (length tl)) er ms (block_scan off fin tl)).
Proof.
  intros Hnh Hrest. induction Hnh as [|l tl Hl Htl IH]; intros off start fin ln er ms Hln Hpk.
  - cbn in Hpk. congruence.
  - cbn [app run]. rewrite len_cons.
    destruct l as [| |t| |]; try discriminate.
    + (* a whitespace-only line ends the block *)
      simp.
      destruct fin as [k|]; cbn [s_flag s_line s_errs s_msgs].
      * rewrite run_skip by exact Htl. cbn [fault_state]. zeq.
      * rewrite (run_stray file chain tl rest Htl (off + 1) start) by lia. zeq.
    + destruct t as [k|].
      * (* the line throws *)
        simp.
        rewrite run_skip by exact Htl. cbn [fault_state]. zeq.
      * simp.
        destruct (peek (tl ++ rest)) eqn:Hmore.
        -- rewrite (IH (off + 1) start) by (try lia; reflexivity). zeq.
        -- rewrite (block_scan_end (off + 1) fin tl rest Hmore).
           destruct fin as [k|]; cbn [s_flag s_line s_errs s_msgs].
           ++ rewrite run_skip by exact Htl. cbn [fault_state]. zeq.
           ++ rewrite (run_stray file chain tl rest Htl (off + 1) start) by lia. zeq.
Qed.

(* ---- an item run from any state reached at an item boundary ------------------------------- *)
Definition headed (g : list line) : Prop :=
  exists h tl, g = h :: tl /\ is_head h = true /\ nohead tl.

Definition fault_msgs (file : Z) (chain : list loc) (start : Z) (r : option (Z * Z * bool)) : list msg :=
  match r with
  | None => []
  | Some (o, k, w) =>
      [mk_msg chain file (start + o) k (if w then Some (start, start + o) else None)]
  end.

Definition is_fault (r : option (Z * Z * bool)) : bool :=
  match r with None => false | Some _ => true end.

Lemma own_msgs_eq file chain start g :
  own_msgs file chain start g = fault_msgs file chain start (item_fault g).
Proof. reflexivity. Qed.

Lemma item_msgs_eq file chain start g :
  item_msgs file chain start g =
  inc_msgs file chain start g ++ fault_msgs file chain start (item_fault g).
Proof. reflexivity. Qed.

Lemma fault_state_eq file chain start ln' er ms r :
  fault_state file chain start ln' er ms r =
  mk_st (is_fault r) MTop ln' (er + Z.of_nat (length (fault_msgs file chain start r)))
        (ms ++ fault_msgs file chain start r).
Proof.
  destruct r as [[[o k] w]|]; cbn [fault_state fault_msgs is_fault length].
  - zeq.
  - rewrite app_nil_r. zeq.
Qed.

Lemma fault_state_inc file chain start ln' er ms inc r :
  fault_state file chain start ln' (er + Z.of_nat (length inc)) (ms ++ inc) r =
  mk_st (is_fault r) MTop ln'
        (er + Z.of_nat (length (inc ++ fault_msgs file chain start r)))
        (ms ++ (inc ++ fault_msgs file chain start r)).
Proof.
  rewrite fault_state_eq. rewrite app_length, Nat2Z.inj_add, app_assoc. zeq.
Qed.

Definition item_state (file : Z) (chain : list loc) (g : list line) (ln er : Z) (ms : list msg) : st :=
  mk_st (is_fault (item_fault g)) MTop (ln + Z.of_nat (length g))
        (er + Z.of_nat (length (item_msgs file chain (ln + 1) g)))
        (ms ++ item_msgs file chain (ln + 1) g).

Lemma run_item_headed file chain g rest :
  headed g -> peek rest = false -> forall fl ln er ms,
  run file chain (g ++ rest) (mk_st fl MTop ln er ms) =
  run file chain rest (item_state file chain g ln er ms).
Proof.
  intros [h [tl [-> [Hh Htl]]]] Hrest fl ln er ms.
  unfold item_state. rewrite item_msgs_eq. rewrite len_cons.
  cbn [app run]. destruct h as [| | |t block fin|name body]; try discriminate.
  - (* a directive or transaction *)
    cbn [inc_msgs app]. rewrite <- fault_state_eq.
    destruct t as [k|].
    + simp. rewrite run_skip by exact Htl. cbn [item_fault fault_state]. zeq.
    + destruct block.
      * cbn [item_fault]. destruct (peek (tl ++ rest)) eqn:Hmore.
        -- simp. rewrite (run_block file chain tl rest Htl Hrest 1 (ln + 1)) by (try lia; exact Hmore).
           zeq.
        -- simp. rewrite (block_scan_end 1 fin tl rest Hmore).
           destruct fin as [k|]; cbn [s_flag s_line s_errs s_msgs].
           ++ rewrite run_skip by exact Htl. cbn [fault_state]. zeq.
           ++ rewrite (run_stray file chain tl rest Htl 1 (ln + 1)) by lia. zeq.
      * cbn [item_fault]. simp. destruct (peek (tl ++ rest));
          rewrite (run_stray file chain tl rest Htl 1 (ln + 1)) by lia; zeq.
  - (* an include: the child's messages, then the parent goes on with a clear flag *)
    rewrite step_include. unfold join, close, bump. cbn [s_mode s_flag s_line s_errs s_msgs inc_msgs item_fault].
    rewrite parse_file_errs.
    rewrite (run_stray file chain tl rest Htl 1 (ln + 1)) by lia.
    rewrite fault_state_inc. zeq.
Qed.

(* the lines in front of the first head: error_flag starts out false *)
Lemma run_item_preamble file chain g rest :
  nohead g ->
  run file chain (g ++ rest) (mk_st false MTop 0 0 []) =
  run file chain rest (item_state file chain g 0 0 []).
Proof.
  intros Hg. unfold item_state. rewrite item_msgs_eq.
  assert (Hf : item_fault g = stray_scan 0 g /\ inc_msgs file chain (0 + 1) g = []).
  { destruct g as [|h tl]; [split; reflexivity|].
    destruct h; try (split; reflexivity); inversion Hg; discriminate. }
  destruct Hf as [-> ->]. cbn [app].
  rewrite (run_stray file chain g rest Hg 0 1) by lia.
  rewrite fault_state_eq. zeq.
Qed.

(* ---- a file is its items, one after the other -------------------------------------------- *)
Lemma peek_headed_concat gs : Forall headed gs -> peek (concat gs) = false.
Proof.
  intros H. destruct H as [|g gs [h [tl [-> [Hh _]]]] _]; [reflexivity|].
  cbn. destruct h; try discriminate; reflexivity.
Qed.

Lemma run_items file chain gs :
  Forall headed gs -> forall fl ln er ms,
  s_msgs (run file chain (concat gs) (mk_st fl MTop ln er ms)) =
  ms ++ expected file chain (ln + 1) gs.
Proof.
  induction 1 as [|g gs Hg Hgs IH]; intros fl ln er ms.
  - cbn. rewrite app_nil_r. reflexivity.
  - cbn [concat expected].
    rewrite (run_item_headed file chain g (concat gs) Hg (peek_headed_concat gs Hgs)).
    unfold item_state. rewrite IH. rewrite <- app_assoc.
    replace (ln + Z.of_nat (length g) + 1) with (ln + 1 + Z.of_nat (length g)) by lia.
    reflexivity.
Qed.

Definition item_shape (g : list line) : Prop := headed g \/ (nohead g /\ g <> []).

Lemma items_spec ls :
  concat (items ls) = ls /\
  match items ls with
  | [] => True
  | g :: gs => item_shape g /\ Forall headed gs
  end.
Proof.
  induction ls as [|l rest [IHc IHs]]; [split; [reflexivity|exact I]|].
  assert (Hl : item_shape [l] /\ forall g, nohead g -> item_shape (l :: g)).
  { destruct (is_head l) eqn:Hh.
    - split; [left; exists l, []; repeat split; [exact Hh|constructor]|].
      intros g Hg. left. exists l, g. repeat split; assumption.
    - split; [right; split; [repeat constructor; exact Hh|discriminate]|].
      intros g Hg. right. split; [constructor; assumption|discriminate]. }
  destruct Hl as [Hl1 Hl2].
  cbn [items]. destruct (items rest) as [|g gs] eqn:E.
  - cbn in IHc. subst rest. split; [reflexivity|]. split; [exact Hl1|constructor].
  - destruct IHs as [Hg Hgs]. cbn [concat] in IHc.
    destruct (starts_with_head rest) eqn:S.
    + split; [cbn [concat app]; rewrite IHc; reflexivity|].
      split; [exact Hl1|]. constructor; [|exact Hgs].
      destruct Hg as [Hg|[Hn Hne]]; [exact Hg|].
      destruct g as [|x g']; [congruence|]. subst rest. cbn in S.
      inversion Hn; subst. congruence.
    + split; [cbn [concat app]; rewrite IHc; reflexivity|].
      split; [|exact Hgs]. apply Hl2.
      destruct Hg as [[h [tl [-> [Hh Htl]]]]|[Hn _]]; [|exact Hn].
      subst rest. cbn in S. congruence.
Qed.

(* every group cut out by `items` is an item *)
Lemma items_shapes ls : Forall item_shape (items ls).
Proof.
  destruct (items_spec ls) as [_ H]. destruct (items ls) as [|g gs]; [constructor|].
  destruct H as [Hg Hgs]. constructor; [exact Hg|].
  eapply Forall_impl; [|exact Hgs]. intros a Ha. left. exact Ha.
Qed.

Theorem parse_file_msgs file chain ls :
  s_msgs (parse_file file chain ls) = expected file chain 1 (items ls).
Proof.
  destruct (items_spec ls) as [Hc Hs]. unfold parse_file, init_st.
  destruct (items ls) as [|g gs] eqn:E.
  - cbn in Hc. subst ls. reflexivity.
  - destruct Hs as [Hg Hgs]. rewrite <- Hc.
    destruct Hg as [Hg|[Hn _]].
    + rewrite (run_items file chain (g :: gs)) by (constructor; assumption). reflexivity.
    + cbn [concat expected].
      rewrite (run_item_preamble file chain g (concat gs) Hn).
      unfold item_state. rewrite (run_items file chain gs Hgs).
      cbn [app]. replace (0 + Z.of_nat (length g) + 1) with (1 + Z.of_nat (length g)) by lia.
      reflexivity.
Qed.

(* ---- where the message of an item is located ---------------------------------------------- *)
Lemma stray_scan_range tl : forall off o k w,
  stray_scan off tl = Some (o, k, w) ->
  off <= o < off + Z.of_nat (length tl) /\ k = k_stray /\ w = false.
Proof.
  induction tl as [|l tl IH]; intros off o k w H; [discriminate|].
  rewrite len_cons.
  destruct l; cbn [stray_scan] in H;
    try (apply IH in H; destruct H as [H1 H2]; split; [lia|exact H2]).
  inversion H; subst. split; [lia|split; reflexivity].
Qed.

Lemma block_scan_range tl : forall off fin o k w,
  block_scan off fin tl = Some (o, k, w) -> off - 1 <= o < off + Z.of_nat (length tl).
Proof.
  induction tl as [|l tl IH]; intros off fin o k w H.
  - cbn in H. destruct fin; inversion H; subst. cbn. lia.
  - rewrite len_cons.
    assert (Hdef : match fin with Some k0 => Some (off - 1, k0, true) | None => stray_scan off (l :: tl) end
                   = Some (o, k, w) -> off - 1 <= o < off + (1 + Z.of_nat (length tl))).
    { destruct fin; intros E; [inversion E; subst; lia|].
      apply stray_scan_range in E. rewrite len_cons in E. lia. }
    destruct l as [| |t| |]; cbn [block_scan] in H; try (apply Hdef; exact H).
    + destruct fin; [inversion H; subst; lia|].
      apply stray_scan_range in H. lia.
    + destruct t; [inversion H; subst; lia|]. apply IH in H. lia.
Qed.

Lemma item_fault_range g o k w :
  item_fault g = Some (o, k, w) -> 0 <= o < Z.of_nat (length g).
Proof.
  intros H.
  assert (Hs : forall tl, stray_scan 0 tl = Some (o, k, w) -> 0 <= o < Z.of_nat (length tl))
    by (intros tl E; apply stray_scan_range in E; lia).
  assert (Hs1 : forall (h : line) tl, stray_scan 1 tl = Some (o, k, w) -> 0 <= o < Z.of_nat (length (h :: tl)))
    by (intros h tl E; apply stray_scan_range in E; rewrite len_cons; lia).
  destruct g as [|h tl]; [discriminate|].
  destruct h as [| | |t block fin|name body];
    try (apply Hs; exact H); try (apply Hs1; exact H).
  cbn [item_fault] in H. destruct t; [inversion H; subst; rewrite len_cons; lia|].
  destruct block; [|apply Hs1; exact H].
  apply block_scan_range in H. rewrite len_cons. lia.
Qed.

(* every message an item contributes itself carries the item's file, include chain and a line
   inside the item; a whole-item rejection carries the range from the item's first line *)
Lemma fault_msgs_located file chain start g m :
  In m (fault_msgs file chain start (item_fault g)) ->
  m_file m = file /\ m_chain m = chain /\
  start <= m_line m < start + Z.of_nat (length g) /\
  (forall a b, m_range m = Some (a, b) -> a = start /\ b = m_line m).
Proof.
  destruct (item_fault g) as [[[o k] w]|] eqn:E; cbn [fault_msgs]; [|intros []].
  intros [<-|[]]. cbn. apply item_fault_range in E.
  repeat split; try lia; destruct w; inversion H; subst; reflexivity.
Qed.

Lemma fault_msgs_length file chain start r : (length (fault_msgs file chain start r) <= 1)%nat.
Proof. destruct r as [[[o k] w]|]; cbn; lia. Qed.

(* ---- valid items ------------------------------------------------------------------------ *)
Lemma stray_scan_none tl : nohead tl -> forall off,
  stray_scan off tl = None <-> forallb is_blank tl = true.
Proof.
  induction 1 as [|l tl Hl _ IH]; intros off; [split; reflexivity|].
  destruct l; try discriminate; cbn [stray_scan forallb is_blank andb].
  - apply IH.
  - apply IH.
  - split; discriminate.
Qed.

Lemma block_scan_none tl : nohead tl -> forall off fin,
  block_scan off fin tl = None <-> fin = None /\ block_ok tl = true.
Proof.
  induction 1 as [|l tl Hl Htl IH]; intros off fin.
  - cbn. destruct fin; split; try discriminate; try (intros [? _]; discriminate); auto.
  - destruct l as [| |t| |]; try discriminate; cbn [block_scan block_ok].
    + destruct fin; [split; [discriminate|intros [? _]; discriminate]|].
      rewrite (stray_scan_none (LEmpty :: tl)) by (constructor; assumption). tauto.
    + destruct fin; [split; [discriminate|intros [? _]; discriminate]|].
      rewrite (stray_scan_none tl Htl). cbn [forallb is_blank andb]. tauto.
    + destruct t; [split; [discriminate|intros [_ ?]; discriminate]|]. apply IH.
Qed.

Lemma item_fault_none_iff g : item_shape g -> (item_fault g = None <-> item_ok g = true).
Proof.
  intros [[h [tl [-> [Hh Htl]]]]|[Hn Hne]].
  - destruct h as [| | |t block fin|name body]; try discriminate; cbn [item_fault item_ok].
    + destruct t; [split; discriminate|].
      destruct block; [|apply stray_scan_none; exact Htl].
      rewrite (block_scan_none tl Htl). destruct fin; [split; [intros [? _]|]; discriminate|tauto].
    + apply stray_scan_none. exact Htl.
  - assert (E : item_fault g = stray_scan 0 g /\ item_ok g = forallb is_blank g).
    { destruct g as [|h tl]; [congruence|].
      destruct h; try (split; reflexivity); inversion Hn; discriminate. }
    destruct E as [-> ->]. apply stray_scan_none. exact Hn.
Qed.

(* ---- a file is silent exactly when all its items, and those of its includes, are valid ---- *)
Definition silent_iff_clean (ls : list line) : Prop :=
  forall file chain, s_msgs (parse_file file chain ls) = [] <-> file_clean ls = true.

Definition inc_hyp (l : line) : Prop :=
  match l with LInclude _ b => silent_iff_clean b | _ => True end.

Lemma nohead_line_clean tl : nohead tl -> forallb line_clean tl = true.
Proof.
  induction 1 as [|l tl Hl _ IH]; [reflexivity|].
  cbn [forallb]. rewrite IH. destruct l; try discriminate; reflexivity.
Qed.

Lemma inc_clean g : item_shape g -> Forall inc_hyp g -> forall file chain start,
  inc_msgs file chain start g = [] <-> forallb line_clean g = true.
Proof.
  intros [[h [tl [-> [Hh Htl]]]]|[Hn Hne]] HP file chain start.
  - cbn [forallb]. rewrite (nohead_line_clean tl Htl), andb_true_r.
    destruct h as [| | |t block fin|name body]; try discriminate; cbn [inc_msgs line_clean].
    + split; reflexivity.
    + inversion HP as [|? ? Hb _]; subst. apply Hb.
  - rewrite (nohead_line_clean g Hn).
    destruct g as [|h tl]; [congruence|].
    destruct h; try (split; reflexivity). inversion Hn; discriminate.
Qed.

Lemma fault_msgs_nil file chain start r : fault_msgs file chain start r = [] <-> r = None.
Proof. destruct r as [[[o k] w]|]; cbn; split; try discriminate; reflexivity. Qed.

Lemma expected_clean gs :
  Forall item_shape gs -> Forall inc_hyp (concat gs) -> forall file chain start,
  expected file chain start gs = [] <->
  (forallb item_ok gs = true /\ forallb line_clean (concat gs) = true).
Proof.
  induction 1 as [|g gs Hg _ IH]; intros HP file chain start.
  - cbn. tauto.
  - cbn [concat] in HP. apply Forall_app in HP. destruct HP as [HPg HPgs].
    cbn [expected forallb concat]. rewrite forallb_app, !andb_true_iff.
    pose proof (IH HPgs file chain (start + Z.of_nat (length g))) as H1.
    pose proof (inc_clean g Hg HPg file chain start) as H2.
    pose proof (item_fault_none_iff g Hg) as H3.
    pose proof (fault_msgs_nil file chain start (item_fault g)) as H4.
    rewrite item_msgs_eq.
    split.
    + intros H. apply app_eq_nil in H. destruct H as [Ha Hb].
      apply app_eq_nil in Ha. tauto.
    + intros [[Ha Hb] [Hc Hd]].
      assert (E1 : inc_msgs file chain start g = []) by tauto.
      assert (E2 : fault_msgs file chain start (item_fault g) = []) by tauto.
      assert (E3 : expected file chain (start + Z.of_nat (length g)) gs = []) by tauto.
      rewrite E1, E2, E3. reflexivity.
Qed.

Theorem silent_iff_clean_all : forall ls, silent_iff_clean ls.
Proof.
  apply files_ind. intros ls HP file chain.
  rewrite parse_file_msgs.
  pose proof (items_spec ls) as [Hc _].
  rewrite (expected_clean (items ls) (items_shapes ls)) by (rewrite Hc; exact HP).
  rewrite Hc. unfold file_clean. rewrite andb_true_iff. tauto.
Qed.

Lemma errs_zero_iff_clean file chain ls :
  s_errs (parse_file file chain ls) = 0 <-> file_clean ls = true.
Proof.
  rewrite <- (silent_iff_clean_all ls file chain), parse_file_errs.
  destruct (s_msgs (parse_file file chain ls)); cbn [length]; split; try reflexivity; try discriminate; lia.
Qed.

Lemma errs_nonneg file chain ls : 0 <= s_errs (parse_file file chain ls).
Proof. rewrite parse_file_errs. lia. Qed.

(* ---- exit status ---------------------------------------------------------------------------- *)
Lemma status_of_count_nonzero n : n > 0 -> status_of_count n mod 256 <> 0.
Proof.
  intros Hn. unfold status_of_count.
  destruct (n >? 255) eqn:E.
  - vm_compute. discriminate.
  - pose proof (Zgt_cases n 255) as H. rewrite E in H.
    rewrite Z.mod_small by lia. lia.
Qed.

Lemma status_of_count_zero : status_of_count 0 mod 256 = 0.
Proof. reflexivity. Qed.

(* ---- the session ------------------------------------------------------------------------------ *)
Lemma all_errs_count fs : all_errs fs = Z.of_nat (length (all_msgs fs)).
Proof.
  induction fs as [|[name ls] rest IH]; [reflexivity|].
  cbn [all_errs all_msgs]. rewrite app_length, Nat2Z.inj_add, <- IH, parse_file_errs. reflexivity.
Qed.

Lemma all_errs_nonneg fs : 0 <= all_errs fs.
Proof. rewrite all_errs_count. lia. Qed.

Lemma session_errors_count fs :
  r_errors (session fs) = Z.of_nat (length (r_msgs (session fs))).
Proof. apply all_errs_count. Qed.

Lemma session_errors_nonneg fs : 0 <= r_errors (session fs).
Proof. apply all_errs_nonneg. Qed.

Lemma session_report_iff fs : r_report (session fs) = true <-> r_errors (session fs) = 0.
Proof.
  unfold session. cbn [r_report r_errors].
  pose proof (Zgt_cases (all_errs fs) 0) as H. pose proof (all_errs_nonneg fs) as H0.
  destruct (all_errs fs >? 0); cbn; split; try discriminate; try reflexivity; lia.
Qed.

Lemma session_no_partial_report fs : r_errors (session fs) > 0 -> r_report (session fs) = false.
Proof.
  intros H. destruct (r_report (session fs)) eqn:E; [|reflexivity].
  apply session_report_iff in E. lia.
Qed.

Lemma session_status_iff fs : r_status (session fs) <> 0 <-> r_errors (session fs) > 0.
Proof.
  unfold session. cbn [r_status r_errors].
  pose proof (Zgt_cases (all_errs fs) 0) as H.
  destruct (all_errs fs >? 0).
  - split; [intros _; exact H|intros _; apply status_of_count_nonzero; exact H].
  - split; [congruence|lia].
Qed.

(* every -f file is read: stderr is what the files write one after the other, the count their sum *)
Lemma session_msgs fs :
  r_msgs (session fs) =
  flat_map (fun f => expected (fst f) [] 1 (items (snd f))) fs.
Proof.
  unfold session. cbn [r_msgs].
  induction fs as [|[name ls] rest IH]; [reflexivity|].
  cbn [all_msgs flat_map fst snd]. rewrite IH, parse_file_msgs. reflexivity.
Qed.

Lemma all_errs_zero_iff fs :
  all_errs fs = 0 <-> (forall f, In f fs -> file_clean (snd f) = true).
Proof.
  induction fs as [|[name ls] rest IH].
  - cbn. split; [intros _ f []|reflexivity].
  - cbn [all_errs]. pose proof (errs_nonneg name [] ls) as H1. pose proof (all_errs_nonneg rest) as H2.
    split.
    + intros H f [<-|Hf].
      * cbn. apply (errs_zero_iff_clean name []). lia.
      * apply IH; [lia|exact Hf].
    + intros H.
      assert (E1 : s_errs (parse_file name [] ls) = 0)
        by (apply errs_zero_iff_clean; apply (H (name, ls)); left; reflexivity).
      assert (E2 : all_errs rest = 0) by (apply IH; intros f Hf; apply H; right; exact Hf).
      lia.
Qed.

Lemma session_clean fs :
  (forall f, In f fs -> file_clean (snd f) = true) -> session fs = mk_result [] 0 0 true.
Proof.
  intros H. pose proof (proj2 (all_errs_zero_iff fs) H) as E.
  unfold session. rewrite E. cbn.
  pose proof (all_errs_count fs) as C. rewrite E in C.
  destruct (all_msgs fs); [reflexivity|cbn [length] in C; lia].
Qed.

Lemma session_unclean fs :
  (exists f, In f fs /\ file_clean (snd f) = false) -> r_errors (session fs) > 0.
Proof.
  intros [f [Hin Hf]]. unfold session. cbn [r_errors].
  pose proof (all_errs_nonneg fs) as H0.
  destruct (Z.eq_dec (all_errs fs) 0) as [E|E]; [|lia].
  pose proof (proj1 (all_errs_zero_iff fs) E f Hin). congruence.
Qed.

Lemma session_single name ls :
  r_msgs (session [(name, ls)]) = expected name [] 1 (items ls).
Proof. rewrite session_msgs. cbn. apply app_nil_r. Qed.

Lemma session_errors_sum fs :
  r_errors (session fs) =
  fold_right Z.add 0 (map (fun f => s_errs (parse_file (fst f) [] (snd f))) fs).
Proof.
  unfold session. cbn [r_errors].
  induction fs as [|[name ls] rest IH]; [reflexivity|].
  cbn [all_errs map fold_right fst snd]. rewrite IH. reflexivity.
Qed.

(* ---- what one item contributes ----------------------------------------------------------- *)
Lemma own_msgs_spec g : item_shape g -> forall file chain start,
  (item_ok g = true -> own_msgs file chain start g = []) /\
  (item_ok g = false ->
   exists m, own_msgs file chain start g = [m] /\
             m_file m = file /\ m_chain m = chain /\
             start <= m_line m < start + Z.of_nat (length g) /\
             (forall a b, m_range m = Some (a, b) -> a = start /\ b = m_line m)).
Proof.
  intros Hg file chain start. rewrite own_msgs_eq. split; intros H.
  - apply (item_fault_none_iff g Hg) in H. rewrite H. reflexivity.
  - destruct (item_fault g) as [[[o k] w]|] eqn:E.
    + eexists. split; [reflexivity|].
      apply (fault_msgs_located file chain start g). rewrite E. left. reflexivity.
    + apply (item_fault_none_iff g Hg) in E. congruence.
Qed.

Lemma items_in_shape ls g : In g (items ls) -> item_shape g.
Proof. intros H. pose proof (items_shapes ls) as F. rewrite Forall_forall in F. apply F. exact H. Qed.

(* ---- checking options ----------------------------------------------------------------------- *)
Lemma pedantic_style o : o_pedantic o = true -> o_permissive o = false -> checking_style o = SError.
Proof.
  intros Hp Hq. unfold checking_style, style_chain. cbn [style_from handled].
  rewrite Hq, Hp. reflexivity.
Qed.

Lemma strict_alone_style o :
  o_strict o = true -> o_pedantic o = false -> o_permissive o = false -> checking_style o = SWarning.
Proof.
  intros Hs Hp Hq. unfold checking_style, style_chain. cbn [style_from handled].
  rewrite Hq, Hp, Hs. reflexivity.
Qed.

Lemma permissive_style o : o_permissive o = true -> checking_style o = SPermissive.
Proof.
  intros Hq. unfold checking_style, style_chain. cbn [style_from handled]. rewrite Hq. reflexivity.
Qed.

Lemma no_option_style o :
  o_strict o = false -> o_pedantic o = false -> o_permissive o = false -> checking_style o = SNormal.
Proof.
  intros Hs Hp Hq. unfold checking_style, style_chain. cbn [style_from handled].
  rewrite Hq, Hp, Hs. reflexivity.
Qed.

Lemma payees_checked_eq o : payees_checked o = o_check_payees o.
Proof. reflexivity. Qed.

Lemma pedantic_unknown_is_error o nk k :
  o_pedantic o = true -> o_permissive o = false ->
  (nk = NPayee -> o_check_payees o = true) ->
  unknown_name_reaction o nk = RError /\ resolve_ann o (AUnknown nk k) = Some k.
Proof.
  intros Hp Hq Hc.
  assert (E : unknown_name_reaction o nk = RError).
  { unfold unknown_name_reaction. rewrite (pedantic_style o Hp Hq), payees_checked_eq.
    destruct nk; try reflexivity. rewrite (Hc eq_refl). reflexivity. }
  split; [exact E|]. cbn [resolve_ann]. rewrite E. reflexivity.
Qed.

Lemma strict_alone_unknown_is_warning o nk k :
  o_strict o = true -> o_pedantic o = false -> o_permissive o = false ->
  (nk = NPayee -> o_check_payees o = true) ->
  unknown_name_reaction o nk = RWarning /\ resolve_ann o (AUnknown nk k) = None.
Proof.
  intros Hs Hp Hq Hc.
  assert (E : unknown_name_reaction o nk = RWarning).
  { unfold unknown_name_reaction. rewrite (strict_alone_style o Hs Hp Hq), payees_checked_eq.
    destruct nk; try reflexivity. rewrite (Hc eq_refl). reflexivity. }
  split; [exact E|]. cbn [resolve_ann]. rewrite E. reflexivity.
Qed.

Lemma quiet_unknown o nk k :
  (o_permissive o = true \/ (o_strict o = false /\ o_pedantic o = false) \/
   (nk = NPayee /\ o_check_payees o = false)) ->
  unknown_name_reaction o nk = RQuiet /\ resolve_ann o (AUnknown nk k) = None.
Proof.
  intros H.
  assert (E : unknown_name_reaction o nk = RQuiet).
  { unfold unknown_name_reaction. rewrite payees_checked_eq.
    destruct H as [Hq|[[Hs Hp]|[-> Hc]]].
    - rewrite (permissive_style o Hq). destruct nk; try reflexivity. destruct (o_check_payees o); reflexivity.
    - destruct (o_permissive o) eqn:Hq.
      + rewrite (permissive_style o Hq). destruct nk; try reflexivity. destruct (o_check_payees o); reflexivity.
      + rewrite (no_option_style o Hs Hp Hq). destruct nk; try reflexivity. destruct (o_check_payees o); reflexivity.
    - rewrite Hc. reflexivity. }
  split; [exact E|]. cbn [resolve_ann]. rewrite E. reflexivity.
Qed.

Lemma permissive_accepts_balance_assertion o k :
  o_permissive o = true -> resolve_ann o (ABalAssert k) = None.
Proof. intros Hq. cbn [resolve_ann]. rewrite (permissive_style o Hq). reflexivity. Qed.

Lemma balance_assertion_checked o k :
  o_permissive o = false -> resolve_ann o (ABalAssert k) = Some k.
Proof.
  intros Hq. cbn [resolve_ann]. unfold checking_style, style_chain. cbn [style_from handled].
  rewrite Hq. destruct (o_pedantic o); [reflexivity|]. destruct (o_strict o); reflexivity.
Qed.

(* under --pedantic (without --permissive) nothing else that is set changes how a line is read *)
Section RLineInd.
  Variable P : rline -> Prop.
  Hypothesis HE : P RLEmpty.
  Hypothesis HW : P RLWs.
  Hypothesis HS : forall a, P (RLSub a).
  Hypothesis HI : forall a b f, P (RLItem a b f).
  Hypothesis HInc : forall name body, Forall P body -> P (RLInclude name body).

  Fixpoint rline_ind2 (l : rline) : P l :=
    match l with
    | RLEmpty => HE
    | RLWs => HW
    | RLSub a => HS a
    | RLItem a b f => HI a b f
    | RLInclude name body =>
        HInc name body
             ((fix go (ls : list rline) : Forall P ls :=
                 match ls with
                 | [] => Forall_nil P
                 | x :: r => Forall_cons x (rline_ind2 x) (go r)
                 end) body)
    end.
End RLineInd.

Lemma resolve_ext o o' :
  (forall a, resolve_ann o a = resolve_ann o' a) -> forall l, resolve o l = resolve o' l.
Proof.
  intros H.
  assert (F : forall l, first_throw o l = first_throw o' l)
    by (induction l as [|a r IH]; [reflexivity|]; cbn [first_throw]; rewrite H, IH; reflexivity).
  apply rline_ind2; intros; cbn [resolve]; rewrite ?F; try reflexivity.
  f_equal. induction H0 as [|x r Hx _ IH]; [reflexivity|]. cbn [map]. rewrite Hx, IH. reflexivity.
Qed.

Lemma pedantic_resolve_ann_same o o' :
  o_pedantic o = true -> o_permissive o = false ->
  o_pedantic o' = true -> o_permissive o' = false ->
  o_check_payees o = o_check_payees o' ->
  forall a, resolve_ann o a = resolve_ann o' a.
Proof.
  intros Hp Hq Hp' Hq' Hc [k|nk k|k|p k]; cbn [resolve_ann]; [reflexivity| | |].
  - unfold unknown_name_reaction. rewrite !payees_checked_eq, Hc.
    rewrite (pedantic_style o Hp Hq), (pedantic_style o' Hp' Hq'). reflexivity.
  - rewrite (pedantic_style o Hp Hq), (pedantic_style o' Hp' Hq'). reflexivity.
  - unfold unknown_name_reaction.
    rewrite (pedantic_style o Hp Hq), (pedantic_style o' Hp' Hq'). reflexivity.
Qed.

(* an undeclared commodity in a position parse_post registers is treated like the amount's own *)
Lemma checked_position_like_amount o p k :
  position_checked p = true ->
  resolve_ann o (AUnknownAt p k) = resolve_ann o (AUnknown NCommodity k).
Proof. intros H. cbn [resolve_ann]. rewrite H. reflexivity. Qed.

Lemma unchecked_position_accepted o p k :
  position_checked p = false -> resolve_ann o (AUnknownAt p k) = None.
Proof. intros H. cbn [resolve_ann]. rewrite H. reflexivity. Qed.

Lemma pedantic_session_same o o' files :
  o_pedantic o = true -> o_permissive o = false ->
  o_pedantic o' = true -> o_permissive o' = false ->
  o_check_payees o = o_check_payees o' ->
  run_session o files = run_session o' files.
Proof.
  intros Hp Hq Hp' Hq' Hc. unfold run_session, resolve_files. f_equal.
  apply map_ext. intros [name ls]. cbn [fst snd]. f_equal.
  apply map_ext. apply resolve_ext. apply pedantic_resolve_ann_same; assumption.
Qed.
