(* Proofs about Model/DecimalComma.v: --decimal-comma in the reader and the printer, and the print -> re-read round trip
   of decimal-comma texts once the style is known (the positive side of F21). *)
From LedgerV Require Import Base.Prelude Base.Round Model.Amount Model.AmountText Model.DecimalComma
  Proofs.AmountTextProofs Gen.DecimalComma.
Local Open Scope Z_scope.

(* ---- the transcribed sites ---- *)
Lemma dc_sites_are_todays :
  src_dc_reader_init = DcDefaultOrFlag /\
  src_dc_print_point = (DcDefaultOrFlag, 44, 0) /\
  src_dc_print_mark = (DcDefaultOrFlag, 46, 44) /\
  src_dc_learned_from_reader_style = true /\
  src_dc_option_sets_default = true.
Proof. repeat split; reflexivity. Qed.

Lemma reader_dc_spec dcd flag : reader_dc dcd flag = dcd || flag.
Proof. reflexivity. Qed.

Lemma printed_dc_spec dcd flag : printed_dc dcd flag = dcd || flag.
Proof. reflexivity. Qed.

Lemma reader_printer_agree dcd flag :
  reader_dc dcd flag = printed_dc dcd flag /\
  printed_point dcd flag = (if printed_dc dcd flag then 44 else 46) /\
  printed_mark dcd flag = (if printed_dc dcd flag then 46 else 44).
Proof. destruct dcd, flag; repeat split; reflexivity. Qed.

Lemma quantity_text_sites_eq dcd st tok neg N p zp :
  quantity_text_sites dcd st tok neg N p zp = quantity_text (session_style dcd st) tok neg N p zp.
Proof. destruct st as [a b c d]. destruct dcd, d; reflexivity. Qed.

Lemma session_style_without_option st : session_style false st = st.
Proof. destruct st as [a b c d]. destruct d; reflexivity. Qed.

Lemma session_style_with_option st :
  session_style true st = mkStyle (st_suffixed st) (st_separated st) (st_thousands st) true.
Proof. destruct st as [a b c d]. destruct d; reflexivity. Qed.

Lemma digit_not_minus_early c : is_digit c = true -> c <> 45.
Proof. unfold is_digit. intros H. apply andb_true_iff in H as [H _]. apply Z.leb_le in H. lia. Qed.

(* ---- the reader never forgets a decimal-comma style: what it starts with, it ends with and teaches ---- *)
Lemma scan_step_keeps_dc s ch s' :
  sc_decimal_comma s = true -> scan_step s ch = Ok s' -> sc_decimal_comma s' = true.
Proof.
  intros Hd. unfold scan_step. rewrite Hd.
  destruct (ch =? 46).
  - destruct (sc_no_more_periods s); [discriminate|].
    destruct (negb (sc_offset s mod 3 =? 0)); cbn [bind]; [discriminate|].
    intros E. inversion E. reflexivity.
  - destruct (ch =? 44).
    + destruct (sc_no_more_commas s); [discriminate|].
      destruct (sc_last_period s); cbn [bind]; [discriminate|].
      intros E. inversion E. reflexivity.
    + intros E. inversion E. reflexivity.
Qed.

Lemma scan_rev_keeps_dc r : forall s s',
  sc_decimal_comma s = true -> scan_rev s r = Ok s' -> sc_decimal_comma s' = true.
Proof.
  induction r as [|c r IH]; intros s s' Hd; cbn [scan_rev].
  - intros E. inversion E. subst. exact Hd.
  - destruct (scan_step s c) as [s1|e] eqn:E1; cbn [bind]; [|discriminate].
    apply IH. eapply scan_step_keeps_dc; eassumption.
Qed.

Lemma scan_quantity_keeps_dc quant pq :
  scan_quantity true quant = Ok pq -> pq_decimal_comma pq = true.
Proof.
  unfold scan_quantity.
  destruct (scan_rev (mkScan 0 0 false false false false true false) (rev quant)) as [s|e] eqn:E; cbn [bind]; [|discriminate].
  intros H. inversion H. cbn [pq_decimal_comma].
  eapply scan_rev_keeps_dc; [|exact E]. reflexivity.
Qed.

Lemma parse_keeps_dc s pa :
  parse_amount_text true s = Ok pa -> st_decimal_comma (pa_style pa) = true.
Proof.
  unfold parse_amount_text.
  destruct (split_amount s) as [ap|e]; cbn [bind]; [|discriminate].
  destruct (scan_quantity true (ap_quant ap)) as [pq|e] eqn:E; cbn [bind]; [|discriminate].
  intros H. inversion H. cbn [pa_style st_decimal_comma].
  eapply scan_quantity_keeps_dc. exact E.
Qed.

(* under --decimal-comma every amount the reader accepts teaches its commodity the decimal-comma style *)
Lemma option_teaches_decimal_comma flag s pa :
  parse_amount_text_session true flag s = Ok pa -> st_decimal_comma (pa_style pa) = true.
Proof.
  unfold parse_amount_text_session. rewrite reader_dc_spec. cbn [orb].
  destruct (split_amount s) as [ap|e]; cbn [bind]; [|discriminate].
  destruct (parse_amount_text true s) as [pa0|e] eqn:E; cbn [bind]; [|discriminate].
  pose proof (parse_keeps_dc s pa0 E) as H0.
  destruct (set_str_accepts (ap_quant ap)); intros H; inversion H; subst; exact H0.
Qed.

(* the mark-stripping loop: digits pass unchanged and every mark is removed, so the loop yields the digits alone (what
   digits_value reads) *)
Lemma is_mark_digit c : is_digit c = true -> is_mark c = false.
Proof. intros H. unfold is_mark. destruct (is_digit_not_mark c H) as [-> ->]. reflexivity. Qed.

Lemma strip_marks_digits s : all_digits s -> strip_marks s = s.
Proof.
  induction 1 as [|c s Hc _ IH]; cbn [strip_marks]; [reflexivity|].
  rewrite (is_mark_digit c Hc), IH. reflexivity.
Qed.

Lemma strip_marks_between ip m f0 fp :
  all_digits ip -> is_mark m = true -> is_digit f0 = true ->
  strip_marks (ip ++ m :: f0 :: fp) = ip ++ f0 :: strip_marks fp.
Proof.
  intros Hi Hm Hf. induction Hi as [|c ip Hc _ IH]; cbn [app strip_marks].
  - rewrite Hm, (is_mark_digit f0 Hf). reflexivity.
  - rewrite (is_mark_digit c Hc), IH. reflexivity.
Qed.

Lemma drop_minus_other c s : c <> 45 -> drop_minus (c :: s) = c :: s.
Proof.
  intros H. unfold drop_minus. destruct c as [|q|q]; try reflexivity.
  repeat (destruct q as [q|q|]; try reflexivity). exfalso. apply H. reflexivity.
Qed.

(* a text "digits mark digits" that does not begin with '-' is accepted by mpq_set_str after the stripping loop *)
Lemma set_str_accepts_plain_decimal c0 ip fp m :
  all_digits (c0 :: ip) -> all_digits fp -> fp <> [] -> is_mark m = true ->
  set_str_accepts ((c0 :: ip) ++ m :: fp) = true.
Proof.
  intros Hi Hf Hne Hm. unfold set_str_accepts.
  destruct fp as [|f0 fr]; [contradiction|].
  cbn [app]. rewrite drop_minus_other by (apply digit_not_minus_early; exact (Forall_inv Hi)).
  change (c0 :: ip ++ m :: f0 :: fr) with ((c0 :: ip) ++ m :: f0 :: fr).
  inversion Hf as [|? ? Hf0 Hfr]; subst.
  rewrite (strip_marks_between (c0 :: ip) m f0 fr Hi Hm Hf0), (strip_marks_digits fr Hfr).
  rewrite forallb_app. apply andb_true_iff. split.
  - apply forallb_forall. intros x Hx. unfold all_digits in Hi. rewrite Forall_forall in Hi. apply Hi. exact Hx.
  - cbn [forallb]. rewrite Hf0. apply forallb_forall. intros x Hx. unfold all_digits in Hfr. rewrite Forall_forall in Hfr. apply Hfr. exact Hx.
Qed.

(* ---- print -> re-read of a decimal-comma text when the reader knows the style ---- *)
Lemma scan_step_comma_dc k :
  scan_step (mkScan k 0 false false false false true false) 44 =
  Ok (mkScan 0 k true false true false true false).
Proof. reflexivity. Qed.

(* the grouped integer digits, right to left, in decimal-comma mode: every period stands where the count of digits to
   its right is a multiple of three, so none is refused and none is taken for a decimal mark *)
Lemma scan_grouped_digits_dc p lc : forall r n lp nmc th, all_digits r ->
  exists lp' nmc' th',
    scan_rev (mkScan (Z.of_nat n) p lc lp nmc false true th) (group3_rev r n 46) =
    Ok (mkScan (Z.of_nat (n + length r)) p lc lp' nmc' false true th').
Proof.
  induction r as [|x r IH]; intros n lp nmc th H; cbn [group3_rev].
  - exists lp, nmc, th. cbn [scan_rev length]. rewrite Nat.add_0_r. reflexivity.
  - inversion H as [|? ? Hx Hr]; subst.
    assert (Hstep : forall lp0 nmc0 th0, scan_step (mkScan (Z.of_nat n) p lc lp0 nmc0 false true th0) x =
                    Ok (mkScan (Z.of_nat (S n)) p lc lp0 nmc0 false true th0)).
    { intros lp0 nmc0 th0. unfold scan_step. destruct (is_digit_not_mark x Hx) as [-> ->].
      cbn [sc_offset sc_prec sc_last_comma sc_last_period sc_no_more_commas sc_no_more_periods sc_decimal_comma sc_thousands].
      rewrite Nat2Z.inj_succ. repeat f_equal; try lia. }
    destruct r as [|y r'].
    + exists lp, nmc, th. cbn [scan_rev length]. rewrite Hstep. cbn [bind]. replace (n + 1)%nat with (S n) by lia. reflexivity.
    + destruct (Nat.eqb (n mod 3) 2) eqn:E.
      * apply Nat.eqb_eq in E.
        assert (Hmod : (Z.of_nat (S n)) mod 3 = 0).
        { rewrite Nat2Z.inj_succ. pose proof (Nat.div_mod n 3 ltac:(lia)) as D.
          assert (Z.of_nat n = 3 * Z.of_nat (n / 3) + 2) by lia.
          replace (Z.succ (Z.of_nat n)) with ((Z.of_nat (n / 3) + 1) * 3) by lia. apply Z.mod_mul. lia. }
        destruct (IH (S n) true true true Hr) as [lp' [nmc' [th' E']]].
        exists lp', nmc', th'. cbn [scan_rev]. rewrite Hstep. cbn [bind scan_rev].
        unfold scan_step at 1. cbn [sc_offset sc_prec sc_last_comma sc_last_period sc_no_more_commas
          sc_no_more_periods sc_decimal_comma sc_thousands]. change (46 =? 46) with true.
        cbn iota. rewrite Hmod. cbn [Z.eqb negb bind sc_offset sc_prec sc_last_comma sc_last_period sc_no_more_commas
          sc_no_more_periods sc_decimal_comma sc_thousands].
        rewrite E'. cbn [length]. replace (S n + S (length r'))%nat with (n + S (S (length r')))%nat by lia. reflexivity.
      * destruct (IH (S n) lp nmc th Hr) as [lp' [nmc' [th' E']]].
        exists lp', nmc', th'. cbn [scan_rev]. rewrite Hstep. cbn [bind]. rewrite E'. cbn [length].
        replace (S n + S (length r'))%nat with (n + S (S (length r')))%nat by lia. reflexivity.
Qed.

Lemma digit_not_minus c : is_digit c = true -> c <> 45.
Proof. unfold is_digit. intros H. apply andb_true_iff in H as [H _]. apply Z.leb_le in H. lia. Qed.

(* N / 10^p (p > 0) printed in a decimal-comma style, with or without thousands marks (periods), is read back as exactly
   N with precision p by a reader that starts in decimal-comma mode - for EVERY p, the multiples of three included *)
Theorem dc_text_roundtrip N p sfx sep th :
  0 <= N -> 0 < p ->
  exists th', scan_quantity true (quantity_text (mkStyle sfx sep th true) true false N p p) = Ok (mkPQ N p th' true).
Proof.
  intros HN Hp. unfold quantity_text, scan_quantity. cbn [st_thousands st_decimal_comma andb app].
  rewrite Z.abs_eq by exact HN.
  set (pn := Z.to_nat p). set (ds := pad_left (S pn) (digits N)).
  set (k := (length ds - pn)%nat).
  assert (Hds : all_digits ds) by (apply all_digits_pad, all_digits_digits; exact HN).
  assert (Hlen : (S pn <= length ds)%nat).
  { unfold ds, pad_left. rewrite app_length, repeat_length. lia. }
  assert (Hfp : length (skipn k ds) = pn) by (rewrite skipn_length; unfold k; lia).
  assert (Htrim : trim_fraction (skipn k ds) p = skipn k ds).
  { unfold trim_fraction. rewrite Hfp. fold pn. rewrite Nat.sub_diag. cbn [strip_zeros_rev].
    apply rev_involutive. }
  rewrite Htrim.
  assert (Hne : skipn k ds <> []).
  { intros E. rewrite E in Hfp. cbn in Hfp. unfold pn in Hfp. lia. }
  destruct (skipn k ds) as [|f0 fr] eqn:Efp; [contradiction|].
  rewrite <- Efp. rewrite <- Efp in Hfp.
  assert (Hip : all_digits (firstn k ds)) by (apply Forall_firstn'; exact Hds).
  assert (Hfr : all_digits (skipn k ds)) by (apply Forall_skipn'; exact Hds).
  set (ip := firstn k ds) in *. set (fp := skipn k ds) in *.
  set (ip' := if th then group3 ip 46 else ip).
  assert (Hval : forall a, digits_value a ip' = digits_value a ip).
  { intros a. unfold ip'. destruct th; [|reflexivity]. apply digits_value_group3; [reflexivity | exact Hip]. }
  assert (Hnm : Forall (fun c => c <> 45) ip').
  { unfold ip'. destruct th.
    - unfold group3. apply Forall_rev. apply group3_rev_Forall; [discriminate|]. apply Forall_rev.
      eapply Forall_impl; [|exact Hip]. intros c Hc. apply digit_not_minus. exact Hc.
    - eapply Forall_impl; [|exact Hip]. intros c Hc. apply digit_not_minus. exact Hc. }
  assert (Hscan : exists s', scan_rev (mkScan 0 0 false false false false true false) (rev (ip' ++ 44 :: fp)) = Ok s' /\
                  sc_prec s' = p /\ sc_decimal_comma s' = true).
  { rewrite rev_app_distr. cbn [rev]. rewrite <- app_assoc. cbn [app].
    assert (Hrf : all_digits (rev fp)) by (apply Forall_rev; exact Hfr).
    rewrite scan_rev_app, (scan_rev_digits _ Hrf). cbn [bind scan_rev sc_offset sc_prec sc_last_comma
      sc_last_period sc_no_more_commas sc_no_more_periods sc_decimal_comma sc_thousands].
    rewrite Z.add_0_l, scan_step_comma_dc. cbn [bind].
    assert (Hpl : Z.of_nat (length (rev fp)) = p).
    { rewrite rev_length, Hfp. unfold pn. apply Z2Nat.id. lia. }
    rewrite Hpl. unfold ip'. destruct th.
    - unfold group3. rewrite rev_involutive.
      destruct (scan_grouped_digits_dc p true (rev ip) 0 false true false (Forall_rev Hip)) as [lp' [nmc' [th' E]]].
      change (Z.of_nat 0) with 0 in E. rewrite E. eexists. split; [reflexivity|]. split; reflexivity.
    - rewrite (scan_rev_digits _ (Forall_rev Hip)). eexists. split; [reflexivity|]. split; reflexivity. }
  destruct Hscan as [s' [Hscan [Hprec Hdc]]]. exists (sc_thousands s'). rewrite Hscan. cbn [bind]. rewrite Hprec, Hdc.
  assert (Hfirst : match ip' ++ 44 :: fp with 45 :: _ => true | _ => false end = false).
  { assert (HF : Forall (fun c => c <> 45) (ip' ++ 44 :: fp)).
    { apply Forall_app. split; [exact Hnm|]. constructor; [discriminate|].
      eapply Forall_impl; [|exact Hfr]. intros c Hc. apply digit_not_minus. exact Hc. }
    destruct (ip' ++ 44 :: fp) as [|c0 r0]; [reflexivity|].
    apply not_minus_head. exact (Forall_inv HF). }
  rewrite Hfirst.
  rewrite digits_value_app, Hval, <- digits_value_app.
  rewrite digits_value_mark by reflexivity. unfold ip, fp. rewrite firstn_skipn.
  unfold ds. rewrite digits_value_pad by exact HN. reflexivity.
Qed.

(* the same for an amount shown without decimals (p = 0): digits and thousands periods only *)
Theorem dc_integer_text_roundtrip N sfx sep th :
  0 <= N ->
  exists th', scan_quantity true (quantity_text (mkStyle sfx sep th true) true false N 0 0) = Ok (mkPQ N 0 th' true).
Proof.
  intros HN. unfold quantity_text, scan_quantity. cbn [st_thousands st_decimal_comma andb app].
  rewrite Z.abs_eq by exact HN. change (Z.to_nat 0) with 0%nat.
  set (ds := pad_left 1 (digits N)).
  assert (Hds : all_digits ds) by (apply all_digits_pad, all_digits_digits; exact HN).
  rewrite Nat.sub_0_r, firstn_all, skipn_all.
  change (trim_fraction [] 0) with (@nil Z). rewrite app_nil_r.
  set (ip' := if th then group3 ds 46 else ds).
  assert (Hval : forall a, digits_value a ip' = digits_value a ds).
  { intros a. unfold ip'. destruct th; [|reflexivity]. apply digits_value_group3; [reflexivity | exact Hds]. }
  assert (Hnm : Forall (fun c => c <> 45) ip').
  { unfold ip'. destruct th.
    - unfold group3. apply Forall_rev. apply group3_rev_Forall; [discriminate|]. apply Forall_rev.
      eapply Forall_impl; [|exact Hds]. intros c Hc. apply digit_not_minus. exact Hc.
    - eapply Forall_impl; [|exact Hds]. intros c Hc. apply digit_not_minus. exact Hc. }
  assert (Hscan : exists s', scan_rev (mkScan 0 0 false false false false true false) (rev ip') = Ok s' /\
                  sc_prec s' = 0 /\ sc_decimal_comma s' = true).
  { unfold ip'. destruct th.
    - unfold group3. rewrite rev_involutive.
      destruct (scan_grouped_digits_dc 0 false (rev ds) 0 false false false (Forall_rev Hds)) as [lp' [nmc' [th' E]]].
      change (Z.of_nat 0) with 0 in E. rewrite E. eexists. split; [reflexivity|]. split; reflexivity.
    - rewrite (scan_rev_digits _ (Forall_rev Hds)). eexists. split; [reflexivity|]. split; reflexivity. }
  destruct Hscan as [s' [Hscan [Hprec Hdc]]]. exists (sc_thousands s'). rewrite Hscan. cbn [bind]. rewrite Hprec, Hdc.
  assert (Hfirst : match ip' with 45 :: _ => true | _ => false end = false).
  { destruct ip' as [|c0 r0]; [reflexivity|]. apply not_minus_head. exact (Forall_inv Hnm). }
  rewrite Hfirst, Hval. unfold ds. rewrite digits_value_pad by exact HN. reflexivity.
Qed.

(* without thousands marks quantity_text does not look at thousands_ok *)
Lemma quantity_text_no_marks sfx sep dc tok neg N p zp :
  quantity_text (mkStyle sfx sep false dc) tok neg N p zp = quantity_text (mkStyle false false false dc) false neg N p zp.
Proof. unfold quantity_text. cbn [st_thousands st_decimal_comma]. rewrite andb_false_r. reflexivity. Qed.

(* ---- under --decimal-comma: whatever the commodity had learned, the printed text is re-read exactly ---- *)
Theorem reread_under_option flag N p sfx sep th :
  0 <= N -> 0 < p ->
  exists th', scan_quantity (reader_dc true flag)
                (quantity_text_sites true (mkStyle sfx sep th flag) true false N p p) = Ok (mkPQ N p th' true).
Proof.
  intros HN Hp. rewrite quantity_text_sites_eq, session_style_with_option, reader_dc_spec.
  cbn [orb st_suffixed st_separated st_thousands]. apply dc_text_roundtrip; assumption.
Qed.

(* ---- printed and re-read in the same session, option given or not, style learned or not ---- *)
Theorem reread_same_session dcd flag N p sfx sep th :
  0 <= N -> 0 < p ->
  exists th', scan_quantity (reader_dc dcd flag)
                (quantity_text_sites dcd (mkStyle sfx sep th flag) true false N p p) = Ok (mkPQ N p th' (dcd || flag)).
Proof.
  intros HN Hp. rewrite quantity_text_sites_eq, reader_dc_spec. destruct dcd.
  - rewrite session_style_with_option. cbn [orb st_suffixed st_separated st_thousands].
    apply dc_text_roundtrip; assumption.
  - rewrite session_style_without_option. cbn [orb]. destruct flag.
    + apply dc_text_roundtrip; assumption.
    + destruct th.
      * apply grouped_text_roundtrip; assumption.
      * exists false. rewrite (quantity_text_no_marks sfx sep false true false N p p).
        apply plain_text_roundtrip; assumption.
Qed.

(* two adjacent marks (not a text the printer emits): the stripping loop removes both, mpq_set_str gets the digits and
   the amount is what the scan made of it - `1.,2 EUR` is 1,2 EUR (decimal comma, one decimal), `1,.2 EUR` is 1.2 EUR *)
Lemma strip_marks_only_digits s : forallb (fun c => negb (is_mark c)) (strip_marks s) = true.
Proof.
  induction s as [|c t IH]; cbn [strip_marks]; [reflexivity|].
  destruct (is_mark c) eqn:E; [exact IH|]. cbn [forallb]. rewrite E. exact IH.
Qed.

Example adjacent_marks_both_stripped :
  strip_marks [49;46;44;50] = [49;50] /\ set_str_accepts [49;46;44;50] = true /\
  (exists pa, parse_amount_text_session false false [49;46;44;50;32;69;85;82] = Ok pa /\ pa_num pa = 12 /\ pa_prec pa = 1
              /\ st_decimal_comma (pa_style pa) = true) /\
  (exists pa, parse_amount_text_session false false [49;44;46;50;32;69;85;82] = Ok pa /\ pa_num pa = 12 /\ pa_prec pa = 1
              /\ st_decimal_comma (pa_style pa) = false) /\
  (exists pa, parse_amount_text_session false false [49;44;50;32;69;85;82] = Ok pa /\ pa_num pa = 12 /\ pa_prec pa = 1).
Proof. vm_compute. repeat split; eexists; repeat split; reflexivity. Qed.

Example f21_text_under_the_option :
  quantity_text_sites true (mkStyle false false false false) true false 310200000 6 6 = [51;49;48;44;50;48;48;48;48;48] /\
  scan_quantity (reader_dc true false) [51;49;48;44;50;48;48;48;48;48] = Ok (mkPQ 310200000 6 false true) /\
  scan_quantity (reader_dc false false) [51;49;48;44;50;48;48;48;48;48] = Ok (mkPQ 310200000 0 true false).
Proof. vm_compute. repeat split; reflexivity. Qed.
