(* C18: join() (report.cc fn_join) as the regenerated clause list of Gen/JoinRule.v makes it *)
From LedgerV Require Import Base.Prelude Gen.CsvFormat Gen.JoinRule Model.Escape.
Local Open Scope Z_scope.

(* a character of the journal text: one byte *)
Definition byte (b : Z) : Prop := 0 <= b < 256.

Ltac bool_hyps :=
  repeat match goal with
         | H : (_ =? _) = true |- _ => apply Z.eqb_eq in H
         | H : (_ =? _) = false |- _ => apply Z.eqb_neq in H
         | H : (_ <? _) = true |- _ => apply Z.ltb_lt in H
         | H : (_ <? _) = false |- _ => apply Z.ltb_ge in H
         | H : (_ <=? _) = true |- _ => apply Z.leb_le in H
         | H : (_ <=? _) = false |- _ => apply Z.leb_gt in H
         | H : negb _ = true |- _ => apply negb_true_iff in H
         | H : negb _ = false |- _ => apply negb_false_iff in H
         end.
(* decide what the clause chain of the CURRENT source writes for a byte, by running through its tests *)
Ltac join_cases :=
  unfold src_join_clauses, join_char, jtest_holds, c_char;
  repeat match goal with
         | |- context [if ?c then _ else _] =>
           lazymatch c with
           | context [if _ then _ else _] => fail
           | _ => destruct c eqn:?
           end
         end; bool_hyps; try reflexivity; try lia.

(* every byte other than the line feed - control bytes and bytes >= 0x80 included - is copied *)
Lemma join_char_other b : byte b -> b <> 10 -> join_char src_join_clauses b = [b].
Proof. unfold byte. intros Hb Hn. join_cases. Qed.

Lemma join_char_newline : join_char src_join_clauses 10 = [92; 110].
Proof. vm_compute. reflexivity. Qed.

Lemma join_lines_cons a s : join_lines (a :: s) = join_char src_join_clauses a ++ join_lines s.
Proof. reflexivity. Qed.

Lemma join_keeps_bytes_lemma s : Forall byte s -> ~ In 10 s -> join_lines s = s.
Proof.
  induction s as [|a s IH]; intros Hb Hn; [reflexivity|].
  inversion Hb; subst. rewrite join_lines_cons, join_char_other; [|assumption|].
  - cbn [app]. f_equal. apply IH; [assumption|]. intro Hi. apply Hn. right. exact Hi.
  - intro He. apply Hn. left. exact He.
Qed.

Lemma join_one_line_lemma s : Forall byte s -> ~ In 10 (join_lines s).
Proof.
  induction s as [|a s IH]; intros Hb; [intros []|].
  inversion Hb; subst. rewrite join_lines_cons. intro Hi. apply in_app_or in Hi. destruct Hi as [Hi|Hi].
  - destruct (Z.eq_dec a 10) as [->|Hn].
    + rewrite join_char_newline in Hi. cbn in Hi. intuition lia.
    + rewrite join_char_other in Hi by assumption. cbn in Hi. intuition lia.
  - exact (IH H2 Hi).
Qed.

Lemma unjoin_join_lemma s : Forall byte s -> ~ In 92 s -> unjoin (join_lines s) = s.
Proof.
  induction s as [|a s IH]; intros Hb Hn; [reflexivity|].
  inversion Hb; subst.
  assert (IH' : unjoin (join_lines s) = s).
  { apply IH; [assumption|]. intro Hi. apply Hn. right. exact Hi. }
  assert (Ha : a <> 92) by (intro He; apply Hn; left; exact He).
  rewrite join_lines_cons. destruct (Z.eq_dec a 10) as [->|Hn10].
  - rewrite join_char_newline. cbn [app unjoin]. change (92 =? 92) with true. change (110 =? 110) with true.
    cbn [andb]. f_equal. exact IH'.
  - rewrite join_char_other by assumption. cbn [app]. cbn [unjoin].
    destruct (join_lines s) as [|b r] eqn:E.
    + cbn in IH'. subst s. reflexivity.
    + apply Z.eqb_neq in Ha. rewrite Ha. cbn [andb]. f_equal. exact IH'.
Qed.

(* the note cell of a csv row is the note itself whenever the note is a single line *)
Lemma csv_note_cell_lemma aux x p :
  Forall byte (post_note x p) -> ~ In 10 (post_note x p) ->
  field_value aux x p FNote = post_note x p.
Proof. intros Hb Hn. cbn [field_value]. apply join_keeps_bytes_lemma; assumption. Qed.
