(* Proofs about Model/Period.v (property C13). *)
From LedgerV Require Import Base.Prelude Model.PeriodCalendar Gen.PeriodSources Model.Period Proofs.PeriodCalendarProofs.
From Coq Require Import Sorting.Sorted.
Local Open Scope Z_scope.

(* ---- durations ---- *)
Theorem add_dur_increasing_lemma : forall q n d, 1 <= n -> d < add_dur (mkDur q n) d.
Proof.
  intros q n d Hn. unfold add_dur, add_days, add_years; cbn [d_q d_n].
  destruct q; try lia; apply add_months_increasing; lia.
Qed.

Definition dur_ok (dur : duration) : Prop := 1 <= d_n dur.

Lemma add_dur_lt dur z : dur_ok dur -> z < add_dur dur z.
Proof. destruct dur as [q n]. intros H. apply add_dur_increasing_lemma. exact H. Qed.

Lemma iter_dur_S dur k z : iter_dur dur (S k) z = add_dur dur (iter_dur dur k z).
Proof. revert z. induction k as [|k IH]; intros z; [reflexivity|]. cbn [iter_dur] in *. rewrite <- IH. reflexivity. Qed.

Lemma iter_dur_ge dur k z : dur_ok dur -> z + Z.of_nat k <= iter_dur dur k z.
Proof.
  intros Hd. revert z. induction k as [|k IH]; intros z; cbn [iter_dur]; [lia|].
  pose proof (IH (add_dur dur z)). pose proof (add_dur_lt dur z Hd). lia.
Qed.

(* ---- lists of intervals ---- *)

Fixpoint chained (l : list (Z * Z)) : Prop :=
  match l with
  | (s, e) :: tl => match tl with (s', _) :: _ => e = s' | [] => True end /\ chained tl
  | [] => True
  end.

Definition nonempty_all (l : list (Z * Z)) : Prop := forall s e, In (s, e) l -> s < e.

Lemma chained_consecutive l : chained l -> forall i s e s' e',
  nth_error l i = Some (s, e) -> nth_error l (S i) = Some (s', e') -> e = s'.
Proof.
  induction l as [|[s0 e0] tl IH]; intros Hc i s e s' e' H1 H2.
  - destruct i; discriminate.
  - destruct Hc as [Hh Ht]. destruct i as [|i].
    + cbn in H1, H2. injection H1 as -> ->. destruct tl as [|[s1 e1] tl']; [discriminate|].
      cbn in H2. injection H2 as -> ->. exact Hh.
    + cbn [nth_error] in H1. change (nth_error tl (S i) = Some (s', e')) in H2. eapply IH; eassumption.
Qed.

Lemma chained_sorted l : chained l -> nonempty_all l -> forall i j s e s' e',
  (i < j)%nat -> nth_error l i = Some (s, e) -> nth_error l j = Some (s', e') -> e <= s'.
Proof.
  intros Hc Hn i j. revert i. induction j as [|j IH]; intros i s e s' e' Hij H1 H2; [lia|].
  destruct (Nat.eq_dec i j) as [->|Hne].
  - pose proof (chained_consecutive l Hc j s e s' e' H1 H2). lia.
  - destruct (nth_error l j) as [[sj ej]|] eqn:Ej.
    + pose proof (IH i s e sj ej ltac:(lia) H1 eq_refl) as Hle.
      pose proof (chained_consecutive l Hc j sj ej s' e' Ej H2) as Hc2.
      pose proof (Hn sj ej (nth_error_In _ _ Ej)). lia.
    + exfalso. apply nth_error_None in Ej.
      assert (nth_error l (S j) = None) as Hn2 by (apply nth_error_None; lia). congruence.
Qed.

(* ---- the specification sequence ---- *)

Lemma clip_cases to x : clip to x = x \/ (exists t, to = Some t /\ t < x /\ clip to x = t).
Proof.
  unfold clip. destruct to as [t|]; [|left; reflexivity].
  destruct (Z.ltb_spec t x); [right; exists t; auto|left; reflexivity].
Qed.

Lemma clip_le to x : clip to x <= x.
Proof. destruct (clip_cases to x) as [->|(t & _ & H & ->)]; lia. Qed.

Lemma clip_gt to x d : d < x -> past to d = false -> d < clip to x.
Proof.
  unfold clip, past. destruct to as [t|]; [|lia].
  intros H1 H2. apply Z.leb_gt in H2. destruct (Z.ltb_spec t x); lia.
Qed.

Lemma past_clip to x : clip to x <> x -> past to x = true.
Proof.
  unfold clip, past. destruct to as [t|]; [|congruence].
  destruct (Z.ltb_spec t x); [|congruence]. intros _. apply Z.leb_le. lia.
Qed.

Lemma spec_from_head dur to s n :
  match spec_from dur to s n with
  | (s', e') :: _ => s' = s /\ e' = clip to (add_dur dur s) /\ past to s = false
  | [] => True
  end.
Proof. destruct n as [|n]; cbn [spec_from]; [exact I|]. destruct (past to s) eqn:E; [exact I|auto]. Qed.

Lemma spec_from_chained dur to : forall n s, chained (spec_from dur to s n).
Proof.
  induction n as [|n IH]; intros s; cbn [spec_from]; [exact I|].
  destruct (past to s); [exact I|]. cbn [chained]. split; [|apply IH].
  pose proof (spec_from_head dur to (add_dur dur s) n) as Hh.
  destruct (spec_from dur to (add_dur dur s) n) as [|[s' e'] tl]; [exact I|].
  destruct Hh as (-> & _ & Hp).
  destruct (Z.eq_dec (clip to (add_dur dur s)) (add_dur dur s)) as [E|E]; [exact E|].
  apply past_clip in E. congruence.
Qed.

Lemma spec_from_nonempty dur to : dur_ok dur -> forall n s, nonempty_all (spec_from dur to s n).
Proof.
  intros Hd. induction n as [|n IH]; intros s x y Hin; cbn [spec_from] in Hin; [contradiction|].
  destruct (past to s) eqn:E; [contradiction|]. destruct Hin as [Hin|Hin].
  - injection Hin as <- <-. apply clip_gt; [apply add_dur_lt; exact Hd|exact E].
  - eapply IH; eassumption.
Qed.

(* every element is one duration long unless `to` cuts it, and starts on the grid *)
Lemma spec_from_elements dur to : forall n s i x y,
  nth_error (spec_from dur to s n) i = Some (x, y) ->
  x = iter_dur dur i s /\ y = clip to (add_dur dur x) /\ past to x = false.
Proof.
  induction n as [|n IH]; intros s i x y H; cbn [spec_from] in H.
  - destruct i; discriminate.
  - destruct (past to s) eqn:E; [destruct i; discriminate|]. destruct i as [|i].
    + cbn in H. injection H as <- <-. auto.
    + cbn [nth_error] in H. apply IH in H. cbn [iter_dur]. exact H.
Qed.

Lemma spec_from_covers dur to : dur_ok dur -> forall n s d,
  s <= d -> past to d = false -> (Z.to_nat (d - s) < n)%nat ->
  exists i x y, nth_error (spec_from dur to s n) i = Some (x, y) /\ x <= d < y.
Proof.
  intros Hd. induction n as [|n IH]; intros s d Hs Hp Hn; [lia|].
  cbn [spec_from].
  assert (Hps : past to s = false).
  { unfold past in *. destruct to as [t|]; [|reflexivity]. apply Z.leb_gt in Hp. apply Z.leb_gt. lia. }
  rewrite Hps. pose proof (add_dur_lt dur s Hd) as Hlt.
  destruct (Z.lt_ge_cases d (add_dur dur s)) as [Hin|Hout].
  - exists 0%nat, s, (clip to (add_dur dur s)). split; [reflexivity|].
    split; [exact Hs|]. apply clip_gt; assumption.
  - destruct (IH (add_dur dur s) d Hout Hp ltac:(lia)) as (i & x & y & Hnth & Hxy).
    exists (S i), x, y. split; [exact Hnth|exact Hxy].
Qed.

Section Spec.
  Variable dur : duration.
  Variable from to : option Z.
  Variable a : Z.
  Hypothesis Hdur : dur_ok dur.
  (* the anchor is the grid point of the period that contains `from` *)
  Hypothesis Hanchor : forall f, from = Some f -> a <= f < add_dur dur a.
  Hypothesis Hbounds : forall f t, from = Some f -> to = Some t -> f < t.

  Lemma spec_intervals_chained n : chained (spec_intervals dur from to a n).
  Proof.
    unfold spec_intervals. destruct from as [f|]; [|apply spec_from_chained].
    destruct (Z.ltb_spec a f); [|apply spec_from_chained].
    destruct n as [|n]; [exact I|]. cbn [chained]. split; [|apply spec_from_chained].
    pose proof (spec_from_head dur to (add_dur dur a) n) as Hh.
    destruct (spec_from dur to (add_dur dur a) n) as [|[s' e'] tl]; [exact I|].
    destruct Hh as (-> & _ & Hp).
    destruct (Z.eq_dec (clip to (add_dur dur a)) (add_dur dur a)) as [E|E]; [exact E|].
    apply past_clip in E. congruence.
  Qed.

  Lemma spec_intervals_nonempty n : nonempty_all (spec_intervals dur from to a n).
  Proof.
    unfold spec_intervals. destruct from as [f|] eqn:Ef; [|apply spec_from_nonempty; exact Hdur].
    destruct (Z.ltb_spec a f); [|apply spec_from_nonempty; exact Hdur].
    destruct n as [|n]; [intros s e []|]. intros s e [Hin|Hin].
    - injection Hin as <- <-. apply clip_gt; [apply (Hanchor f eq_refl)|].
      unfold past. destruct to as [t|] eqn:Et; [|reflexivity]. apply Z.leb_gt. eapply Hbounds; reflexivity.
    - eapply spec_from_nonempty; eassumption.
  Qed.

  Lemma spec_consecutive n i s e s' e' :
    nth_error (spec_intervals dur from to a n) i = Some (s, e) ->
    nth_error (spec_intervals dur from to a n) (S i) = Some (s', e') -> e = s'.
  Proof. apply chained_consecutive, spec_intervals_chained. Qed.

  Lemma spec_disjoint n i j s e s' e' :
    (i < j)%nat ->
    nth_error (spec_intervals dur from to a n) i = Some (s, e) ->
    nth_error (spec_intervals dur from to a n) j = Some (s', e') -> s < e /\ e <= s' /\ s' < e'.
  Proof.
    intros Hij H1 H2. split; [|split].
    - eapply spec_intervals_nonempty, nth_error_In, H1.
    - eapply chained_sorted; eauto using spec_intervals_chained, spec_intervals_nonempty.
    - eapply spec_intervals_nonempty, nth_error_In, H2.
  Qed.

  (* the first start: the later of the anchor and `from` *)
  Definition first_start : Z := match from with Some f => Z.max a f | None => a end.

  (* every interval is one duration long unless cut by `to`; only the first can start off the
     grid, namely at `from`, and then it ends where the period containing `from` ends *)
  Lemma spec_length n i s e :
    nth_error (spec_intervals dur from to a n) i = Some (s, e) ->
    (e = add_dur dur s \/ (to = Some e /\ e < add_dur dur s) \/
     (i = 0%nat /\ from = Some s /\ a < s /\ e = clip to (add_dur dur a))) /\
    ((exists k, s = iter_dur dur k a) \/ (i = 0%nat /\ from = Some s /\ a < s)) /\
    (i = 0%nat -> s = first_start).
  Proof.
    unfold spec_intervals, first_start. intros H.
    assert (Hgen : forall s0 n0 i0 k0, s0 = iter_dur dur k0 a ->
              nth_error (spec_from dur to s0 n0) i0 = Some (s, e) ->
              (e = add_dur dur s \/ (to = Some e /\ e < add_dur dur s)) /\ (exists k, s = iter_dur dur k a) /\
              (i0 = 0%nat -> s = s0)).
    { intros s0 n0 i0 k0 Hs0 Hn. apply spec_from_elements in Hn as (Hx & Hy & _).
      split; [|split].
      - destruct (clip_cases to (add_dur dur s)) as [Ec|(t & Et & Hlt & Ec)]; [left; congruence|].
        right. rewrite Hy, Ec. auto.
      - exists (i0 + k0)%nat. rewrite Hx, Hs0. clear. revert a. induction k0 as [|k0 IH]; intros a.
        + rewrite Nat.add_0_r. reflexivity.
        + rewrite Nat.add_succ_r. cbn [iter_dur]. apply IH.
      - intros ->. exact Hx. }
    destruct from as [f|] eqn:Ef.
    - destruct (Z.ltb_spec a f) as [Hlt|Hge].
      + destruct n as [|n]; [destruct i; discriminate|]. destruct i as [|i].
        * cbn in H. injection H as <- <-. split; [right; right; auto|]. split; [right; auto|]. intros _. lia.
        * cbn [nth_error] in H. destruct (Hgen _ _ _ 1%nat eq_refl H) as (H1 & H2 & _).
          split; [destruct H1 as [H1|H1]; auto|]. split; [left; exact H2|]. discriminate.
      + destruct (Hgen _ _ _ 0%nat eq_refl H) as (H1 & H2 & H3).
        split; [destruct H1 as [H1|H1]; auto|]. split; [left; exact H2|].
        intros Hi. rewrite (H3 Hi). pose proof (Hanchor f eq_refl). cbn [iter_dur]. lia.
    - destruct (Hgen _ _ _ 0%nat eq_refl H) as (H1 & H2 & H3).
      split; [destruct H1 as [H1|H1]; auto|]. split; [left; exact H2|]. exact H3.
  Qed.

  (* every date within the bounds lies in exactly one interval *)
  Lemma spec_covers d :
    first_start <= d -> past to d = false ->
    exists i s e, nth_error (spec_intervals dur from to a (S (S (Z.to_nat (d - a))))) i = Some (s, e) /\ s <= d < e.
  Proof.
    unfold first_start, spec_intervals. intros Hlo Hp.
    destruct from as [f|] eqn:Ef.
    - pose proof (Hanchor f eq_refl) as Ha.
      destruct (Z.ltb_spec a f) as [Hlt|Hge].
      + destruct (Z.lt_ge_cases d (add_dur dur a)) as [Hin|Hout].
        * exists 0%nat, f, (clip to (add_dur dur a)). split; [reflexivity|]. split; [lia|].
          apply clip_gt; assumption.
        * destruct (spec_from_covers dur to Hdur (S (Z.to_nat (d - a))) (add_dur dur a) d Hout Hp ltac:(lia))
            as (i & x & y & Hn & Hxy).
          exists (S i), x, y. split; [exact Hn|exact Hxy].
      + apply spec_from_covers; [exact Hdur|lia|exact Hp|lia].
    - apply spec_from_covers; [exact Hdur|lia|exact Hp|lia].
  Qed.

  Lemma spec_unique n d i j s e s' e' :
    nth_error (spec_intervals dur from to a n) i = Some (s, e) -> s <= d < e ->
    nth_error (spec_intervals dur from to a n) j = Some (s', e') -> s' <= d < e' -> i = j.
  Proof.
    intros H1 Hd1 H2 Hd2.
    destruct (Nat.lt_trichotomy i j) as [Hlt|[Heq|Hgt]]; [|exact Heq|].
    - pose proof (spec_disjoint n i j s e s' e' Hlt H1 H2). lia.
    - pose proof (spec_disjoint n j i s' e' s e Hgt H2 H1). lia.
  Qed.
End Spec.

(* ================================================================================= *)
(* The transcribed state machine refines the specification                           *)
(* ================================================================================= *)

Ltac pcbn := cbn [catch_up increment resolve_end stabilize find_period within_period scan_period
                  i_from i_to i_start i_finish i_aligned i_next i_dur i_eod i_since i_begin i_end
                  set_start set_finish set_aligned set_next set_eod bind init walk].
Ltac pcbn_in H := cbn [catch_up increment resolve_end stabilize find_period within_period scan_period
                  i_from i_to i_start i_finish i_aligned i_next i_dur i_eod i_since i_begin i_end
                  set_start set_finish set_aligned set_next set_eod bind init walk] in H.

(* resolve_end and operator++ on an explicit record *)
Definition re_eod (dur : duration) (st fi eo : option Z) : option Z :=
  let eo1 := match st, eo with Some s, None => Some (add_dur dur s) | _, _ => eo end in
  match fi, eo1 with Some f', Some e => if f' <? e then Some f' else eo1 | _, _ => eo1 end.
Definition re_next (dur : duration) (st fi nx eo : option Z) : option Z :=
  match st, nx with Some _, None => re_eod dur st fi eo | _, _ => nx end.

Lemma resolve_end_eq f t st fi al nx d eo si :
  resolve_end (mkIval f t st fi al nx d eo si) =
  mkIval f t st fi al (re_next d st fi nx eo) d (re_eod d st fi eo) si.
Proof.
  unfold resolve_end, re_next, re_eod.
  destruct st as [s|], eo as [e|], fi as [f'|], nx as [n|];
    cbn [i_start i_eod i_finish i_next set_eod set_next i_from i_to i_aligned i_dur i_since];
    try reflexivity;
    try (destruct (f' <? e); reflexivity);
    try (destruct (f' <? add_dur d s); reflexivity).
Qed.

Lemma increment_eq f t s fi al nx d eo si :
  increment (mkIval f t (Some s) fi al nx d eo si) =
  match re_next d (Some s) fi nx eo with
  | None => Err EOther
  | Some n =>
    let stop := match fi with Some f' => f' <=? n | None => false end in
    let st' := if stop then None else Some n in
    let eo' := if stop then re_eod d (Some s) fi eo else Some (add_dur d n) in
    Ok (mkIval f t st' fi al (re_next d st' fi None eo') d (re_eod d st' fi eo') si)
  end.
Proof.
  unfold increment. cbn [i_start]. cbv zeta. rewrite resolve_end_eq. cbn [i_next i_finish i_dur].
  destruct (re_next d (Some s) fi nx eo) as [n|]; [|reflexivity].
  destruct fi as [f'|].
  - destruct (f' <=? n); cbv zeta; unfold set_next, set_eod, set_start;
      cbn [i_from i_to i_start i_finish i_aligned i_next i_dur i_eod i_since];
      rewrite resolve_end_eq; reflexivity.
  - cbv zeta. unfold set_next, set_eod, set_start.
    cbn [i_from i_to i_start i_finish i_aligned i_next i_dur i_eod i_since].
    rewrite resolve_end_eq. reflexivity.
Qed.

Lemma re_eod_some d st fi e : re_eod d st fi (Some e) = Some (clip fi e).
Proof.
  unfold re_eod, clip. destruct st; destruct fi as [f'|]; try reflexivity; destruct (f' <? e); reflexivity.
Qed.

Lemma re_eod_fresh d s fi : re_eod d (Some s) fi None = Some (clip fi (add_dur d s)).
Proof. unfold re_eod, clip. destruct fi as [f'|]; [|reflexivity]. destruct (f' <? add_dur d s); reflexivity. Qed.

Lemma clip_idem to u : clip to (clip to u) = clip to u.
Proof.
  unfold clip. destruct to as [t|]; [|reflexivity].
  destruct (Z.ltb_spec t u); [rewrite Z.ltb_irrefl; reflexivity|].
  destruct (Z.ltb_spec t u); [lia|reflexivity].
Qed.

Lemma past_false_clip to u : past to u = false -> clip to u = u.
Proof.
  unfold past, clip. destruct to as [t|]; [|reflexivity]. intros H. apply Z.leb_gt in H.
  destruct (Z.ltb_spec t u); [lia|reflexivity].
Qed.

Lemma past_true_clip to u : past to u = true -> exists t, to = Some t /\ t <= u /\ clip to u = t.
Proof.
  unfold past, clip. destruct to as [t|]; [|discriminate]. intros H. apply Z.leb_le in H.
  exists t. split; [reflexivity|]. split; [exact H|]. destruct (Z.ltb_spec t u); lia.
Qed.

(* a stabilized interval object: current period [s, min(u, to)), u the next grid point *)
Definition stable (st : ival) (from to : option Z) (dur : duration) (since : bool) (s u : Z) : Prop :=
  exists nx, st = mkIval from to (Some s) to true (Some nx) dur (Some (clip to u)) since /\
             (nx = u \/ nx = clip to u).

Lemma stable_resolve_end st from to dur since s u :
  stable st from to dur since s u -> resolve_end st = st.
Proof.
  intros (nx & -> & _). rewrite resolve_end_eq. unfold re_next. rewrite re_eod_some, clip_idem. reflexivity.
Qed.

Lemma stable_increment st from to dur since s u :
  stable st from to dur since s u ->
  exists st', increment st = Ok st' /\
    if past to u then i_start st' = None
    else stable st' from to dur since u (add_dur dur u).
Proof.
  intros (nx & -> & Hnx). rewrite increment_eq. unfold re_next at 1. cbv zeta.
  destruct (past to u) eqn:Hp.
  - destruct (past_true_clip _ _ Hp) as (t & -> & Hle & Hc).
    assert (t <=? nx = true) as ->.
    { apply Z.leb_le. destruct Hnx as [->| ->]; lia. }
    eexists. split; [reflexivity|]. reflexivity.
  - pose proof (past_false_clip _ _ Hp) as Hc. rewrite Hc in *.
    assert (nx = u) as -> by (destruct Hnx; assumption).
    assert ((match to with Some f' => f' <=? u | None => false end) = false) as -> by exact Hp.
    eexists. split; [reflexivity|]. unfold stable, re_next. rewrite re_eod_some.
    exists (clip to (add_dur dur u)). split; [reflexivity|right; reflexivity].
Qed.

(* the intervals a stabilized object steps through are the specification sequence *)
Lemma stable_walk from to dur since : forall n st s u,
  stable st from to dur since s u ->
  walk (S n) st = (s, clip to u) :: spec_from dur to u n.
Proof.
  induction n as [|n IH]; intros st s u Hst.
  - destruct (stable_increment _ _ _ _ _ _ _ Hst) as (st' & Hi & _).
    destruct Hst as (nx & -> & _). cbn [walk i_start i_eod spec_from]. rewrite Hi. reflexivity.
  - destruct (stable_increment _ _ _ _ _ _ _ Hst) as (st' & Hi & Hnext).
    pose proof Hst as (nx & Est & _).
    change (walk (S (S n)) st) with
      (match i_start st, i_eod st with
       | Some s, Some e => (s, e) :: match increment st with Ok st' => walk (S n) st' | Err _ => [] end
       | _, _ => [] end).
    rewrite Hi. rewrite Est. cbn [i_start i_eod]. f_equal.
    cbn [spec_from]. destruct (past to u).
    + cbn [walk]. rewrite Hnext. reflexivity.
    + rewrite (IH st' u (add_dur dur u) Hnext). reflexivity.
Qed.

(* the catch-up loop ends on the grid point of the period that contains the date *)
Lemma catch_up_spec from to dur since date : dur_ok dur ->
  forall fuel s en, (en = None \/ en = Some (add_dur dur s)) -> s <= date ->
  (Z.to_nat (date - s) < fuel)%nat ->
  exists k a en',
    catch_up fuel (mkIval from to (Some s) None false en dur en since) date
    = Ok (mkIval from to (Some a) None false en' dur en' since) /\
    a = iter_dur dur k s /\ a <= date < add_dur dur a /\ (en' = None \/ en' = Some (add_dur dur a)).
Proof.
  intros Hd. induction fuel as [|fuel IH]; intros s en Hen Hs Hf; [lia|].
  pose proof (add_dur_lt dur s Hd) as Hlt.
  cbn [catch_up i_start]. destruct (Z.ltb_spec s date) as [Hsd|Hsd].
  - assert (Hinc : increment (mkIval from to (Some s) None false en dur en since)
                   = Ok (mkIval from to (Some (add_dur dur s)) None false (Some (add_dur dur (add_dur dur s))) dur
                               (Some (add_dur dur (add_dur dur s))) since)).
    { rewrite increment_eq. destruct Hen as [->| ->]; unfold re_next;
        rewrite ?re_eod_fresh, ?re_eod_some; cbn [clip]; cbv zeta; unfold re_next;
        rewrite ?re_eod_some; cbn [clip]; reflexivity. }
    rewrite Hinc. cbn [bind i_start].
    destruct (Z.leb_spec (add_dur dur s) date) as [Hle|Hgt].
    + destruct (IH (add_dur dur s) (Some (add_dur dur (add_dur dur s))) ltac:(right; reflexivity) Hle ltac:(lia))
        as (k & a & en' & Hc & Ha & Hb & He).
      exists (S k), a, en'. split; [exact Hc|]. split; [exact Ha|]. split; assumption.
    + exists 0%nat, s, None. split; [reflexivity|]. split; [reflexivity|]. split; [lia|left; reflexivity].
  - exists 0%nat, s, en. split; [reflexivity|]. split; [reflexivity|]. split; [lia|exact Hen].
Qed.

Definition first_start' (from : option Z) (a : Z) : Z := match from with Some f => Z.max a f | None => a end.

(* what stabilize does after the catch-up loop (times.cc:1270-1305) *)
Definition post_stab (initial_s initial_f : option Z) (st : ival) : ival :=
  let st := match initial_s, i_start st with
            | Some is0, Some s => if s <? is0 then set_start (resolve_end st) (Some is0) else st
            | Some is0, None => set_start (resolve_end st) (Some is0)
            | None, _ => st
            end in
  let st := match initial_f, i_finish st with
            | Some if0, Some f => if if0 <? f then set_finish st (Some if0) else st
            | Some if0, None => set_finish st (Some if0)
            | None, _ => st
            end in
  resolve_end (set_aligned st true).

Lemma stabilize_unfold fuel sow align dur from to since date :
  stabilize fuel sow (mkIval from to None None false None dur None since) (Some date) align =
  do st <- catch_up fuel (mkIval from to (Some (initial_start sow align (mkIval from to None None false None dur None since) date))
                                 None false None dur None since) date;
  Ok (post_stab from to st).
Proof.
  unfold stabilize. cbn [i_aligned i_begin i_end i_start i_from i_to i_finish].
  unfold set_start at 1. cbn [i_from i_to i_finish i_aligned i_next i_dur i_eod i_since].
  destruct (catch_up _ _ _); reflexivity.
Qed.

Lemma post_stab_stable from to dur since a date en :
  (forall f, from = Some f -> date = f) -> past to date = false ->
  a <= date < add_dur dur a -> (en = None \/ en = Some (add_dur dur a)) ->
  stable (post_stab from to (mkIval from to (Some a) None false en dur en since)) from to dur since
         (first_start' from a) (add_dur dur a).
Proof.
  intros Hfrom Hp Ha Hen. unfold post_stab, first_start'. cbn [i_start].
  assert (Hre : resolve_end (mkIval from to (Some a) None false en dur en since)
                = mkIval from to (Some a) None false (Some (add_dur dur a)) dur (Some (add_dur dur a)) since).
  { rewrite resolve_end_eq. unfold re_next. destruct Hen as [->| ->]; rewrite ?re_eod_fresh, ?re_eod_some; reflexivity. }
  destruct from as [f|].
  - pose proof (Hfrom f eq_refl) as ->.
    destruct (Z.ltb_spec a f) as [Haf|Haf].
    + replace (Z.max a f) with f by lia. rewrite Hre.
      unfold set_start. cbn [i_from i_to i_start i_finish i_aligned i_next i_dur i_eod i_since]. cbv zeta.
      destruct to as [t|]; unfold set_finish, set_aligned;
        cbn [i_from i_to i_start i_finish i_aligned i_next i_dur i_eod i_since];
        rewrite resolve_end_eq; unfold re_next; rewrite re_eod_some;
        exists (add_dur dur a); (split; [reflexivity|left; reflexivity]).
    + replace (Z.max a f) with a by lia. cbv zeta.
      destruct to as [t|]; unfold set_finish, set_aligned;
        cbn [i_from i_to i_start i_finish i_aligned i_next i_dur i_eod i_since];
        rewrite resolve_end_eq; unfold re_next;
        (destruct Hen as [->| ->]; rewrite ?re_eod_fresh, ?re_eod_some);
        eexists; (split; [reflexivity|auto]).
  - cbv zeta.
    destruct to as [t|]; unfold set_finish, set_aligned;
      cbn [i_from i_to i_start i_finish i_aligned i_next i_dur i_eod i_since];
      rewrite resolve_end_eq; unfold re_next;
      (destruct Hen as [->| ->]; rewrite ?re_eod_fresh, ?re_eod_some);
      eexists; (split; [reflexivity|auto]).
Qed.

Definition since_of (from : option Z) : bool := match from with Some _ => true | None => false end.

(* stabilize from the parsed expression: the anchor lies on the grid that starts at
   initial_start, it is the grid point of the period containing the date, and the object is
   left in a stable state whose current period is [max(anchor, from), min(anchor + dur, to)) *)
Lemma stabilize_init sow align dur from to date fuel :
  dur_ok dur ->
  (forall f, from = Some f -> date = f) ->
  past to date = false ->
  let s0 := initial_start sow align (init dur from to) date in
  s0 <= date -> (Z.to_nat (date - s0) < fuel)%nat ->
  exists st k a,
    stabilize fuel sow (init dur from to) (Some date) align = Ok st /\
    a = iter_dur dur k s0 /\ a <= date < add_dur dur a /\
    stable st from to dur (since_of from) (first_start' from a) (add_dur dur a).
Proof.
  intros Hd Hfrom Hp s0 Hs0 Hfuel.
  destruct (catch_up_spec from to dur (since_of from) date Hd fuel s0 None
              ltac:(left; reflexivity) Hs0 Hfuel) as (k & a & en' & Hc & Ha & Hb & He).
  unfold init. fold (since_of from). rewrite stabilize_unfold.
  change (initial_start sow align _ date) with s0. rewrite Hc. cbn [bind].
  eexists. exists k, a. split; [reflexivity|]. split; [exact Ha|]. split; [exact Hb|].
  apply (post_stab_stable from to dur (since_of from) a date en'); assumption.
Qed.

(* model_walk_is_spec: the intervals the state machine steps through after stabilization *)
Lemma walk_is_spec sow align dur from to date fuel n :
  dur_ok dur ->
  (forall f, from = Some f -> date = f) ->
  past to date = false ->
  let s0 := initial_start sow align (init dur from to) date in
  s0 <= date -> (Z.to_nat (date - s0) < fuel)%nat ->
  exists st k a,
    stabilize fuel sow (init dur from to) (Some date) align = Ok st /\
    a = iter_dur dur k s0 /\ a <= date < add_dur dur a /\
    walk (S n) st = spec_intervals dur from to a (S n).
Proof.
  intros Hd Hfrom Hp s0 Hs0 Hfuel.
  destruct (stabilize_init sow align dur from to date fuel Hd Hfrom Hp Hs0 Hfuel)
    as (st & k & a & Hst & Ha & Hb & Hstable).
  exists st, k, a. split; [exact Hst|]. split; [exact Ha|]. split; [exact Hb|].
  rewrite (stable_walk _ _ _ _ n st _ _ Hstable).
  unfold spec_intervals, first_start'.
  assert (Hpa : past to a = false).
  { unfold past in *. destruct to as [t|]; [|reflexivity]. apply Z.leb_gt in Hp. apply Z.leb_gt. lia. }
  destruct from as [f|].
  - pose proof (Hfrom f eq_refl) as ->. destruct (Z.ltb_spec a f).
    + replace (Z.max a f) with f by lia. reflexivity.
    + replace (Z.max a f) with a by lia. cbn [spec_from]. rewrite Hpa. reflexivity.
  - cbn [spec_from]. rewrite Hpa. reflexivity.
Qed.

(* ---- the initial start: not after the date, and on the alignment grid -------------------- *)

Definition on_grid (sow : Z) (q : quantum) (z : Z) : Prop :=
  match q with
  | QDays => True
  | QWeeks => weekday z = sow
  | QMonths => exists k, z = month_start k
  | QQuarters => exists k, z = month_start k /\ k mod 3 = 0
  | QYears => exists k, z = month_start k /\ k mod 12 = 0
  end.

Lemma find_nearest_le sow q z : 0 <= sow < 7 -> find_nearest sow z q <= z.
Proof.
  intros Hs. destruct q; cbn [find_nearest].
  - lia.
  - pose proof (week_floor_spec sow z Hs). lia.
  - destruct (month_floor_spec z) as (k & -> & H). lia.
  - destruct (quarter_floor_spec z) as (k & -> & _ & H). lia.
  - destruct (year_floor_spec z) as (k & -> & _ & H). lia.
Qed.

Lemma find_nearest_on_grid sow q z : 0 <= sow < 7 -> on_grid sow q (find_nearest sow z q).
Proof.
  intros Hs. destruct q; cbn [find_nearest on_grid].
  - exact I.
  - apply week_floor_spec; exact Hs.
  - destruct (month_floor_spec z) as (k & -> & _). exists k; reflexivity.
  - destruct (quarter_floor_spec z) as (k & -> & Hk & _). exists k; auto.
  - destruct (year_floor_spec z) as (k & -> & Hk & _). exists k; auto.
Qed.

Lemma initial_start_le sow align dur from to date :
  dur_ok dur -> 0 <= sow < 7 -> initial_start sow align (init dur from to) date <= date.
Proof.
  intros Hd Hs. unfold initial_start, init. cbn [i_dur i_since].
  destruct (d_q dur) eqn:Eq; try lia.
  - destruct (align && _); [lia|].
    pose proof (find_nearest_le sow QWeeks (date - (d_n dur * 7 + 400 mod (d_n dur * 7))) Hs).
    pose proof (Z.mod_pos_bound 400 (d_n dur * 7) ltac:(unfold dur_ok in Hd; lia)). lia.
  - destruct (align && _); [lia|]. apply find_nearest_le; exact Hs.
  - destruct (align && _); [lia|]. apply find_nearest_le; exact Hs.
  - destruct (align && _); [lia|]. apply find_nearest_le; exact Hs.
Qed.

Lemma initial_start_on_grid sow align dur from to date :
  0 <= sow < 7 -> align && since_of from = false ->
  on_grid sow (d_q dur) (initial_start sow align (init dur from to) date).
Proof.
  intros Hs Ha. unfold initial_start, init. cbn [i_dur i_since]. fold (since_of from). rewrite Ha.
  destruct (d_q dur) eqn:Eq; try exact I; try (rewrite <- Eq at 1; apply find_nearest_on_grid; exact Hs).
  all: apply (find_nearest_on_grid sow _ _ Hs).
Qed.

Lemma initial_start_anchored sow dur f to date :
  initial_start sow true (init dur (Some f) to) date = date.
Proof.
  unfold initial_start, init. cbn [i_dur i_since andb]. destruct (d_q dur); reflexivity.
Qed.

Lemma add_dur_on_grid sow dur z : on_grid sow (d_q dur) z -> on_grid sow (d_q dur) (add_dur dur z).
Proof.
  unfold add_dur, add_days, add_years. destruct (d_q dur); cbn [on_grid].
  - auto.
  - intros <-. apply weekday_add7.
  - intros (k & ->). rewrite add_months_month_start. eexists; reflexivity.
  - intros (k & -> & Hk). rewrite add_months_month_start. eexists; split; [reflexivity|].
    revert Hk. generalize (d_n dur). intros n Hk. Z.div_mod_to_equations. lia.
  - intros (k & -> & Hk). rewrite add_months_month_start. eexists; split; [reflexivity|].
    revert Hk. generalize (d_n dur). intros n Hk. Z.div_mod_to_equations. lia.
Qed.

Lemma iter_dur_on_grid sow dur k : forall z, on_grid sow (d_q dur) z -> on_grid sow (d_q dur) (iter_dur dur k z).
Proof.
  induction k as [|k IH]; intros z Hz; cbn [iter_dur]; [exact Hz|]. apply IH, add_dur_on_grid, Hz.
Qed.

(* the calendar meaning of the grid *)
Definition aligned_date (sow : Z) (q : quantum) (z : Z) : Prop :=
  match q with
  | QDays => True
  | QWeeks => weekday z = sow
  | QMonths => exists y m, civil_from_days z = (y, m, 1)
  | QQuarters => exists y m, civil_from_days z = (y, m, 1) /\ (m = 1 \/ m = 4 \/ m = 7 \/ m = 10)
  | QYears => exists y, civil_from_days z = (y, 1, 1)
  end.

Lemma on_grid_aligned sow q z : on_grid sow q z -> aligned_date sow q z.
Proof.
  destruct q; cbn [on_grid aligned_date]; auto.
  - intros (k & ->). rewrite cfd_month_start. eauto.
  - intros (k & -> & Hk). rewrite cfd_month_start. do 2 eexists. split; [reflexivity|].
    Z.div_mod_to_equations. lia.
  - intros (k & -> & Hk). rewrite cfd_month_start. exists (k / 12).
    assert (k mod 12 + 1 = 1) as -> by (Z.div_mod_to_equations; lia). reflexivity.
Qed.

(* ================================================================================= *)
(* interval_posts::flush                                                             *)
(* ================================================================================= *)

Lemma stabilize_stable fuel sow align st from to dur since s u d :
  stable st from to dur since s u -> stabilize fuel sow st (Some d) align = Ok st.
Proof.
  intros (nx & -> & _). unfold stabilize. cbn [i_aligned bind].
  rewrite resolve_end_eq. unfold re_next. rewrite re_eod_some, clip_idem. reflexivity.
Qed.

Lemma find_period_stable fuel sow align shift st from to dur since s u d :
  stable st from to dur since s u -> past to d = false ->
  find_period (S fuel) sow st d align shift =
  if d <? s then Ok (false, st)
  else if d <? clip to u then Ok (true, st)
  else if shift then scan_period (S fuel) st d shift s (clip to u) else Ok (false, st).
Proof.
  intros Hst Hp. unfold find_period. rewrite (stabilize_stable _ _ _ _ _ _ _ _ _ _ _ Hst). cbn [bind].
  destruct Hst as (nx & -> & _). cbn [i_finish i_start i_eod].
  assert ((match to with Some f => f <? d | None => false end) = false) as ->.
  { unfold past in Hp. destruct to as [t|]; [|reflexivity]. apply Z.leb_gt in Hp. apply Z.ltb_ge. lia. }
  destruct (d <? s); [reflexivity|]. destruct (d <? clip to u) eqn:E; [reflexivity|].
  destruct shift; [reflexivity|].
  cbn [scan_period i_finish]. rewrite E. cbn [negb].
  destruct (_ && _); reflexivity.
Qed.

Definition row_ok (r : row) : Prop :=
  exists s e, r_start r = Some s /\ r_eod r = Some e /\ forall p, In p (r_posts r) -> s <= p_date p < e.

Definition row_reach (dur : duration) (to : option Z) (s u : Z) (r : row) : Prop :=
  exists x y, r_start r = Some x /\ r_eod r = Some y /\
              ((x = s /\ y = clip to u) \/ exists n, In (x, y) (spec_from dur to u n)).

Definition date_sorted (posts : list post) : Prop :=
  StronglySorted (fun p q => p_date p <= p_date q) posts.

Lemma row_reach_step dur to s u r :
  past to u = false -> row_reach dur to u (add_dur dur u) r -> row_reach dur to s u r.
Proof.
  intros Hp (x & y & Hx & Hy & H). exists x, y. split; [exact Hx|]. split; [exact Hy|]. right.
  destruct H as [[-> ->]|(n & Hin)].
  - exists 1%nat. cbn [spec_from]. rewrite Hp. left. reflexivity.
  - exists (S n). cbn [spec_from]. rewrite Hp. right. exact Hin.
Qed.

Lemma flush_loop_spec from to dur since sow empty : forall fuel st s u posts cur saw rows,
  stable st from to dur since s u ->
  (forall p, In p cur -> s <= p_date p < clip to u) ->
  (saw = false -> cur = []) ->
  date_sorted posts ->
  Forall (fun p => s <= p_date p /\ past to (p_date p) = false) posts ->
  flush_loop fuel sow empty st posts cur saw = Ok rows ->
  concat (map r_posts rows) = cur ++ posts /\ Forall row_ok rows /\ Forall (row_reach dur to s u) rows.
Proof.
  induction fuel as [|fuel IH]; intros st s u posts cur saw rows Hst Hcur Hsaw Hsort Hall Hrun; [discriminate|].
  assert (Hrow : forall l, (forall p, In p l -> s <= p_date p < clip to u) ->
                 row_ok (mkRow (i_start st) (i_eod st) l) /\ row_reach dur to s u (mkRow (i_start st) (i_eod st) l)).
  { intros l Hl. destruct Hst as (nx & -> & _). cbn [i_start i_eod]. split.
    - exists s, (clip to u). auto.
    - exists s, (clip to u). auto. }
  cbn [flush_loop] in Hrun. destruct posts as [|p rest].
  - rewrite app_nil_r. destruct saw.
    + injection Hrun as <-. cbn [map concat]. rewrite app_nil_r. destruct (Hrow cur Hcur). repeat split; auto.
    + injection Hrun as <-. rewrite (Hsaw eq_refl). repeat split; constructor.
  - pose proof (Forall_inv Hall) as [Hps Hpp]. pose proof (Forall_inv_tail Hall) as Hall'.
    unfold within_period in Hrun. rewrite (find_period_stable _ _ _ _ _ _ _ _ _ _ _ _ Hst Hpp) in Hrun.
    destruct (Z.ltb_spec (p_date p) s) as [|_]; [lia|].
    destruct (Z.ltb_spec (p_date p) (clip to u)) as [Hin|Hout]; cbn [bind] in Hrun.
    + apply (IH st s u rest (cur ++ [p]) true rows Hst) in Hrun.
      * rewrite <- app_assoc in Hrun. exact Hrun.
      * intros q Hq. apply in_app_or in Hq as [Hq|[<-|[]]]; [auto|lia].
      * discriminate.
      * inversion Hsort; assumption.
      * exact Hall'.
    + assert (Hpu : past to u = false).
      { destruct (past to u) eqn:E; [|reflexivity]. destruct (past_true_clip _ _ E) as (t & -> & Hle & Hc).
        unfold past in Hpp. apply Z.leb_gt in Hpp. lia. }
      rewrite (past_false_clip _ _ Hpu) in Hout.
      destruct (stable_increment _ _ _ _ _ _ _ Hst) as (st' & Hinc & Hnext). rewrite Hpu in Hnext.
      rewrite Hinc in Hrun. cbn [bind] in Hrun.
      destruct (flush_loop fuel sow empty st' (p :: rest) [] false) as [rows'|] eqn:Erec; [|discriminate].
      cbn [bind] in Hrun. injection Hrun as <-.
      apply (IH st' u (add_dur dur u) (p :: rest) [] false rows' Hnext) in Erec.
      * destruct Erec as (Hc & Hok & Hreach). rewrite map_app, concat_app, Hc.
        assert (Hreach' : Forall (row_reach dur to s u) rows').
        { eapply Forall_impl; [|exact Hreach]. intros r. apply row_reach_step. exact Hpu. }
        destruct saw.
        -- destruct (Hrow cur Hcur). cbn [map concat]. rewrite app_nil_r. split; [reflexivity|].
           split; apply Forall_app; split; auto.
        -- rewrite (Hsaw eq_refl). destruct (Hrow [] ltac:(intros ? [])).
           destruct empty; cbn [map concat app]; (split; [reflexivity|]);
             split; try apply Forall_cons; auto.
      * intros ? [].
      * reflexivity.
      * exact Hsort.
      * constructor; [split; [lia|exact Hpp]|].
        inversion Hsort as [|? ? _ Hle]; subst.
        rewrite Forall_forall in *. intros q Hq. split; [specialize (Hle q Hq); lia|apply Hall', Hq].
Qed.

(* group values *)
Lemma qsum_app a b : (qsum (a ++ b) == qsum a + qsum b)%Q.
Proof.
  induction a as [|p a IH].
  - cbn [app]. change (qsum []) with 0%Q. rewrite Qplus_0_l. reflexivity.
  - change (qsum ((p :: a) ++ b)) with (Qred (p_amt p + qsum (a ++ b))).
    change (qsum (p :: a)) with (Qred (p_amt p + qsum a)).
    rewrite !Qred_correct, IH. apply Qplus_assoc.
Qed.

Definition rows_total (rows : list row) : Q :=
  fold_right (fun r acc => (qsum (r_posts r) + acc)%Q) 0%Q rows.

Lemma rows_total_concat rows : (rows_total rows == qsum (concat (map r_posts rows)))%Q.
Proof.
  induction rows as [|r rows IH]; cbn [rows_total map concat fold_right]; [reflexivity|].
  fold (rows_total rows). rewrite qsum_app, IH. reflexivity.
Qed.

Lemma spec_intervals_unfold dur from to a date n :
  (forall f, from = Some f -> date = f) -> past to date = false -> a <= date ->
  spec_intervals dur from to a (S n) =
  (first_start' from a, clip to (add_dur dur a)) :: spec_from dur to (add_dur dur a) n.
Proof.
  intros Hfrom Hp Ha. unfold spec_intervals, first_start'.
  assert (Hpa : past to a = false).
  { unfold past in *. destruct to as [t|]; [|reflexivity]. apply Z.leb_gt in Hp. apply Z.leb_gt. lia. }
  destruct from as [f|].
  - pose proof (Hfrom f eq_refl) as ->. destruct (Z.ltb_spec a f).
    + replace (Z.max a f) with f by lia. reflexivity.
    + replace (Z.max a f) with a by lia. cbn [spec_from]. rewrite Hpa. reflexivity.
  - cbn [spec_from]. rewrite Hpa. reflexivity.
Qed.

(* the date the first find_period of flush is called with *)
Definition first_date (from : option Z) (posts : list post) : option Z :=
  match from with
  | Some f => Some f
  | None => match posts with p :: _ => Some (p_date p) | [] => None end
  end.

Definition row_in_spec (dur : duration) (from to : option Z) (a : Z) (r : row) : Prop :=
  exists x y n, r_start r = Some x /\ r_eod r = Some y /\ In (x, y) (spec_intervals dur from to a n).

Lemma flush_posts_spec sow align empty dur from to posts fuel rows date :
  dur_ok dur -> 0 <= sow < 7 ->
  (forall f t, from = Some f -> to = Some t -> f < t) ->
  date_sorted posts ->
  Forall (fun p => (forall f, from = Some f -> f <= p_date p) /\ past to (p_date p) = false) posts ->
  first_date from posts = Some date ->
  (Z.to_nat (date - initial_start sow align (init dur from to) date) < fuel)%nat ->
  flush_posts fuel sow align empty (init dur from to) posts = Ok rows ->
  concat (map r_posts rows) = posts /\ Forall row_ok rows /\
  exists k a, a = iter_dur dur k (initial_start sow align (init dur from to) date) /\
              a <= date < add_dur dur a /\ Forall (row_in_spec dur from to a) rows.
Proof.
  intros Hd Hs Hft Hsort Hall Hdate Hfuel Hrun.
  assert (Hfrom : forall f, from = Some f -> date = f).
  { intros f ->. cbn in Hdate. congruence. }
  assert (Hp : past to date = false).
  { destruct from as [f|].
    - cbn in Hdate. injection Hdate as <-. unfold past. destruct to as [t|] eqn:Et; [|reflexivity].
      apply Z.leb_gt. eapply Hft; reflexivity.
    - cbn in Hdate. destruct posts as [|p rest]; [discriminate|]. injection Hdate as <-.
      apply (Forall_inv Hall). }
  pose proof (initial_start_le sow align dur from to date Hd Hs) as Hs0.
  destruct (stabilize_init sow align dur from to date fuel Hd Hfrom Hp Hs0 Hfuel)
    as (st & k & a & Hst & Ha & Hb & Hstable).
  assert (Hfuel1 : exists f', fuel = S f') by (destruct fuel; [lia|eauto]).
  destruct Hfuel1 as (f' & ->).
  assert (Hfp : find_period (S f') sow (init dur from to) date align true = Ok (true, st)).
  { unfold find_period. rewrite Hst. cbn [bind]. destruct Hstable as (nx & -> & _). cbn [i_finish i_start i_eod].
    assert ((match to with Some f => f <? date | None => false end) = false) as ->.
    { unfold past in Hp. destruct to as [t|]; [|reflexivity]. apply Z.leb_gt in Hp. apply Z.ltb_ge. lia. }
    assert (first_start' from a <= date).
    { unfold first_start'. destruct from as [f|]; [pose proof (Hfrom f eq_refl)|]; lia. }
    destruct (Z.ltb_spec date (first_start' from a)); [lia|].
    pose proof (clip_gt to (add_dur dur a) date ltac:(lia) Hp).
    destruct (Z.ltb_spec date (clip to (add_dur dur a))); [reflexivity|lia]. }
  assert (Hloop : flush_loop (S f') sow empty st posts [] false = Ok rows).
  { unfold flush_posts in Hrun. unfold init in Hrun at 1. cbn [i_begin i_start i_from] in Hrun.
    fold (init dur from to) in Hrun.
    destruct from as [f|].
    - cbn in Hdate. injection Hdate as Hdate. subst date. rewrite Hfp in Hrun. exact Hrun.
    - cbn in Hdate. destruct posts as [|p rest]; [discriminate|]. injection Hdate as Hdate. subst date.
      rewrite Hfp in Hrun. exact Hrun. }
  apply (flush_loop_spec from to dur (since_of from) sow empty (S f') st _ _ posts [] false rows Hstable) in Hloop.
  - destruct Hloop as (Hc & Hok & Hreach). split; [exact Hc|]. split; [exact Hok|].
    exists k, a. split; [exact Ha|]. split; [exact Hb|].
    eapply Forall_impl; [|exact Hreach]. intros r (x & y & Hx & Hy & H).
    destruct H as [[-> ->]|(n & Hin)].
    + exists (first_start' from a), (clip to (add_dur dur a)), 1%nat. split; [exact Hx|]. split; [exact Hy|].
      rewrite (spec_intervals_unfold dur from to a date 0 Hfrom Hp ltac:(lia)). left. reflexivity.
    + exists x, y, (S n). split; [exact Hx|]. split; [exact Hy|].
      rewrite (spec_intervals_unfold dur from to a date n Hfrom Hp ltac:(lia)). right. exact Hin.
  - intros ? [].
  - reflexivity.
  - exact Hsort.
  - rewrite Forall_forall in *. intros p Hin. destruct (Hall p Hin) as [Hf Hpp]. split; [|exact Hpp].
    unfold first_start'. destruct from as [f|].
    + specialize (Hf f eq_refl). rewrite (Hfrom f eq_refl) in *. lia.
    + cbn in Hdate. destruct posts as [|p0 rest]; [discriminate|]. injection Hdate as <-.
      destruct Hin as [<-|Hin]; [lia|]. inversion Hsort as [|? ? _ Hle]; subst.
      rewrite Forall_forall in Hle. specialize (Hle p Hin). lia.
Qed.

(* ================================================================================= *)
(* Statements in the form used by Properties_C13.v                                   *)
(* ================================================================================= *)

(* the anchor the state machine computes: a point of the grid that starts at initial_start,
   namely the one whose period contains the date *)
Definition is_anchor (sow : Z) (align : bool) (dur : duration) (from to : option Z) (date a : Z) : Prop :=
  (exists k, a = iter_dur dur k (initial_start sow align (init dur from to) date)) /\
  a <= date < add_dur dur a.

Lemma anchor_hyp sow align dur from to date a :
  is_anchor sow align dur from to date a -> (forall f, from = Some f -> date = f) ->
  forall f, from = Some f -> a <= f < add_dur dur a.
Proof. intros [_ H] Hf f E. rewrite <- (Hf f E). exact H. Qed.

Lemma spec_alignment sow align dur from to date a n i s e :
  dur_ok dur -> 0 <= sow < 7 ->
  is_anchor sow align dur from to date a -> (forall f, from = Some f -> date = f) ->
  (forall f t, from = Some f -> to = Some t -> f < t) ->
  align && since_of from = false ->
  nth_error (spec_intervals dur from to a n) i = Some (s, e) ->
  aligned_date sow (d_q dur) s \/ (i = 0%nat /\ from = Some s /\ a < s).
Proof.
  intros Hd Hs Han Hf Hft Hal Hn.
  pose proof (anchor_hyp _ _ _ _ _ _ _ Han Hf) as Hanchor.
  destruct (spec_length dur from to a Hanchor Hft n i s e Hn) as (_ & [(k' & ->)|H] & _); [left|right; exact H].
  destruct Han as [(k & ->) _]. apply on_grid_aligned.
  apply iter_dur_on_grid, iter_dur_on_grid, initial_start_on_grid; assumption.
Qed.

(* with --align-intervals and a `from`, the sequence starts at `from` itself *)
Lemma anchored_at_from sow dur f to a n :
  dur_ok dur -> is_anchor sow true dur (Some f) to f a -> past to f = false ->
  a = f /\ exists e, nth_error (spec_intervals dur (Some f) to a (S n)) 0 = Some (f, e).
Proof.
  intros Hd [(k & Ha) Hb] Hp. rewrite initial_start_anchored in Ha.
  pose proof (iter_dur_ge dur k f Hd) as Hge.
  assert (k = 0%nat) as -> by lia. cbn [iter_dur] in Ha. subst a. split; [reflexivity|].
  unfold spec_intervals. rewrite Z.ltb_irrefl. cbn [spec_from]. rewrite Hp. eexists; reflexivity.
Qed.

(* the refinement, with the side conditions on the initial start discharged *)
Lemma walk_is_spec' sow align dur from to date fuel n :
  dur_ok dur -> 0 <= sow < 7 ->
  (forall f, from = Some f -> date = f) -> past to date = false ->
  (Z.to_nat (date - initial_start sow align (init dur from to) date) < fuel)%nat ->
  exists st a, stabilize fuel sow (init dur from to) (Some date) align = Ok st /\
               is_anchor sow align dur from to date a /\
               walk (S n) st = spec_intervals dur from to a (S n).
Proof.
  intros Hd Hs Hf Hp Hfuel.
  destruct (walk_is_spec sow align dur from to date fuel n Hd Hf Hp
              (initial_start_le sow align dur from to date Hd Hs) Hfuel) as (st & k & a & H1 & H2 & H3 & H4).
  exists st, a. split; [exact H1|]. split; [|exact H4]. split; [exists k; exact H2|exact H3].
Qed.

(* the fuel the drivers pass (40000) is enough for any date within a century of the anchor *)
Lemma initial_start_near sow align dur from to date :
  dur_ok dur -> 0 <= sow < 7 -> d_n dur <= 12 ->
  date - initial_start sow align (init dur from to) date < 600.
Proof.
  intros Hd Hs Hn. unfold dur_ok in Hd. unfold initial_start, init. cbn [i_dur i_since].
  destruct (d_q dur); try lia; destruct (align && _); try lia; cbn [find_nearest].
  - pose proof (week_floor_spec sow (date - (d_n dur * 7 + 400 mod (d_n dur * 7))) Hs).
    pose proof (Z.mod_pos_bound 400 (d_n dur * 7) ltac:(lia)). lia.
  - destruct (month_floor_spec date) as (k & -> & H). rewrite month_start_succ in H.
    pose proof (month_length_bounds k). lia.
  - destruct (quarter_floor_spec date) as (k & -> & _ & H).
    replace (k + 3) with (k + 1 + 1 + 1) in H by lia. rewrite !month_start_succ in H.
    pose proof (month_length_bounds k). pose proof (month_length_bounds (k + 1)).
    pose proof (month_length_bounds (k + 1 + 1)). lia.
  - destruct (year_floor_spec date) as (k & -> & _ & H).
    replace (k + 12) with (k + 1 + 1 + 1 + 1 + 1 + 1 + 1 + 1 + 1 + 1 + 1 + 1) in H by lia.
    rewrite !month_start_succ in H.
    repeat match goal with H : context [month_length ?x] |- _ =>
      lazymatch goal with | _ : 28 <= month_length x <= 31 |- _ => fail | _ => pose proof (month_length_bounds x) end end.
    lia.
Qed.

Lemma flush_sum sow align empty dur from to posts fuel rows date :
  dur_ok dur -> 0 <= sow < 7 ->
  (forall f t, from = Some f -> to = Some t -> f < t) ->
  date_sorted posts ->
  Forall (fun p => (forall f, from = Some f -> f <= p_date p) /\ past to (p_date p) = false) posts ->
  first_date from posts = Some date ->
  (Z.to_nat (date - initial_start sow align (init dur from to) date) < fuel)%nat ->
  flush_posts fuel sow align empty (init dur from to) posts = Ok rows ->
  (rows_total rows == qsum posts)%Q.
Proof.
  intros Hd Hs Hft Hsort Hall Hdate Hfuel Hrun.
  destruct (flush_posts_spec sow align empty dur from to posts fuel rows date Hd Hs Hft Hsort Hall Hdate Hfuel Hrun)
    as (Hc & _). rewrite rows_total_concat, Hc. reflexivity.
Qed.

(* the partition lemmas with all hypotheses explicit *)
Definition anchor_ok (dur : duration) (from : option Z) (a : Z) : Prop :=
  forall f, from = Some f -> a <= f < add_dur dur a.
Definition bounds_ok (from to : option Z) : Prop :=
  forall f t, from = Some f -> to = Some t -> f < t.

Lemma spec_consecutive_full dur from to a : dur_ok dur -> anchor_ok dur from a -> bounds_ok from to ->
  forall n i s e s' e',
    nth_error (spec_intervals dur from to a n) i = Some (s, e) ->
    nth_error (spec_intervals dur from to a n) (S i) = Some (s', e') -> e = s'.
Proof. intros; eapply spec_consecutive; eauto. Qed.

Lemma spec_disjoint_full dur from to a : dur_ok dur -> anchor_ok dur from a -> bounds_ok from to ->
  forall n i j s e s' e',
    (i < j)%nat ->
    nth_error (spec_intervals dur from to a n) i = Some (s, e) ->
    nth_error (spec_intervals dur from to a n) j = Some (s', e') -> s < e /\ e <= s' /\ s' < e'.
Proof. intros; eapply spec_disjoint; eauto. Qed.

Lemma spec_length_full dur from to a : dur_ok dur -> anchor_ok dur from a -> bounds_ok from to ->
  forall n i s e,
    nth_error (spec_intervals dur from to a n) i = Some (s, e) ->
    (e = add_dur dur s \/ (to = Some e /\ e < add_dur dur s) \/
     (i = 0%nat /\ from = Some s /\ a < s /\ e = clip to (add_dur dur a))) /\
    ((exists k, s = iter_dur dur k a) \/ (i = 0%nat /\ from = Some s /\ a < s)) /\
    (i = 0%nat -> s = first_start from a).
Proof. intros; eapply spec_length; eauto. Qed.

Lemma spec_exactly_one_full dur from to a : dur_ok dur -> anchor_ok dur from a -> bounds_ok from to ->
  forall d, first_start from a <= d -> past to d = false ->
    (exists i s e, nth_error (spec_intervals dur from to a (S (S (Z.to_nat (d - a))))) i = Some (s, e) /\ s <= d < e) /\
    (forall n i j s e s' e',
       nth_error (spec_intervals dur from to a n) i = Some (s, e) -> s <= d < e ->
       nth_error (spec_intervals dur from to a n) j = Some (s', e') -> s' <= d < e' -> i = j).
Proof.
  intros Hd Ha Hb d H1 H2. split.
  - eapply spec_covers; eauto.
  - intros. eapply spec_unique; eauto.
Qed.

(* the walk of flush terminates: every step either takes a posting or moves the window forward *)
Lemma flush_loop_total from to dur since sow empty hi : dur_ok dur -> forall fuel st s u posts cur saw,
  stable st from to dur since s u -> s < u ->
  date_sorted posts ->
  Forall (fun p => s <= p_date p <= hi /\ past to (p_date p) = false) posts ->
  (length posts + Z.to_nat (hi - s) < fuel)%nat ->
  exists rows, flush_loop fuel sow empty st posts cur saw = Ok rows.
Proof.
  intros Hd. induction fuel as [|fuel IH]; intros st s u posts cur saw Hst Hsu Hsort Hall Hfuel; [lia|].
  cbn [flush_loop]. destruct posts as [|p rest]; [eexists; reflexivity|].
  pose proof (Forall_inv Hall) as [Hps Hpp]. pose proof (Forall_inv_tail Hall) as Hall'.
  unfold within_period. rewrite (find_period_stable _ _ _ _ _ _ _ _ _ _ _ _ Hst Hpp).
  destruct (Z.ltb_spec (p_date p) s) as [|_]; [lia|].
  destruct (Z.ltb_spec (p_date p) (clip to u)) as [Hin|Hout]; cbn [bind].
  - apply (IH st s u rest); [exact Hst|exact Hsu|inversion Hsort; assumption|exact Hall'|cbn [length] in Hfuel; lia].
  - assert (Hpu : past to u = false).
    { destruct (past to u) eqn:E; [|reflexivity]. destruct (past_true_clip _ _ E) as (t & -> & Hle & Hc).
      unfold past in Hpp. apply Z.leb_gt in Hpp. lia. }
    rewrite (past_false_clip _ _ Hpu) in Hout.
    destruct (stable_increment _ _ _ _ _ _ _ Hst) as (st' & Hinc & Hnext). rewrite Hpu in Hnext.
    rewrite Hinc. cbn [bind].
    destruct (IH st' u (add_dur dur u) (p :: rest) [] false Hnext (add_dur_lt dur u Hd) Hsort) as (rows' & ->).
    + constructor; [split; [lia|exact Hpp]|].
      inversion Hsort as [|? ? _ Hle]; subst.
      rewrite Forall_forall in *. intros q Hq. specialize (Hle q Hq). destruct (Hall' q Hq) as [? ?].
      split; [lia|assumption].
    + cbn [length] in *. lia.
    + cbn [bind]. eexists; reflexivity.
Qed.

Lemma iter_dur_ge0 dur k z : dur_ok dur -> z <= iter_dur dur k z.
Proof. intros Hd. pose proof (iter_dur_ge dur k z Hd). lia. Qed.

(* flush returns (no exception, no exhaustion) once the fuel covers the postings and the days
   between the initial start and the last posting *)
Lemma flush_posts_total sow align empty dur from to posts fuel date hi :
  dur_ok dur -> 0 <= sow < 7 ->
  (forall f t, from = Some f -> to = Some t -> f < t) ->
  date_sorted posts ->
  Forall (fun p => (forall f, from = Some f -> f <= p_date p) /\ past to (p_date p) = false /\ p_date p <= hi) posts ->
  first_date from posts = Some date ->
  (Z.to_nat (date - initial_start sow align (init dur from to) date) < fuel)%nat ->
  (length posts + Z.to_nat (hi - initial_start sow align (init dur from to) date) < fuel)%nat ->
  exists rows, flush_posts fuel sow align empty (init dur from to) posts = Ok rows.
Proof.
  intros Hd Hs Hft Hsort Hall Hdate Hfuel Hfuel2.
  assert (Hfrom : forall f, from = Some f -> date = f).
  { intros f ->. cbn in Hdate. congruence. }
  assert (Hp : past to date = false).
  { destruct from as [f|].
    - cbn in Hdate. injection Hdate as <-. unfold past. destruct to as [t|] eqn:Et; [|reflexivity].
      apply Z.leb_gt. eapply Hft; reflexivity.
    - cbn in Hdate. destruct posts as [|p rest]; [discriminate|]. injection Hdate as <-.
      apply (Forall_inv Hall). }
  pose proof (initial_start_le sow align dur from to date Hd Hs) as Hs0.
  destruct (stabilize_init sow align dur from to date fuel Hd Hfrom Hp Hs0 Hfuel)
    as (st & k & a & Hst & Ha & Hb & Hstable).
  assert (Hfuel1 : exists f', fuel = S f') by (destruct fuel; [lia|eauto]).
  destruct Hfuel1 as (f' & ->).
  assert (Hfs : first_start' from a <= date).
  { unfold first_start'. destruct from as [f|]; [pose proof (Hfrom f eq_refl)|]; lia. }
  assert (Hfp : find_period (S f') sow (init dur from to) date align true = Ok (true, st)).
  { unfold find_period. rewrite Hst. cbn [bind]. destruct Hstable as (nx & -> & _). cbn [i_finish i_start i_eod].
    assert ((match to with Some f => f <? date | None => false end) = false) as ->.
    { unfold past in Hp. destruct to as [t|]; [|reflexivity]. apply Z.leb_gt in Hp. apply Z.ltb_ge. lia. }
    destruct (Z.ltb_spec date (first_start' from a)); [lia|].
    pose proof (clip_gt to (add_dur dur a) date ltac:(lia) Hp).
    destruct (Z.ltb_spec date (clip to (add_dur dur a))); [reflexivity|lia]. }
  assert (Hrun : flush_posts (S f') sow align empty (init dur from to) posts
                 = flush_loop (S f') sow empty st posts [] false).
  { unfold flush_posts. unfold init at 1. cbn [i_begin i_start i_from]. fold (init dur from to).
    destruct from as [f|].
    - cbn in Hdate. injection Hdate as Hdate. subst date. rewrite Hfp. reflexivity.
    - cbn in Hdate. destruct posts as [|p rest]; [discriminate|]. injection Hdate as Hdate. subst date.
      rewrite Hfp. reflexivity. }
  rewrite Hrun.
  pose proof (iter_dur_ge0 dur k (initial_start sow align (init dur from to) date) Hd) as Hge. rewrite <- Ha in Hge.
  assert (Hfa : a <= first_start' from a) by (unfold first_start'; destruct from; lia).
  apply (flush_loop_total from to dur (since_of from) sow empty hi Hd (S f') st (first_start' from a) (add_dur dur a)
           posts [] false Hstable ltac:(lia) Hsort).
  - rewrite Forall_forall in *. intros p Hin. destruct (Hall p Hin) as (Hf & Hpp & Hhi). split; [|exact Hpp].
    split; [|exact Hhi]. unfold first_start'. destruct from as [f|].
    + specialize (Hf f eq_refl). rewrite (Hfrom f eq_refl) in *. lia.
    + cbn in Hdate. destruct posts as [|p0 rest]; [discriminate|]. injection Hdate as <-.
      destruct Hin as [<-|Hin]; [lia|]. inversion Hsort as [|? ? _ Hle]; subst.
      rewrite Forall_forall in Hle. specialize (Hle p Hin). lia.
  - lia.
Qed.

(* ================================================================================= *)
(* Bounds written in --input-date-format                                             *)
(* ================================================================================= *)

(* the two places that compute a reader's traits recognise the same directives *)
Lemma reader_trait_sites_agree_lemma : src_reader_traits_ctor = src_reader_traits_set_format.
Proof. reflexivity. Qed.

Lemma existsb_in {A} (f : A -> bool) l x : In x l -> f x = true -> existsb f l = true.
Proof. intros Hin Hf. apply existsb_exists. exists x. auto. Qed.

(* %Y %y %F carry a year; %m %b %B %F a month; %d %F a day (directives match case-insensitively):
   a bound written in such a format is the date it names *)
Lemma bound_of_text_named fmt cy z :
  (icontains fmt [37; 121] = true \/ icontains fmt [37; 70] = true) ->
  (icontains fmt [37; 109] = true \/ icontains fmt [37; 98] = true \/ icontains fmt [37; 70] = true) ->
  (icontains fmt [37; 100] = true \/ icontains fmt [37; 70] = true) ->
  bound_of_text fmt cy z = z.
Proof.
  intros Hy Hm Hd. unfold bound_of_text, reader_traits, traits_of, specifier_begin.
  destruct src_reader_traits_ctor as [[ys ms] ds] eqn:E.
  unfold src_reader_traits_ctor in E. injection E as <- <- <-.
  pose proof (civil_roundtrip z) as R. destruct (civil_from_days z) as [[y m] d]. cbn [has_year has_month has_day].
  match goal with |- context [existsb _ ?l] =>
    assert (Ey : existsb (icontains fmt) l = true)
      by (destruct Hy as [H|H]; (eapply existsb_in; [|exact H]); cbn [In]; auto 10); rewrite Ey end.
  match goal with |- context [existsb _ ?l] =>
    assert (Em : existsb (icontains fmt) l = true)
      by (destruct Hm as [H|[H|H]]; (eapply existsb_in; [|exact H]); cbn [In]; auto 10); rewrite Em end.
  match goal with |- context [existsb _ ?l] =>
    assert (Ed : existsb (icontains fmt) l = true)
      by (destruct Hd as [H|H]; (eapply existsb_in; [|exact H]); cbn [In]; auto 10); rewrite Ed end.
  apply R.
Qed.

(* ================================================================================= *)
(* --group-by                                                                        *)
(* ================================================================================= *)

Lemma flush_groups_clears fuel sow align empty st : forall groups acc,
  flush_groups fuel sow align empty true st acc groups =
  map (fun g => flush_posts fuel sow align empty st (sort_posts [] g)) groups.
Proof.
  induction groups as [|g rest IH]; intros acc; cbn [flush_groups map]; [reflexivity|].
  rewrite IH. reflexivity.
Qed.

Lemma group_reports_independent_lemma fuel sow align empty st groups :
  src_interval_clear_resets_all_posts = true ->
  group_by_report fuel sow align empty st groups =
  map (fun g => flush_posts fuel sow align empty st (sort_posts [] g)) groups.
Proof. intros H. unfold group_by_report. rewrite H. apply flush_groups_clears. Qed.

(* stable sorting *)
From Coq Require Import Sorting.Permutation.

Lemma insert_post_perm p l : Permutation (p :: l) (insert_post p l).
Proof.
  induction l as [|q l IH]; cbn [insert_post]; [reflexivity|].
  destruct (p_date p <? p_date q); [reflexivity|].
  rewrite perm_swap. constructor. exact IH.
Qed.

Lemma insert_post_sorted p l : date_sorted l -> date_sorted (insert_post p l).
Proof.
  unfold date_sorted. induction l as [|q l IH]; intros Hs; cbn [insert_post].
  - constructor; constructor.
  - destruct (Z.ltb_spec (p_date p) (p_date q)) as [Hlt|Hge].
    + constructor; [exact Hs|]. inversion Hs as [|? ? Hs' Hle]; subst. constructor; [lia|].
      rewrite Forall_forall in *. intros x Hx. specialize (Hle x Hx). lia.
    + inversion Hs as [|? ? Hs' Hle]; subst. constructor; [apply IH; exact Hs'|].
      rewrite Forall_forall in *. intros x Hx.
      apply (Permutation_in _ (Permutation_sym (insert_post_perm p l))) in Hx.
      destruct Hx as [<-|Hx]; [lia|apply Hle, Hx].
Qed.

Lemma sort_posts_spec l : forall acc, date_sorted acc ->
  date_sorted (sort_posts acc l) /\ Permutation (acc ++ l) (sort_posts acc l).
Proof.
  unfold sort_posts. induction l as [|p l IH]; intros acc Hacc; cbn [fold_left].
  - rewrite app_nil_r. split; [exact Hacc|reflexivity].
  - destruct (IH (insert_post p acc) (insert_post_sorted p acc Hacc)) as [Hs Hp]. split; [exact Hs|].
    rewrite <- Hp. rewrite <- (insert_post_perm p acc). cbn [app]. symmetry. apply Permutation_middle.
Qed.

Lemma qsum_perm a b : Permutation a b -> (qsum a == qsum b)%Q.
Proof.
  induction 1 as [|x l l' _ IH|x y l|l l' l'' _ IH1 _ IH2].
  - reflexivity.
  - change (qsum (x :: l)) with (Qred (p_amt x + qsum l)). change (qsum (x :: l')) with (Qred (p_amt x + qsum l')).
    rewrite !Qred_correct, IH. reflexivity.
  - change (qsum (y :: x :: l)) with (Qred (p_amt y + Qred (p_amt x + qsum l))).
    change (qsum (x :: y :: l)) with (Qred (p_amt x + Qred (p_amt y + qsum l))).
    rewrite !Qred_correct. ring.
  - rewrite IH1. exact IH2.
Qed.

(* with a clear() that empties all_posts, every group's period subtotals add up to that group's
   own postings (in whatever order the journal lists them) *)
Lemma group_subtotals_lemma sow align empty dur from to groups fuel i g rows date :
  src_interval_clear_resets_all_posts = true ->
  dur_ok dur -> 0 <= sow < 7 ->
  (forall f t, from = Some f -> to = Some t -> f < t) ->
  nth_error groups i = Some g ->
  nth_error (group_by_report fuel sow align empty (init dur from to) groups) i = Some (Ok rows) ->
  Forall (fun p => (forall f, from = Some f -> f <= p_date p) /\ past to (p_date p) = false) g ->
  first_date from (sort_posts [] g) = Some date ->
  (Z.to_nat (date - initial_start sow align (init dur from to) date) < fuel)%nat ->
  Permutation (concat (map r_posts rows)) g /\ Forall row_ok rows /\ (rows_total rows == qsum g)%Q.
Proof.
  intros Hsrc Hd Hs Hft Hg Hrows Hall Hdate Hfuel.
  rewrite (group_reports_independent_lemma _ _ _ _ _ _ Hsrc) in Hrows.
  rewrite nth_error_map, Hg in Hrows. cbn [option_map] in Hrows. injection Hrows as Hrun.
  destruct (sort_posts_spec g [] ltac:(constructor)) as [Hsorted Hperm]. cbn [app] in Hperm.
  assert (Hall' : Forall (fun p => (forall f, from = Some f -> f <= p_date p) /\ past to (p_date p) = false) (sort_posts [] g)).
  { rewrite Forall_forall in *. intros p Hp. apply Hall. eapply Permutation_in; [symmetry; exact Hperm|exact Hp]. }
  destruct (flush_posts_spec sow align empty dur from to _ fuel rows date Hd Hs Hft Hsorted Hall' Hdate Hfuel Hrun)
    as (Hc & Hok & _).
  split; [rewrite Hc; symmetry; exact Hperm|]. split; [exact Hok|].
  rewrite rows_total_concat, Hc. symmetry. apply qsum_perm. exact Hperm.
Qed.

(* without it (the source as it stands when Gen says `false`), a later group also reports the
   earlier groups' postings *)
Lemma group_by_leak_lemma :
  src_interval_clear_resets_all_posts = false ->
  exists groups,
    map (fun r => match r with Ok rows => map (fun w => Qred (qsum (r_posts w))) rows | Err _ => [] end)
        (group_by_report 100 0 false false (init (mkDur QMonths 1) None None) groups)
    = [[1%Q]; [3%Q]] /\
    groups = [[mkPost 18632 1]; [mkPost 18647 2]].
Proof.
  intros H. eexists. split; [|reflexivity]. unfold group_by_report. rewrite H. vm_compute. reflexivity.
Qed.
