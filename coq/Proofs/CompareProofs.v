(* Ordering of BALANCE-typed values against a number or an amount (value_t::is_less_than, BALANCE cells):
   decided component by component on the exact quantities. *)
From LedgerV Require Import Base.Prelude Base.Round Model.Amount.
From LedgerV Require Import Proofs.AmountProofs.
From Coq Require Import QArith.
Local Open Scope Z_scope.

(* the exact quantity a comparison operand stands for *)
Definition scalar_q (w : value) : option Q :=
  match w with
  | VInt y => Some (aq (amt_of_Z y))
  | VAmt a => Some (aq a)
  | _ => None
  end.

Lemma v_gt_amt_exact w x r q :
  scalar_q w = Some q -> v_gt_amt w x = Ok r -> (r = true <-> (aq x < q)%Q).
Proof.
  destruct w as [| | y | a | ]; cbn [scalar_q]; try discriminate; intros [= <-]; unfold v_gt_amt.
  - destruct (amt_compare x (amt_of_Z y)) as [c|e] eqn:Hc; cbn; [|discriminate].
    intros [= <-]. apply amt_compare_exact in Hc. subst c.
    change (aq (amt_of_Z y)) with (inject_Z y).
    rewrite Qlt_alt. destruct (aq x ?= inject_Z y)%Q; cbn; split; congruence.
  - destruct (amt_compare a x) as [c|e] eqn:Hc; cbn; [|discriminate].
    intros [= <-]. apply amt_compare_exact in Hc. subst c.
    rewrite Qlt_alt, <- (Qcompare_antisym (aq a) (aq x)).
    destruct (aq a ?= aq x)%Q; cbn; split; congruence.
Qed.

(* BALANCE < w: true exactly when every component is below w *)
Lemma bal_all_lt_exact w q : scalar_q w = Some q -> forall b r,
  bal_all_lt b w = Ok r -> (r = true <-> Forall (fun x => (aq x < q)%Q) b).
Proof.
  intros Hw. induction b as [|x b IH]; intros r; cbn [bal_all_lt].
  - intros [= <-]. split; [constructor|reflexivity].
  - destruct (v_gt_amt w x) as [l|e] eqn:Hl; cbn; [|discriminate].
    pose proof (v_gt_amt_exact w x l q Hw Hl) as Hx.
    destruct l.
    + intros Hr. specialize (IH r Hr). split.
      * intros ->. constructor; [apply Hx; reflexivity | apply IH; reflexivity].
      * intros HF. inversion HF; subst. apply IH; assumption.
    + intros [= <-]. split; [discriminate|].
      intros HF. inversion HF as [|? ? Hq _]; subst. apply Hx in Hq. discriminate.
Qed.

(* the boundary: a component exactly equal to w vetoes `<`, whatever the other components are *)
Lemma bal_lt_equal_component w q b x r :
  scalar_q w = Some q -> In x b -> (aq x == q)%Q -> bal_all_lt b w = Ok r -> r = false.
Proof.
  intros Hw Hin Heq Hr. destruct r; [|reflexivity].
  pose proof (proj1 (bal_all_lt_exact w q Hw b true Hr) eq_refl) as HF.
  rewrite Forall_forall in HF. specialize (HF x Hin). rewrite Heq in HF. exfalso. exact (Qlt_irrefl q HF).
Qed.

Lemma v_ltb_balance_exact b w q r :
  b <> [] -> scalar_q w = Some q -> v_ltb (VBal b) w = Ok r ->
  (r = true <-> Forall (fun x => (aq x < q)%Q) b).
Proof.
  intros Hb Hw. destruct w as [| | y | a | ]; cbn [scalar_q] in Hw; try discriminate; cbn [v_ltb];
    (destruct b as [|x0 b0]; [congruence|]); apply bal_all_lt_exact; exact Hw.
Qed.

(* ---- sums of commodity-less amounts: the precision of the sum (which is what is displayed for such an
   amount - there is no commodity to take a display precision from) is the largest precision among the
   summands, whatever their order (amount_t::operator+=: `has_commodity() == amt.has_commodity()`) ---- *)
From LedgerV Require Import Model.AmountText Proofs.AmountTextProofs.
From Coq Require Import Permutation.

Fixpoint sum_from (acc : amount) (l : list amount) : res amount :=
  match l with
  | [] => Ok acc
  | x :: l' => do s <- amt_add acc x; sum_from s l'
  end.

Definition plain (a : amount) : Prop := acomm a = None.

Local Opaque Qred.

Lemma amt_add_plain a b : plain a -> plain b ->
  exists r, amt_add a b = Ok r /\ plain r /\ aprec r = Z.max (aprec a) (aprec b) /\ (aq r == aq a + aq b)%Q.
Proof.
  unfold plain, amt_add, diff_comm, addsub_prec, has_comm. intros Ha Hb. rewrite Ha, Hb. cbn.
  eexists. split; [reflexivity|]. cbn. split; [reflexivity|]. split.
  - destruct (Z.ltb_spec (aprec a) (aprec b)); lia.
  - apply Qred_correct.
Qed.

Lemma sum_from_plain l : forall acc, plain acc -> Forall plain l ->
  exists r, sum_from acc l = Ok r /\ plain r /\ aprec r = fold_left Z.max (map aprec l) (aprec acc).
Proof.
  induction l as [|x l IH]; intros acc Ha Hl; cbn [sum_from map fold_left].
  - exists acc. repeat split; assumption.
  - inversion Hl as [|? ? Hx Hl']; subst.
    destruct (amt_add_plain acc x Ha Hx) as (s & Hs & Hps & Hprec & _). rewrite Hs. cbn [bind].
    destruct (IH s Hps Hl') as (r & Hr & Hpr & Hrp). exists r. rewrite Hrp, Hprec. repeat split; assumption.
Qed.

Lemma plain_sum_precision_order_free a l a' l' r r' :
  Forall plain (a :: l) -> Permutation (a :: l) (a' :: l') ->
  sum_from a l = Ok r -> sum_from a' l' = Ok r' -> aprec r = aprec r'.
Proof.
  intros HF HP Hr Hr'.
  assert (HF' : Forall plain (a' :: l')) by (eapply Permutation_Forall; eassumption).
  inversion HF as [|? ? Ha Hl]; subst. inversion HF' as [|? ? Ha' Hl']; subst.
  destruct (sum_from_plain l a Ha Hl) as (s & Hs & _ & Hp). rewrite Hs in Hr. injection Hr as <-.
  destruct (sum_from_plain l' a' Ha' Hl') as (s' & Hs' & _ & Hp'). rewrite Hs' in Hr'. injection Hr' as <-.
  rewrite Hp, Hp'.
  set (M := fold_left Z.max (map aprec l) (aprec a)). set (M' := fold_left Z.max (map aprec l') (aprec a')).
  assert (Hub : forall x, In x (map aprec (a :: l)) -> x <= M).
  { intros x [<-|Hx]; [apply fold_max_ge | apply fold_max_in; exact Hx]. }
  assert (Hub' : forall x, In x (map aprec (a' :: l')) -> x <= M').
  { intros x [<-|Hx]; [apply fold_max_ge | apply fold_max_in; exact Hx]. }
  assert (Hin : In M (map aprec (a :: l))).
  { destruct (fold_max_attained (map aprec l) (aprec a)) as [H|H]; [left; symmetry; exact H | right; exact H]. }
  assert (Hin' : In M' (map aprec (a' :: l'))).
  { destruct (fold_max_attained (map aprec l') (aprec a')) as [H|H]; [left; symmetry; exact H | right; exact H]. }
  assert (HPm : Permutation (map aprec (a :: l)) (map aprec (a' :: l'))) by (apply Permutation_map; exact HP).
  pose proof (Hub' M (Permutation_in _ HPm Hin)).
  pose proof (Hub M' (Permutation_in _ (Permutation_sym HPm) Hin')).
  lia.
Qed.

(* ---- BALANCE < plain number: total, and independent of the hash-table order ---- *)
Definition plain_scalar (w : value) : Prop :=
  match w with VInt _ => True | VAmt a => acomm a = None | _ => False end.

Lemma v_gt_amt_plain_total w x : plain_scalar w -> exists r, v_gt_amt w x = Ok r.
Proof.
  destruct w as [| | y | a | ]; cbn [plain_scalar]; try contradiction; intros Hp; unfold v_gt_amt, amt_compare, diff_comm, has_comm.
  - cbn [amt_of_Z acomm]. rewrite andb_false_r. cbn. eexists. reflexivity.
  - rewrite Hp. cbn. eexists. reflexivity.
Qed.

Lemma bal_all_lt_plain_total w : plain_scalar w -> forall b, exists r, bal_all_lt b w = Ok r.
Proof.
  intros Hp. induction b as [|x b [r IH]]; cbn [bal_all_lt]; [eexists; reflexivity|].
  destruct (v_gt_amt_plain_total w x Hp) as [l ->]. cbn [bind]. destruct l; [exists r; exact IH | eexists; reflexivity].
Qed.

Lemma plain_scalar_q w : plain_scalar w -> exists q, scalar_q w = Some q.
Proof. destruct w; cbn; try contradiction; intros _; eexists; reflexivity. Qed.

Lemma bal_all_lt_plain_perm w b b' :
  plain_scalar w -> Permutation b b' -> bal_all_lt b w = bal_all_lt b' w.
Proof.
  intros Hp HP. destruct (plain_scalar_q w Hp) as [q Hq].
  destruct (bal_all_lt_plain_total w Hp b) as [r Hr]. destruct (bal_all_lt_plain_total w Hp b') as [r' Hr'].
  rewrite Hr, Hr'. f_equal.
  pose proof (bal_all_lt_exact w q Hq b r Hr) as H. pose proof (bal_all_lt_exact w q Hq b' r' Hr') as H'.
  destruct r, r'; try reflexivity.
  - assert (HF : Forall (fun x => (aq x < q)%Q) b') by (eapply Permutation_Forall; [exact HP | apply H; reflexivity]).
    apply H' in HF. discriminate.
  - assert (HF : Forall (fun x => (aq x < q)%Q) b) by (eapply Permutation_Forall; [apply Permutation_sym; exact HP | apply H'; reflexivity]).
    apply H in HF. discriminate.
Qed.

Lemma v_ltb_balance_plain_perm w b b' :
  plain_scalar w -> Permutation b b' -> v_ltb (VBal b) w = v_ltb (VBal b') w.
Proof.
  intros Hp HP. destruct w as [| | y | a | ]; cbn [plain_scalar] in Hp; try contradiction; cbn [v_ltb].
  - destruct b as [|x b0], b' as [|x' b0']; try reflexivity;
      try (apply Permutation_nil in HP; discriminate); try (apply Permutation_sym, Permutation_nil in HP; discriminate).
    apply (bal_all_lt_plain_perm (VInt y)); [exact I | exact HP].
  - destruct b as [|x b0], b' as [|x' b0']; try reflexivity;
      try (apply Permutation_nil in HP; discriminate); try (apply Permutation_sym, Permutation_nil in HP; discriminate).
    apply (bal_all_lt_plain_perm (VAmt a)); [exact Hp | exact HP].
Qed.
