(* Ordering of BALANCE-typed values against a number or an amount (value_t::is_less_than, BALANCE cells):
   decided component by component on the exact quantities. *)
From LedgerV Require Import Base.Prelude Base.Round Model.Amount.
From LedgerV Require Import Proofs.AmountProofs Proofs.SortedProofs.
From Coq Require Import QArith Permutation.
Local Open Scope Z_scope.

(* the exact quantity a comparison operand stands for *)
Definition scalar_q (w : value) : option Q :=
  match w with
  | VInt y => Some (aq (amt_of_Z y))
  | VAmt a => Some (aq a)
  | _ => None
  end.

Lemma v_gt_amt_exact w x r q :
  scalar_q w = Some q -> v_gt_amt w x = Ok r -> (r = true <-> (aq x < q)%Q).
Proof.
  destruct w as [| | y | a | ]; cbn [scalar_q]; try discriminate; intros [= <-]; unfold v_gt_amt.
  - destruct (amt_compare x (amt_of_Z y)) as [c|e] eqn:Hc; cbn; [|discriminate].
    intros [= <-]. apply amt_compare_exact in Hc. subst c.
    change (aq (amt_of_Z y)) with (inject_Z y).
    rewrite Qlt_alt. destruct (aq x ?= inject_Z y)%Q; cbn; split; congruence.
  - destruct (amt_compare a x) as [c|e] eqn:Hc; cbn; [|discriminate].
    intros [= <-]. apply amt_compare_exact in Hc. subst c.
    rewrite Qlt_alt, <- (Qcompare_antisym (aq a) (aq x)).
    destruct (aq a ?= aq x)%Q; cbn; split; congruence.
Qed.

(* BALANCE < w: true exactly when every component is below w *)
Lemma bal_all_lt_exact w q : scalar_q w = Some q -> forall b r,
  bal_all_lt b w = Ok r -> (r = true <-> Forall (fun x => (aq x < q)%Q) b).
Proof.
  intros Hw. induction b as [|x b IH]; intros r; cbn [bal_all_lt].
  - intros [= <-]. split; [constructor|reflexivity].
  - destruct (v_gt_amt w x) as [l|e] eqn:Hl; cbn; [|discriminate].
    pose proof (v_gt_amt_exact w x l q Hw Hl) as Hx.
    destruct l.
    + intros Hr. specialize (IH r Hr). split.
      * intros ->. constructor; [apply Hx; reflexivity | apply IH; reflexivity].
      * intros HF. inversion HF; subst. apply IH; assumption.
    + intros [= <-]. split; [discriminate|].
      intros HF. inversion HF as [|? ? Hq _]; subst. apply Hx in Hq. discriminate.
Qed.

(* the boundary: a component exactly equal to w vetoes `<`, whatever the other components are *)
Lemma bal_lt_equal_component w q b x r :
  scalar_q w = Some q -> In x b -> (aq x == q)%Q -> bal_all_lt b w = Ok r -> r = false.
Proof.
  intros Hw Hin Heq Hr. destruct r; [|reflexivity].
  pose proof (proj1 (bal_all_lt_exact w q Hw b true Hr) eq_refl) as HF.
  rewrite Forall_forall in HF. specialize (HF x Hin). rewrite Heq in HF. exfalso. exact (Qlt_irrefl q HF).
Qed.

(* the walk is over sorted_amounts b: a permutation of b, empty exactly when b is *)
Lemma sorted_amounts_nil b : sorted_amounts b = [] -> b = [].
Proof.
  intros H. pose proof (sorted_amounts_perm b) as Hp. rewrite H in Hp. apply Permutation_sym, Permutation_nil in Hp. exact Hp.
Qed.

Lemma bal_lt_scalar_unfold b w : b <> [] -> bal_lt_scalar b w = bal_all_lt (sorted_amounts b) w.
Proof.
  intros Hb. unfold bal_lt_scalar. destruct (sorted_amounts b) as [|x s] eqn:E; [|reflexivity].
  apply sorted_amounts_nil in E. contradiction.
Qed.

Lemma bal_gt_scalar_unfold b w : b <> [] -> bal_gt_scalar b w = bal_all_gt (sorted_amounts b) w.
Proof.
  intros Hb. unfold bal_gt_scalar. destruct (sorted_amounts b) as [|x s] eqn:E; [|reflexivity].
  apply sorted_amounts_nil in E. contradiction.
Qed.

Lemma v_ltb_balance_scalar b w q : scalar_q w = Some q -> v_ltb (VBal b) w = bal_lt_scalar b w.
Proof. destruct w; cbn [scalar_q]; try discriminate; reflexivity. Qed.

Lemma v_ltb_balance_exact b w q r :
  b <> [] -> scalar_q w = Some q -> v_ltb (VBal b) w = Ok r ->
  (r = true <-> Forall (fun x => (aq x < q)%Q) b).
Proof.
  intros Hb Hw. rewrite (v_ltb_balance_scalar b w q Hw), (bal_lt_scalar_unfold b w Hb). intros Hr.
  rewrite (bal_all_lt_exact w q Hw _ r Hr). split; apply Permutation_Forall.
  - apply Permutation_sym, sorted_amounts_perm.
  - apply sorted_amounts_perm.
Qed.

(* the boundary at the level of the comparison itself *)
Lemma v_ltb_balance_equal_component w q b x r :
  scalar_q w = Some q -> In x b -> (aq x == q)%Q -> v_ltb (VBal b) w = Ok r -> r = false.
Proof.
  intros Hw Hin Heq. assert (Hb : b <> []) by (intros ->; destruct Hin).
  rewrite (v_ltb_balance_scalar b w q Hw), (bal_lt_scalar_unfold b w Hb).
  apply (bal_lt_equal_component w q _ x r Hw); [|exact Heq].
  apply (Permutation_in _ (sorted_amounts_perm b)). exact Hin.
Qed.

(* ---- sums of commodity-less amounts: the precision of the sum (which is what is displayed for such an
   amount - there is no commodity to take a display precision from) is the largest precision among the
   summands, whatever their order (amount_t::operator+=: `has_commodity() == amt.has_commodity()`) ---- *)
From LedgerV Require Import Model.AmountText Proofs.AmountTextProofs.

Fixpoint sum_from (acc : amount) (l : list amount) : res amount :=
  match l with
  | [] => Ok acc
  | x :: l' => do s <- amt_add acc x; sum_from s l'
  end.

Definition plain (a : amount) : Prop := acomm a = None.

Local Opaque Qred.

Lemma amt_add_plain a b : plain a -> plain b ->
  exists r, amt_add a b = Ok r /\ plain r /\ aprec r = Z.max (aprec a) (aprec b) /\ (aq r == aq a + aq b)%Q.
Proof.
  unfold plain, amt_add, diff_comm, addsub_prec, has_comm. intros Ha Hb. rewrite Ha, Hb. cbn.
  eexists. split; [reflexivity|]. cbn. split; [reflexivity|]. split.
  - destruct (Z.ltb_spec (aprec a) (aprec b)); lia.
  - apply Qred_correct.
Qed.

Lemma sum_from_plain l : forall acc, plain acc -> Forall plain l ->
  exists r, sum_from acc l = Ok r /\ plain r /\ aprec r = fold_left Z.max (map aprec l) (aprec acc).
Proof.
  induction l as [|x l IH]; intros acc Ha Hl; cbn [sum_from map fold_left].
  - exists acc. repeat split; assumption.
  - inversion Hl as [|? ? Hx Hl']; subst.
    destruct (amt_add_plain acc x Ha Hx) as (s & Hs & Hps & Hprec & _). rewrite Hs. cbn [bind].
    destruct (IH s Hps Hl') as (r & Hr & Hpr & Hrp). exists r. rewrite Hrp, Hprec. repeat split; assumption.
Qed.

Lemma plain_sum_precision_order_free a l a' l' r r' :
  Forall plain (a :: l) -> Permutation (a :: l) (a' :: l') ->
  sum_from a l = Ok r -> sum_from a' l' = Ok r' -> aprec r = aprec r'.
Proof.
  intros HF HP Hr Hr'.
  assert (HF' : Forall plain (a' :: l')) by (eapply Permutation_Forall; eassumption).
  inversion HF as [|? ? Ha Hl]; subst. inversion HF' as [|? ? Ha' Hl']; subst.
  destruct (sum_from_plain l a Ha Hl) as (s & Hs & _ & Hp). rewrite Hs in Hr. injection Hr as <-.
  destruct (sum_from_plain l' a' Ha' Hl') as (s' & Hs' & _ & Hp'). rewrite Hs' in Hr'. injection Hr' as <-.
  rewrite Hp, Hp'.
  set (M := fold_left Z.max (map aprec l) (aprec a)). set (M' := fold_left Z.max (map aprec l') (aprec a')).
  assert (Hub : forall x, In x (map aprec (a :: l)) -> x <= M).
  { intros x [<-|Hx]; [apply fold_max_ge | apply fold_max_in; exact Hx]. }
  assert (Hub' : forall x, In x (map aprec (a' :: l')) -> x <= M').
  { intros x [<-|Hx]; [apply fold_max_ge | apply fold_max_in; exact Hx]. }
  assert (Hin : In M (map aprec (a :: l))).
  { destruct (fold_max_attained (map aprec l) (aprec a)) as [H|H]; [left; symmetry; exact H | right; exact H]. }
  assert (Hin' : In M' (map aprec (a' :: l'))).
  { destruct (fold_max_attained (map aprec l') (aprec a')) as [H|H]; [left; symmetry; exact H | right; exact H]. }
  assert (HPm : Permutation (map aprec (a :: l)) (map aprec (a' :: l'))) by (apply Permutation_map; exact HP).
  pose proof (Hub' M (Permutation_in _ HPm Hin)).
  pose proof (Hub M' (Permutation_in _ (Permutation_sym HPm) Hin')).
  lia.
Qed.

(* ---- BALANCE < plain number: total, and independent of the hash-table order ---- *)
Definition plain_scalar (w : value) : Prop :=
  match w with VInt _ => True | VAmt a => acomm a = None | _ => False end.

Lemma v_gt_amt_plain_total w x : plain_scalar w -> exists r, v_gt_amt w x = Ok r.
Proof.
  destruct w as [| | y | a | ]; cbn [plain_scalar]; try contradiction; intros Hp; unfold v_gt_amt, amt_compare, diff_comm, has_comm.
  - cbn [amt_of_Z acomm]. rewrite andb_false_r. cbn. eexists. reflexivity.
  - rewrite Hp. cbn. eexists. reflexivity.
Qed.

Lemma bal_all_lt_plain_total w : plain_scalar w -> forall b, exists r, bal_all_lt b w = Ok r.
Proof.
  intros Hp. induction b as [|x b [r IH]]; cbn [bal_all_lt]; [eexists; reflexivity|].
  destruct (v_gt_amt_plain_total w x Hp) as [l ->]. cbn [bind]. destruct l; [exists r; exact IH | eexists; reflexivity].
Qed.

Lemma plain_scalar_q w : plain_scalar w -> exists q, scalar_q w = Some q.
Proof. destruct w; cbn; try contradiction; intros _; eexists; reflexivity. Qed.

Lemma bal_all_lt_plain_perm w b b' :
  plain_scalar w -> Permutation b b' -> bal_all_lt b w = bal_all_lt b' w.
Proof.
  intros Hp HP. destruct (plain_scalar_q w Hp) as [q Hq].
  destruct (bal_all_lt_plain_total w Hp b) as [r Hr]. destruct (bal_all_lt_plain_total w Hp b') as [r' Hr'].
  rewrite Hr, Hr'. f_equal.
  pose proof (bal_all_lt_exact w q Hq b r Hr) as H. pose proof (bal_all_lt_exact w q Hq b' r' Hr') as H'.
  destruct r, r'; try reflexivity.
  - assert (HF : Forall (fun x => (aq x < q)%Q) b') by (eapply Permutation_Forall; [exact HP | apply H; reflexivity]).
    apply H' in HF. discriminate.
  - assert (HF : Forall (fun x => (aq x < q)%Q) b) by (eapply Permutation_Forall; [apply Permutation_sym; exact HP | apply H'; reflexivity]).
    apply H in HF. discriminate.
Qed.

Lemma bal_lt_scalar_plain_perm w b b' :
  plain_scalar w -> Permutation b b' -> bal_lt_scalar b w = bal_lt_scalar b' w.
Proof.
  intros Hp HP. destruct b as [|x b0].
  - apply Permutation_nil in HP. subst. reflexivity.
  - destruct b' as [|x' b0']; [apply Permutation_sym, Permutation_nil in HP; discriminate|].
    rewrite !bal_lt_scalar_unfold by discriminate. apply (bal_all_lt_plain_perm w _ _ Hp).
    eapply Permutation_trans; [apply Permutation_sym, sorted_amounts_perm|].
    eapply Permutation_trans; [exact HP | apply sorted_amounts_perm].
Qed.

Lemma v_ltb_balance_plain_perm w b b' :
  plain_scalar w -> Permutation b b' -> v_ltb (VBal b) w = v_ltb (VBal b') w.
Proof.
  intros Hp HP. destruct w as [| | y | a | ]; cbn [plain_scalar] in Hp; try contradiction; cbn [v_ltb];
    apply bal_lt_scalar_plain_perm; cbn [plain_scalar]; assumption.
Qed.

(* ---- BALANCE against ANY operand (a commoditized amount, another balance, ...), either side: the entries are walked
   in commodity order (value.cc as repaired by /repo 55e6d28), so the outcome - the truth value, or the error and
   which error - is a function of the CONTENTS of the table.  `distinct_keys` is the invariant of the hash table (one
   entry per commodity). ---- *)
Lemma bal_lt_scalar_perm w b b' :
  distinct_keys b -> Permutation b b' -> bal_lt_scalar b w = bal_lt_scalar b' w.
Proof. intros Hn HP. unfold bal_lt_scalar. rewrite (sorted_amounts_order_free b b' Hn HP). reflexivity. Qed.

Lemma bal_gt_scalar_perm w b b' :
  distinct_keys b -> Permutation b b' -> bal_gt_scalar b w = bal_gt_scalar b' w.
Proof. intros Hn HP. unfold bal_gt_scalar. rewrite (sorted_amounts_order_free b b' Hn HP). reflexivity. Qed.

Lemma bal_to_amount_perm b b' : Permutation b b' -> bal_to_amount b = bal_to_amount b'.
Proof.
  intros HP. pose proof (Permutation_length HP) as HL.
  destruct b as [|x [|y b]].
  - apply Permutation_nil in HP. subst. reflexivity.
  - apply Permutation_length_1_inv in HP. subst. reflexivity.
  - destruct b' as [|x' [|y' b']]; cbn in HL; try discriminate. reflexivity.
Qed.

Lemma v_ltb_balance_perm_l w b b' :
  distinct_keys b -> Permutation b b' -> v_ltb (VBal b) w = v_ltb (VBal b') w.
Proof.
  intros Hn HP. destruct w as [| | y | a | c]; cbn [v_ltb]; try reflexivity.
  - apply bal_lt_scalar_perm; assumption.
  - apply bal_lt_scalar_perm; assumption.
  - rewrite (bal_to_amount_perm b b' HP). reflexivity.
Qed.

Lemma v_ltb_balance_perm_r w b b' :
  Permutation b b' -> v_ltb w (VBal b) = v_ltb w (VBal b').
Proof.
  intros HP. destruct w as [| | y | a | c]; cbn [v_ltb]; try reflexivity;
    rewrite (bal_to_amount_perm b b' HP); reflexivity.
Qed.

Lemma v_ltb_balance_perm b b' w :
  distinct_keys b -> Permutation b b' ->
  v_ltb (VBal b) w = v_ltb (VBal b') w /\ v_ltb w (VBal b) = v_ltb w (VBal b').
Proof. intros Hn HP. split; [apply v_ltb_balance_perm_l; assumption | apply v_ltb_balance_perm_r; exact HP]. Qed.

(* the four ordering operators of the expression language, as aeval builds them from is_less_than (boost) *)
Definition v_cmp (o : binop) (v w : value) : res bool :=
  match o with
  | OLt => v_ltb v w
  | OGt => v_ltb w v
  | OLe => do b <- v_ltb w v; Ok (negb b)
  | OGe => do b <- v_ltb v w; Ok (negb b)
  | _ => Err EBadOp
  end.

Lemma aeval_cmp_is_v_cmp ord cp o l r v w :
  match o with OLt | OGt | OLe | OGe => True | _ => False end ->
  aeval ord cp l = Ok v -> aeval ord cp r = Ok w ->
  aeval ord cp (EBin o l r) = do b <- v_cmp o v w; Ok (VBool b).
Proof.
  intros Ho Hl Hr. cbn [aeval]. rewrite Hl, Hr. cbn [bind].
  destruct o; try contradiction; cbn [v_cmp]; try reflexivity.
  - destruct (v_ltb w v); reflexivity.
  - destruct (v_ltb v w); reflexivity.
Qed.

Lemma v_cmp_balance_perm o b b' w :
  distinct_keys b -> Permutation b b' ->
  v_cmp o (VBal b) w = v_cmp o (VBal b') w /\ v_cmp o w (VBal b) = v_cmp o w (VBal b').
Proof.
  intros Hn HP. destruct (v_ltb_balance_perm b b' w Hn HP) as [H1 H2].
  destruct o; cbn [v_cmp]; rewrite ?H1, ?H2; split; reflexivity.
Qed.

(* top_amount of a balance (report.cc, as repaired by /repo 195dbe5): its first amount in commodity order *)
Lemma top_amount_perm b b' :
  distinct_keys b -> Permutation b b' -> top_amount (VBal b) = top_amount (VBal b').
Proof.
  intros Hn HP. cbn [top_amount]. rewrite <- (sorted_amounts_order_free b b' Hn HP).
  destruct (sorted_amounts b) eqn:E; [|reflexivity].
  apply sorted_amounts_nil in E. subst b. apply Permutation_nil in HP. subst b'. reflexivity.
Qed.

(* ... and it is the component whose key is least: no other entry of the balance sorts before it *)
Lemma top_amount_is_least b x :
  distinct_keys b -> top_amount (VBal b) = VAmt x -> In x b /\ forall y, In y b -> y = x \/ key_lt x y.
Proof.
  intros Hn. cbn [top_amount]. pose proof (sorted_amounts_sorted b Hn) as Hs. pose proof (sorted_amounts_perm b) as Hp.
  destruct (sorted_amounts b) as [|z s] eqn:E; [discriminate|]. intros [= <-]. split.
  - apply (Permutation_in _ (Permutation_sym Hp)). left. reflexivity.
  - intros y Hy. apply (Permutation_in _ Hp) in Hy. destruct Hy as [<-|Hy]; [left; reflexivity|].
    right. inversion Hs as [|? ? _ Hall]; subst. rewrite Forall_forall in Hall. apply Hall. exact Hy.
Qed.
