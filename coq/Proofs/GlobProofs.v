(* What an include glob matches: a name without glob characters matches itself only; `*` also matches nothing. *)
From LedgerV Require Import Base.Prelude Model.Glob.
Local Open Scope Z_scope.

Definition lits (n : str) : list gtok := map GLit n.

Lemma gmatch_star_unfold p s :
  gmatch (GStar :: p) s = gmatch p s || match s with _ :: s' => gmatch (GStar :: p) s' | [] => false end.
Proof. destruct s; reflexivity. Qed.

(* `*` may stand for nothing ... *)
Lemma star_matches_nothing p s : gmatch p s = true -> gmatch (GStar :: p) s = true.
Proof. intros H. rewrite gmatch_star_unfold, H. reflexivity. Qed.

(* ... and may take one more byte *)
Lemma star_takes_a_byte p x s : gmatch (GStar :: p) s = true -> gmatch (GStar :: p) (x :: s) = true.
Proof. intros H. rewrite gmatch_star_unfold, H. apply orb_true_r. Qed.

Lemma star_takes_a_run p m : forall s, gmatch p s = true -> gmatch (GStar :: p) (m ++ s) = true.
Proof.
  induction m as [|x m IH]; intros s H; cbn [app].
  - apply star_matches_nothing, H.
  - apply star_takes_a_byte, IH, H.
Qed.

Lemma lits_prefix a : forall p s, gmatch p s = true -> gmatch (lits a ++ p) (a ++ s) = true.
Proof.
  induction a as [|c a IH]; intros p s H; cbn [lits map app]; [exact H|].
  cbn [gmatch]. rewrite Z.eqb_refl. cbn [andb]. apply IH, H.
Qed.

Lemma lits_self b : gmatch (lits b) b = true.
Proof. induction b as [|c b IH]; cbn [lits map gmatch]; [reflexivity|]. rewrite Z.eqb_refl. exact IH. Qed.

(* PRE*POST matches PRE ++ anything ++ POST - the empty run included: tx*.dat matches tx.dat *)
Theorem star_pattern_matches a b m : gmatch (lits a ++ GStar :: lits b) (a ++ m ++ b) = true.
Proof. apply lits_prefix, star_takes_a_run, lits_self. Qed.

Corollary star_pattern_matches_the_bare_name a b : gmatch (lits a ++ GStar :: lits b) (a ++ b) = true.
Proof. exact (star_pattern_matches a b []). Qed.

(* a name written without glob characters includes the file of exactly that name *)
Theorem literal_pattern_matches_itself_only n : forall s, gmatch (lits n) s = true <-> s = n.
Proof.
  induction n as [|c n IH]; intros s; cbn [lits map gmatch].
  - destruct s; split; intros H; try reflexivity; discriminate.
  - destruct s as [|x s]; [split; intros H; discriminate|].
    split.
    + intros H. apply andb_true_iff in H as [H1 H2]. apply Z.eqb_eq in H1. apply IH in H2. congruence.
    + intros [= -> ->]. rewrite Z.eqb_refl. cbn [andb]. apply IH. reflexivity.
Qed.

Fixpoint no_glob_chars (pat : str) : bool :=
  match pat with
  | [] => true
  | c :: t => negb (Z.eqb c 63) && negb (Z.eqb c 42) && negb (Z.eqb c 92) && no_glob_chars t
  end.

Lemma glob_of_literal pat : no_glob_chars pat = true -> glob_of pat = lits pat.
Proof.
  induction pat as [|c t IH]; intros H; [reflexivity|].
  cbn [no_glob_chars] in H. apply andb_true_iff in H as [H Ht]. apply andb_true_iff in H as [H H92].
  apply andb_true_iff in H as [H63 H42]. apply negb_true_iff in H63, H42, H92. apply Z.eqb_neq in H63, H42, H92.
  apply Z.eqb_neq in H63, H42, H92.
  change (glob_of (c :: t) = GLit c :: lits t). rewrite <- (IH Ht).
  cbn [glob_of]. rewrite H63, H42, H92. reflexivity.
Qed.

Theorem plain_include_reads_that_file_only pat name :
  no_glob_chars pat = true -> (include_matches pat name = true <-> name = pat).
Proof. intros H. unfold include_matches. rewrite (glob_of_literal pat H). apply literal_pattern_matches_itself_only. Qed.

Example glob_examples :
  include_matches [116;120;42;46;100;97;116] [116;120;46;100;97;116] = true /\        (* tx*.dat  tx.dat *)
  include_matches [116;120;42;46;100;97;116] [116;120;49;46;100;97;116] = true /\     (* tx*.dat  tx1.dat *)
  include_matches [116;120;42;46;100;97;116] [116;121;49;46;100;97;116] = false /\    (* tx*.dat  ty1.dat *)
  include_matches [102;46;100;97;116] [102;120;100;97;116] = false /\                 (* f.dat    fxdat *)
  include_matches [112;63;46;100;97;116] [112;46;100;97;116] = false.                 (* p?.dat   p.dat *)
Proof. vm_compute. repeat split. Qed.
