(* Proofs about Model/Deferred.v: every posting of the journal reaches the posts of its account
   exactly once, deferred or not, whatever the ids and however many deferred postings one
   transaction sends to one account; hence every balance quantity computed on account->posts
   equals the one computed on the file order the register walks. *)
From Coq Require Import Permutation Setoid.
From LedgerV Require Import Base.Prelude Base.Round Model.Amount Proofs.AmountProofs
                            Model.Totals Proofs.TotalsProofs Gen.DeferredPosts Model.Deferred.
Local Open Scope Q_scope.

(* the facts the model reads from the source: the proofs below need all of them *)
Lemma deferred_source_facts :
  src_deferred_recognised = true /\
  src_deferred_new_id_keeps_post = true /\
  src_deferred_known_id_appends = true /\
  src_deferred_apply_adds_every_post = true /\
  src_finalize_defers_by_xact_id = true.
Proof. repeat split; reflexivity. Qed.

Lemma add_deferred_perm id p : forall m,
  Permutation (flat_map snd (add_deferred id p m)) (p :: flat_map snd m).
Proof.
  destruct deferred_source_facts as (_ & Hn & Hk & _).
  induction m as [|[k l] m IH]; cbn [add_deferred].
  - rewrite Hn. cbn. apply Permutation_refl.
  - destruct (str_compare id k); cbn [flat_map snd].
    + rewrite Hk. rewrite <- app_assoc. cbn [app].
      apply Permutation_sym. apply Permutation_middle.
    + rewrite Hn. cbn [app]. apply Permutation_refl.
    + eapply Permutation_trans; [apply Permutation_app_head; exact IH|].
      apply Permutation_sym. apply Permutation_middle.
Qed.

Lemma finalize_post_perm s j :
  Permutation (apply_deferred (finalize_post s j)) (apply_deferred s ++ [j]).
Proof.
  destruct deferred_source_facts as (_ & _ & _ & Ha & Hf).
  unfold finalize_post, apply_deferred. rewrite Ha, Hf, andb_true_r.
  destruct (jp_deferred j); cbn [as_posts as_deferred].
  - rewrite <- app_assoc. apply Permutation_app_head.
    eapply Permutation_trans; [apply add_deferred_perm|].
    change (j :: flat_map snd (as_deferred s)) with ([j] ++ flat_map snd (as_deferred s)).
    apply Permutation_app_comm.
  - rewrite <- !app_assoc. apply Permutation_app_head. apply Permutation_app_comm.
Qed.

Lemma fold_finalize_perm : forall l s,
  Permutation (apply_deferred (fold_left finalize_post l s)) (apply_deferred s ++ l).
Proof.
  induction l as [|j l IH]; intros s; cbn [fold_left].
  - rewrite app_nil_r. apply Permutation_refl.
  - eapply Permutation_trans; [apply IH|].
    eapply Permutation_trans; [apply Permutation_app_tail; apply finalize_post_perm|].
    rewrite <- app_assoc. apply Permutation_refl.
Qed.

(* account->posts of a = the postings of the journal whose account is a, each exactly once *)
Lemma acct_final_perm a js : Permutation (acct_final a js) (filter (to_acct a) js).
Proof.
  unfold acct_final. eapply Permutation_trans; [apply fold_finalize_perm|].
  destruct deferred_source_facts as (_ & _ & _ & Ha & _).
  unfold apply_deferred. rewrite Ha. cbn. apply Permutation_refl.
Qed.

(* ---- a list splits into the classes of a key ---- *)
Lemma filter_split_perm {A} (P : A -> bool) : forall l,
  Permutation l (filter P l ++ filter (fun x => negb (P x)) l).
Proof.
  induction l as [|x l IH]; cbn [filter]; [apply Permutation_refl|].
  destruct (P x); cbn [negb app].
  - apply perm_skip. exact IH.
  - apply Permutation_cons_app. exact IH.
Qed.

Lemma filter_filter_and {A} (P Q' : A -> bool) : forall l,
  filter P (filter Q' l) = filter (fun x => P x && Q' x) l.
Proof.
  induction l as [|x l IH]; cbn [filter]; [reflexivity|].
  destruct (Q' x); cbn [filter]; rewrite IH; [|rewrite andb_false_r; reflexivity].
  rewrite andb_true_r. destruct (P x); reflexivity.
Qed.

Lemma flat_map_ext_in' {A B} (f g : A -> list B) : forall l,
  (forall x, In x l -> f x = g x) -> flat_map f l = flat_map g l.
Proof.
  induction l as [|x l IH]; intros H; cbn [flat_map]; [reflexivity|].
  rewrite (H x (or_introl eq_refl)), IH; [reflexivity|]. intros y Hy. apply H. right. exact Hy.
Qed.

Lemma classes_perm (key : jpost -> path) : forall ks l,
  NoDup ks -> (forall x, In x l -> In (key x) ks) ->
  Permutation (flat_map (fun k => filter (fun x => path_eqb (key x) k) l) ks) l.
Proof.
  induction ks as [|k ks IH]; intros l Hnd Hin; cbn [flat_map].
  - destruct l as [|x l]; [apply Permutation_refl|]. destruct (Hin x (or_introl eq_refl)).
  - inversion Hnd as [|? ? Hk Hnd']; subst.
    eapply Permutation_trans;
      [|apply Permutation_sym; apply (filter_split_perm (fun x => path_eqb (key x) k))].
    apply Permutation_app_head.
    set (l' := filter (fun x => negb (path_eqb (key x) k)) l).
    assert (E : flat_map (fun k0 => filter (fun x => path_eqb (key x) k0) l) ks =
                flat_map (fun k0 => filter (fun x => path_eqb (key x) k0) l') ks).
    { apply flat_map_ext_in'. intros k0 Hk0. unfold l'. rewrite filter_filter_and.
      apply filter_ext_in'. intros x _.
      destruct (path_eqb (key x) k0) eqn:E0; [|reflexivity].
      apply path_eqb_eq in E0. destruct (path_eqb (key x) k) eqn:E1; [|reflexivity].
      apply path_eqb_eq in E1. exfalso. apply Hk. rewrite <- E1, E0. exact Hk0. }
    rewrite E. apply IH; [exact Hnd'|].
    intros x Hx. unfold l' in Hx. apply filter_In in Hx. destruct Hx as (Hx & Hne).
    destruct (Hin x Hx) as [Ek|H]; [|exact H].
    exfalso. rewrite <- Ek in Hne. rewrite (proj2 (path_eqb_eq k k) eq_refl) in Hne. discriminate.
Qed.

Lemma flat_map_perm {A B} (f g : A -> list B) : forall l,
  (forall x, In x l -> Permutation (f x) (g x)) -> Permutation (flat_map f l) (flat_map g l).
Proof.
  induction l as [|x l IH]; intros H; cbn [flat_map]; [apply Permutation_refl|].
  apply Permutation_app; [apply H; left; reflexivity|apply IH; intros y Hy; apply H; right; exact Hy].
Qed.

Lemma flat_map_map {A B C} (f : A -> list B) (g : B -> C) : forall l,
  flat_map (fun x => map g (f x)) l = map g (flat_map f l).
Proof.
  induction l as [|x l IH]; cbn [flat_map map]; [reflexivity|]. rewrite map_app, IH. reflexivity.
Qed.

(* the journal as the accounts hold it is a rearrangement of the journal in file order:
   no posting is lost and none is counted twice *)
Lemma account_view_perm js : Permutation (account_view js) (map jp_post js).
Proof.
  unfold account_view. rewrite flat_map_map. apply Permutation_map.
  eapply Permutation_trans; [apply flat_map_perm; intros a _; apply acct_final_perm|].
  unfold to_acct. apply (classes_perm (fun j => p_acct (jp_post j))).
  - apply NoDup_nodup.
  - intros x Hx. unfold jaccts. apply nodup_In. apply in_map_iff. exists x. split; [reflexivity|exact Hx].
Qed.

Lemma sumq_perm {A} (f : A -> Q) l l' : Permutation l l' -> sumq f l == sumq f l'.
Proof.
  induction 1; cbn [sumq]; [reflexivity|rewrite IHPermutation; reflexivity|ring|].
  rewrite IHPermutation1. exact IHPermutation2.
Qed.

Lemma filter_perm {A} (P : A -> bool) l l' : Permutation l l' -> Permutation (filter P l) (filter P l').
Proof.
  induction 1; cbn [filter].
  - apply Permutation_refl.
  - destruct (P x); [apply perm_skip|]; assumption.
  - destruct (P x), (P y); try apply Permutation_refl. apply perm_swap.
  - eapply Permutation_trans; eassumption.
Qed.

Lemma sel_sum_perm o ps ps' c P : Permutation ps ps' -> sel_sum o ps c P == sel_sum o ps' c P.
Proof. intros H. unfold sel_sum. apply sumq_perm. apply filter_perm. apply filter_perm. exact H. Qed.

(* ---- the balance over account->posts against the register over xact->posts ---- *)
Lemma bal_total_of_ok ord o js a : exists v, bal_total_of ord o js a = Ok v.
Proof. apply total_of_ok. Qed.

Lemma bal_total_of_den ord o js a v c :
  bal_total_of ord o js a = Ok v ->
  den v c == sel_sum o (map jp_post js) c (fun p => is_prefix a (p_acct p)).
Proof.
  unfold bal_total_of. intros H. rewrite (total_of_den _ _ _ _ _ c H).
  apply sel_sum_perm. apply account_view_perm.
Qed.

Lemma bal_eq_reg_deferred_gen ord ord' o js a v rows c :
  bal_total_of ord o js a = Ok v ->
  reg_rows_of ord' o js = Ok rows ->
  den v c == sumq (fun r => den (r_amt r) c) (filter (fun r => is_prefix a (r_acct r)) rows).
Proof.
  intros Hv Hr. rewrite (bal_total_of_den _ _ _ _ _ c Hv).
  destruct (total_of_ok ord o (map jp_post js) a) as (w & Hw).
  rewrite <- (total_of_den _ _ _ _ _ c Hw).
  exact (bal_eq_reg_gen _ _ _ _ _ _ _ c Hw Hr).
Qed.

Lemma own_deferred_gen ord ord' o js a v rows c :
  own_of ord o (account_view js) a = Ok v ->
  reg_rows_of ord' o js = Ok rows ->
  den v c == sumq (fun r => den (r_amt r) c) (filter (fun r => path_eqb (r_acct r) a) rows).
Proof.
  intros Hv Hr. rewrite (own_of_den _ _ _ _ _ c Hv).
  rewrite (sel_sum_perm o _ _ c _ (account_view_perm js)).
  destruct (vsum_total ord (map (amt o) (own_posts (selected o (map jp_post js)) a)) VVoid)
    as (w & Hw & _); [cbn; exact I|].
  rewrite <- (own_of_den ord o (map jp_post js) a w c Hw).
  exact (own_eq_reg_gen _ _ _ _ _ _ _ c Hw Hr).
Qed.

Lemma grand_deferred_gen ord ord' o js g rows r c :
  bal_total_of ord o js [] = Ok g ->
  reg_rows_of ord' o js = Ok rows ->
  nth_error rows (length rows - 1) = Some r ->
  den (r_total r) c == den g c.
Proof.
  intros Hg Hr Hn.
  destruct (total_of_ok ord o (map jp_post js) []) as (w & Hw).
  rewrite (last_running_is_grand _ _ _ _ _ _ _ c Hw Hr Hn).
  rewrite (total_of_den _ _ _ _ _ c Hw), (bal_total_of_den _ _ _ _ _ c Hg). reflexivity.
Qed.

(* a deferred posting is in account->posts exactly as often as in the journal: in particular the
   second, third, ... deferred posting of one transaction to one account *)
Lemma acct_final_count a js j (dec : forall x y : jpost, {x = y} + {x <> y}) :
  count_occ dec (acct_final a js) j = count_occ dec (filter (to_acct a) js) j.
Proof. apply Permutation_count_occ. apply acct_final_perm. Qed.
