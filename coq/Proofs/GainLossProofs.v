(* exchange(): the gain/loss of a lot sale reaches the transaction's balance only through postings that must
   balance; a (virtual) posting, whatever its lot price and cost, leaves the balance - and hence every elided
   amount and the accept/reject decision - alone. *)
From LedgerV Require Import Base.Prelude Base.Round Model.Amount Model.Xact.
Local Open Scope Z_scope.

Ltac bind_ok H x Hx :=
  match type of H with
  | bind ?r _ = Ok _ => destruct r as [x|?] eqn:Hx; [cbn [bind] in H | discriminate H]
  end.

Lemma exchange_posts_skips_nonbalancing ord cp : forall ps bal ps' bal',
  exchange_posts ord cp ps bal = Ok (ps', bal') ->
  exists ps'', exchange_posts ord cp (filter must_balance ps) bal = Ok (ps'', bal').
Proof.
  induction ps as [|p ps IH]; intros bal ps' bal' H; cbn [exchange_posts filter] in *.
  - injection H as <- <-. eexists. reflexivity.
  - destruct (must_balance p) eqn:Hmb.
    + (* a posting that must balance: the same branch on both sides *)
      cbn [exchange_posts]. rewrite Hmb.
      destruct (p_amt p) as [amt|]; [destruct (p_cost p) as [cost|]|].
      * destruct (comm_eqb (acomm amt) (acomm cost)); [discriminate|].
        destruct (p_lotprice p) as [lp|].
        -- set (basis := mkAmt _ _ true _) in *.
           destruct (comm_eqb (acomm basis) (acomm cost)).
           ++ destruct (amt_sub basis cost) as [gl|e]; [cbn [bind] in *|discriminate].
              destruct (is_zero cp gl).
              ** bind_ok H r Hr. injection H as <- <-. destruct r as [rp rb]. destruct (IH _ _ _ Hr) as [q Hq].
                 rewrite Hq. cbn [bind fst snd]. eexists. reflexivity.
              ** destruct (add_or_set ord bal (unkeep gl)) as [b1|e]; [cbn [bind] in *|discriminate].
                 destruct (amt_add cost (unkeep gl)) as [c1|e]; [cbn [bind] in *|discriminate].
                 bind_ok H r Hr. injection H as <- <-. destruct r as [rp rb]. destruct (IH _ _ _ Hr) as [q Hq].
                 rewrite Hq. cbn [bind fst snd]. eexists. reflexivity.
           ++ bind_ok H r Hr. injection H as <- <-. destruct r as [rp rb]. destruct (IH _ _ _ Hr) as [q Hq].
              rewrite Hq. cbn [bind fst snd]. eexists. reflexivity.
        -- bind_ok H r Hr. injection H as <- <-. destruct r as [rp rb]. destruct (IH _ _ _ Hr) as [q Hq].
           rewrite Hq. cbn [bind fst snd]. eexists. reflexivity.
      * bind_ok H r Hr. injection H as <- <-. destruct r as [rp rb]. destruct (IH _ _ _ Hr) as [q Hq].
        rewrite Hq. cbn [bind fst snd]. eexists. reflexivity.
      * bind_ok H r Hr. injection H as <- <-. destruct r as [rp rb]. destruct (IH _ _ _ Hr) as [q Hq].
        rewrite Hq. cbn [bind fst snd]. eexists. reflexivity.
    + (* a posting that does not: whatever branch it takes, the balance handed on is `bal` *)
      assert (Hrec : exists r, exchange_posts ord cp ps bal = Ok r /\ snd r = bal').
      { destruct (p_amt p) as [amt|]; [destruct (p_cost p) as [cost|]|].
        - destruct (comm_eqb (acomm amt) (acomm cost)); [discriminate|].
          destruct (p_lotprice p) as [lp|].
          + set (basis := mkAmt _ _ true _) in *.
            destruct (comm_eqb (acomm basis) (acomm cost)).
            * destruct (amt_sub basis cost) as [gl|e]; [cbn [bind] in *|discriminate].
              destruct (is_zero cp gl).
              -- bind_ok H r Hr. injection H as <- <-. exists r. split; reflexivity.
              -- cbn [bind] in H.
                 destruct (amt_add cost (unkeep gl)) as [c1|e]; [cbn [bind] in *|discriminate].
                 bind_ok H r Hr. injection H as <- <-. exists r. split; reflexivity.
            * bind_ok H r Hr. injection H as <- <-. exists r. split; reflexivity.
          + bind_ok H r Hr. injection H as <- <-. exists r. split; reflexivity.
        - bind_ok H r Hr. injection H as <- <-. exists r. split; reflexivity.
        - bind_ok H r Hr. injection H as <- <-. exists r. split; reflexivity. }
      destruct Hrec as ([rp rb] & Hr & Hb). cbn [snd] in Hb. subst rb. exact (IH _ _ _ Hr).
Qed.

Lemma exchange_posts_nonbalancing_only ord cp ps bal ps' bal' :
  Forall (fun p => must_balance p = false) ps ->
  exchange_posts ord cp ps bal = Ok (ps', bal') -> bal' = bal.
Proof.
  intros HF H. destruct (exchange_posts_skips_nonbalancing ord cp ps bal ps' bal' H) as [q Hq].
  assert (Hnil : filter must_balance ps = []).
  { clear -HF. induction HF as [|p ps Hp _ IH]; cbn [filter]; [reflexivity|]. rewrite Hp. exact IH. }
  rewrite Hnil in Hq. cbn [exchange_posts] in Hq. injection Hq as _ <-. reflexivity.
Qed.

(* the balance scan as well: postings that do not balance contribute nothing, and whether an elided amount was met
   (and ETwoNulls) is decided by the postings that balance alone; only the position recorded for it shifts *)
Definition same_presence {A B} (x : option A) (y : option B) : Prop :=
  match x, y with Some _, Some _ => True | None, None => True | _, _ => False end.

Lemma scan_posts_skips_nonbalancing ord : forall ps i i' bal nul nul' b n,
  same_presence nul nul' ->
  scan_posts ord ps i bal nul = Ok (b, n) ->
  exists n', scan_posts ord (filter must_balance ps) i' bal nul' = Ok (b, n') /\ same_presence n n'.
Proof.
  induction ps as [|p ps IH]; intros i i' bal nul nul' b n Hs H; cbn [scan_posts filter] in *.
  - injection H as <- <-. exists nul'. split; [reflexivity | exact Hs].
  - destruct (must_balance p) eqn:Hmb; cbn [negb] in H.
    + cbn [scan_posts]. rewrite Hmb. cbn [negb].
      destruct (balancing_amount p) as [a|].
      * destruct (add_or_set ord bal (unkeep a)) as [bal1|e]; [cbn [bind] in *|discriminate].
        exact (IH _ _ _ _ _ _ _ Hs H).
      * destruct nul as [k|], nul' as [k'|]; cbn [same_presence] in Hs; try contradiction; [discriminate|].
        apply (IH (S i) (S i') bal (Some i) (Some i') b n); [exact I | exact H].
    + exact (IH _ _ _ _ _ _ _ Hs H).
Qed.

(* ---- the implied-rate branch is taken on the components that are not exactly zero: a component left behind by a
   commodity whose postings cancelled (which postings came first decides whether there is one) changes nothing ---- *)
From LedgerV Require Import Proofs.XactProofs.
From Coq Require Import Permutation.

Lemma two_entries_ignores_zero_component z b :
  is_realzero z = true -> two_entries (VBal (z :: b)) = two_entries (VBal b).
Proof. intros Hz. cbn [two_entries filter]. rewrite Hz. reflexivity. Qed.

Lemma two_entries_ignores_zero_components b b' :
  filter (fun a => negb (is_realzero a)) b = filter (fun a => negb (is_realzero a)) b' ->
  two_entries (VBal b) = two_entries (VBal b').
Proof. intros H. cbn [two_entries]. rewrite H. reflexivity. Qed.

Lemma two_entries_perm b b' : Permutation b b' -> two_entries (VBal b) = two_entries (VBal b').
Proof.
  intros HP. cbn [two_entries].
  assert (HL : length (filter (fun a => negb (is_realzero a)) b) = length (filter (fun a => negb (is_realzero a)) b')).
  { clear -HP. induction HP as [| x l l' _ IH | x y l | l l' l'' _ IH1 _ IH2]; cbn [filter].
    - reflexivity.
    - destruct (negb (is_realzero x)); cbn [length]; [f_equal|]; exact IH.
    - destruct (negb (is_realzero x)), (negb (is_realzero y)); reflexivity.
    - congruence. }
  destruct (filter (fun a => negb (is_realzero a)) b) as [|x [|y [|z l]]],
           (filter (fun a => negb (is_realzero a)) b') as [|x' [|y' [|z' l']]]; cbn [length] in HL; try reflexivity; discriminate.
Qed.
