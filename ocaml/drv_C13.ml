(* C13 driver.
   FMT = hex of the format the bounds are written in (the reader that parses them), CY = current year;
   EXPR = hex of the period expression text, (DATES) = the day numbers its date words name, in the order
   written (reading a date word is the date reader's business).  The interval object is what the model's
   lexer and parser (Model/PeriodExpr.v, parse_text) make of the TEXT; Q N FROM TO - the harness's own
   reading of the expression - are NOT used by the model (the oracle uses them).  The postings are limited
   to the [from, to) of the parsed interval as report_t::normalize_period does (glue).
   SOW = hex of the TEXT given to --start-of-week (`0` when the option is absent): week_start_of_text decides
   which day it names, or that the run is refused ("ID ERR").
   (period ID Q N FROM TO TODAY FMT CY EXPR (DATES))     Q = d|w|m|q|y
     -> "ID start=S finish=F samples=s:e,s:e,... toks=TOK_X,..."   (e = end_of_duration, exclusive) | "ID ERR"
   (reg ID Q N FROM TO SOW ALIGN EMPTY FMT CY EXPR (DATES) (D NUM DEN) ...)     all postings of the account, date order
     -> "ID rows=s:e:num/den:count;..." | "ID ERR"
   (greg ID Q N FROM TO SOW ALIGN EMPTY FMT CY EXPR (DATES) (group (D NUM DEN) ...) ...)   --group-by: groups in report
     order, postings in journal order -> "ID groups=ROWS|ROWS|..."  (ROWS as above, or ERR)
   (civil ID Z) -> "ID y-m-d wd"      (add ID Q N Z) -> "ID z'"        calendar spot checks *)
let rec nat_of_int n = if n <= 0 then O else S (nat_of_int (n - 1))
let fuel = nat_of_int 40000

let quantum = function
  | "d" -> QDays | "w" -> QWeeks | "m" -> QMonths | "q" -> QQuarters | "y" -> QYears
  | _ -> failwith "quantum"
let optz x = match atom x with "-" -> None | s -> Some (z_of_string s)
let show_opt = function None -> "-" | Some z -> string_of_z z

let ival_of fmt cy expr dates =
  parse_text (str_of_hex (atom fmt)) (zatom cy) (str_of_hex (atom expr)) (List.map zatom (items dates))

let sow_of x = week_start_of_text (str_of_hex (atom x))

let ptok_name = function
  | T_AGO -> "AGO" | T_HENCE -> "HENCE" | T_SINCE -> "SINCE" | T_UNTIL -> "UNTIL" | T_IN -> "IN"
  | T_THIS -> "THIS" | T_NEXT -> "NEXT" | T_LAST -> "LAST" | T_EVERY -> "EVERY" | T_TODAY -> "TODAY"
  | T_TOMORROW -> "TOMORROW" | T_YESTERDAY -> "YESTERDAY" | T_YEAR -> "YEAR" | T_QUARTER -> "QUARTER"
  | T_MONTH -> "MONTH" | T_WEEK -> "WEEK" | T_DAY -> "DAY" | T_YEARLY -> "YEARLY" | T_QUARTERLY -> "QUARTERLY"
  | T_BIMONTHLY -> "BIMONTHLY" | T_MONTHLY -> "MONTHLY" | T_BIWEEKLY -> "BIWEEKLY" | T_WEEKLY -> "WEEKLY"
  | T_DAILY -> "DAILY" | T_YEARS -> "YEARS" | T_QUARTERS -> "QUARTERS" | T_MONTHS -> "MONTHS"
  | T_WEEKS -> "WEEKS" | T_DAYS -> "DAYS" | T_OTHER -> "OTHER"
let tok_name = function
  | KDate _ -> "TOK_DATE" | KInt _ -> "TOK_INT" | KUnknown -> "UNKNOWN" | KTok t -> "TOK_" ^ ptok_name t

let post_of = function
  | L [d; num; den] -> { p_date = zatom d; p_amt = h_qred (h_qmake (zatom num) (zatom den)) }
  | _ -> failwith "post"

let within from to_ (p : post) =
  (match from with Some f -> not (h_ltb p.p_date f) | None -> true)
  && (match to_ with Some t -> h_ltb p.p_date t | None -> true)

let show_rows = function
  | Ok rows ->
    String.concat ";" (List.map (fun r ->
        let q = h_qred (qsum r.r_posts) in
        Printf.sprintf "%s:%s:%s/%s:%d" (show_opt r.r_start) (show_opt r.r_eod)
          (string_of_z (h_qnum q)) (string_of_z (h_qden q)) (List.length r.r_posts)) rows)
  | Err _ -> "ERR"

let handle line =
  match parse_sexp line with
  | L [A "period"; A id; A _; _; _; _; today; fmt; cy; expr; dates] ->
    (match ival_of fmt cy expr dates with
     | Err _ -> [id ^ " ERR"]
     | Ok st ->
    let toks = match tokens_of_text (str_of_hex (atom expr)) (List.map zatom (items dates)) with
      | Ok l -> String.concat "," (List.map tok_name l) | Err _ -> "ERR" in
    (match dump fuel Z0 st (zatom today) with
     | Ok ((s, f), l) ->
       [Printf.sprintf "%s start=%s finish=%s samples=%s toks=%s" id (show_opt s) (show_opt f)
          (String.concat "," (List.map (fun (a, b) -> string_of_z a ^ ":" ^ string_of_z b) l)) toks]
     | Err _ -> [id ^ " ERR"]))
  | L (A "reg" :: A id :: A _ :: _ :: _ :: _ :: sow :: align :: empty :: fmt :: cy :: expr :: dates :: posts) ->
    (match ival_of fmt cy expr dates, sow_of sow with
     | Err _, _ | _, Err _ -> [id ^ " ERR"]
     | Ok st, Ok sow ->
    let f = st.i_from and t = st.i_to in
    let ps = List.filter (within f t) (List.map post_of posts) in
    (match flush_posts fuel sow (batom align) (batom empty) st ps with
     | Ok rows -> [Printf.sprintf "%s rows=%s" id (show_rows (Ok rows))]
     | Err _ -> [id ^ " ERR"]))
  | L (A "greg" :: A id :: A _ :: _ :: _ :: _ :: sow :: align :: empty :: fmt :: cy :: expr :: dates :: groups) ->
    (match ival_of fmt cy expr dates, sow_of sow with
     | Err _, _ | _, Err _ -> [id ^ " ERR"]
     | Ok st, Ok sow ->
    let f = st.i_from and t = st.i_to in
    let gs = List.map (function
        | L (A "group" :: posts) -> List.filter (within f t) (List.map post_of posts)
        | _ -> failwith "group") groups in
    let gs = List.filter (fun g -> g <> []) gs in       (* a group without postings in the bounds does not exist *)
    [Printf.sprintf "%s groups=%s" id
       (String.concat "|" (List.map show_rows (group_by_report fuel sow (batom align) (batom empty) st gs)))])
  | L [A "civil"; A id; z] ->
    let ((y, m), d) = civil_from_days (zatom z) in
    [Printf.sprintf "%s %s-%s-%s %s" id (string_of_z y) (string_of_z m) (string_of_z d)
       (string_of_z (weekday (zatom z)))]
  | L [A "add"; A id; A q; n; z] ->
    [Printf.sprintf "%s %s" id (string_of_z (add_dur { d_q = quantum q; d_n = zatom n } (zatom z)))]
  | _ -> failwith "case"

let () = main_loop handle
