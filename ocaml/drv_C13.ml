(* C13 driver.
   (period ID Q N FROM TO TODAY)                      Q = d|w|m|q|y, FROM/TO = day number or -
     -> "ID start=S finish=F samples=s:e,s:e,..."     (e = end_of_duration, exclusive) | "ID ERR"
   (reg ID Q N FROM TO SOW ALIGN EMPTY (D NUM DEN) ...)   postings in date order
     -> "ID rows=s:e:num/den:count;..." | "ID ERR"
   (civil ID Z) -> "ID y-m-d wd"      (add ID Q N Z) -> "ID z'"        calendar spot checks *)
let rec nat_of_int n = if n <= 0 then O else S (nat_of_int (n - 1))
let fuel = nat_of_int 40000

let quantum = function
  | "d" -> QDays | "w" -> QWeeks | "m" -> QMonths | "q" -> QQuarters | "y" -> QYears
  | _ -> failwith "quantum"
let optz x = match atom x with "-" -> None | s -> Some (z_of_string s)
let show_opt = function None -> "-" | Some z -> string_of_z z

let handle line =
  match parse_sexp line with
  | L [A "period"; A id; A q; n; from; to_; today] ->
    let st = init { d_q = quantum q; d_n = zatom n } (optz from) (optz to_) in
    (match dump fuel Z0 st (zatom today) with
     | Ok ((s, f), l) ->
       [Printf.sprintf "%s start=%s finish=%s samples=%s" id (show_opt s) (show_opt f)
          (String.concat "," (List.map (fun (a, b) -> string_of_z a ^ ":" ^ string_of_z b) l))]
     | Err _ -> [id ^ " ERR"])
  | L (A "reg" :: A id :: A q :: n :: from :: to_ :: sow :: align :: empty :: posts) ->
    let st = init { d_q = quantum q; d_n = zatom n } (optz from) (optz to_) in
    let ps = List.map (function
        | L [d; num; den] -> { p_date = zatom d; p_amt = h_qred (h_qmake (zatom num) (zatom den)) }
        | _ -> failwith "post") posts in
    (match flush_posts fuel (zatom sow) (batom align) (batom empty) st ps with
     | Ok rows ->
       [Printf.sprintf "%s rows=%s" id
          (String.concat ";" (List.map (fun r ->
               let q = h_qred (qsum r.r_posts) in
               Printf.sprintf "%s:%s:%s/%s:%d" (show_opt r.r_start) (show_opt r.r_eod)
                 (string_of_z (h_qnum q)) (string_of_z (h_qden q)) (List.length r.r_posts)) rows))]
     | Err _ -> [id ^ " ERR"])
  | L [A "civil"; A id; z] ->
    let ((y, m), d) = civil_from_days (zatom z) in
    [Printf.sprintf "%s %s-%s-%s %s" id (string_of_z y) (string_of_z m) (string_of_z d)
       (string_of_z (weekday (zatom z)))]
  | L [A "add"; A id; A q; n; z] ->
    [Printf.sprintf "%s %s" id (string_of_z (add_dur { d_q = quantum q; d_n = zatom n } (zatom z)))]
  | _ -> failwith "case"

let () = main_loop handle
