(* C13 driver.
   FMT = hex of the format the bounds are written in (the reader that parses them), CY = current year;
   FROM/TO = the day number the text names, or -.  The bound the interval object receives is
   bound_of_text FMT CY day (the reader's traits decide which of year/month/day are kept); the postings
   are limited to [from, to) with those bounds as report_t::normalize_period does (glue).
   (period ID Q N FROM TO TODAY FMT CY)                  Q = d|w|m|q|y
     -> "ID start=S finish=F samples=s:e,s:e,..."        (e = end_of_duration, exclusive) | "ID ERR"
   (reg ID Q N FROM TO SOW ALIGN EMPTY FMT CY (D NUM DEN) ...)     all postings of the account, date order
     -> "ID rows=s:e:num/den:count;..." | "ID ERR"
   (greg ID Q N FROM TO SOW ALIGN EMPTY FMT CY (group (D NUM DEN) ...) ...)   --group-by: groups in report
     order, postings in journal order -> "ID groups=ROWS|ROWS|..."  (ROWS as above, or ERR)
   (civil ID Z) -> "ID y-m-d wd"      (add ID Q N Z) -> "ID z'"        calendar spot checks *)
let rec nat_of_int n = if n <= 0 then O else S (nat_of_int (n - 1))
let fuel = nat_of_int 40000

let quantum = function
  | "d" -> QDays | "w" -> QWeeks | "m" -> QMonths | "q" -> QQuarters | "y" -> QYears
  | _ -> failwith "quantum"
let optz x = match atom x with "-" -> None | s -> Some (z_of_string s)
let show_opt = function None -> "-" | Some z -> string_of_z z

let bound fmt cy = function
  | None -> None
  | Some z -> Some (bound_of_text (str_of_hex (atom fmt)) (zatom cy) z)

let post_of = function
  | L [d; num; den] -> { p_date = zatom d; p_amt = h_qred (h_qmake (zatom num) (zatom den)) }
  | _ -> failwith "post"

let within from to_ (p : post) =
  (match from with Some f -> not (h_ltb p.p_date f) | None -> true)
  && (match to_ with Some t -> h_ltb p.p_date t | None -> true)

let show_rows = function
  | Ok rows ->
    String.concat ";" (List.map (fun r ->
        let q = h_qred (qsum r.r_posts) in
        Printf.sprintf "%s:%s:%s/%s:%d" (show_opt r.r_start) (show_opt r.r_eod)
          (string_of_z (h_qnum q)) (string_of_z (h_qden q)) (List.length r.r_posts)) rows)
  | Err _ -> "ERR"

let handle line =
  match parse_sexp line with
  | L [A "period"; A id; A q; n; from; to_; today; fmt; cy] ->
    let st = init { d_q = quantum q; d_n = zatom n } (bound fmt cy (optz from)) (bound fmt cy (optz to_)) in
    (match dump fuel Z0 st (zatom today) with
     | Ok ((s, f), l) ->
       [Printf.sprintf "%s start=%s finish=%s samples=%s" id (show_opt s) (show_opt f)
          (String.concat "," (List.map (fun (a, b) -> string_of_z a ^ ":" ^ string_of_z b) l))]
     | Err _ -> [id ^ " ERR"])
  | L (A "reg" :: A id :: A q :: n :: from :: to_ :: sow :: align :: empty :: fmt :: cy :: posts) ->
    let f = bound fmt cy (optz from) and t = bound fmt cy (optz to_) in
    let st = init { d_q = quantum q; d_n = zatom n } f t in
    let ps = List.filter (within f t) (List.map post_of posts) in
    (match flush_posts fuel (zatom sow) (batom align) (batom empty) st ps with
     | Ok rows -> [Printf.sprintf "%s rows=%s" id (show_rows (Ok rows))]
     | Err _ -> [id ^ " ERR"])
  | L (A "greg" :: A id :: A q :: n :: from :: to_ :: sow :: align :: empty :: fmt :: cy :: groups) ->
    let f = bound fmt cy (optz from) and t = bound fmt cy (optz to_) in
    let st = init { d_q = quantum q; d_n = zatom n } f t in
    let gs = List.map (function
        | L (A "group" :: posts) -> List.filter (within f t) (List.map post_of posts)
        | _ -> failwith "group") groups in
    let gs = List.filter (fun g -> g <> []) gs in       (* a group without postings in the bounds does not exist *)
    [Printf.sprintf "%s groups=%s" id
       (String.concat "|" (List.map show_rows (group_by_report fuel (zatom sow) (batom align) (batom empty) st gs)))]
  | L [A "civil"; A id; z] ->
    let ((y, m), d) = civil_from_days (zatom z) in
    [Printf.sprintf "%s %s-%s-%s %s" id (string_of_z y) (string_of_z m) (string_of_z d)
       (string_of_z (weekday (zatom z)))]
  | L [A "add"; A id; A q; n; z] ->
    [Printf.sprintf "%s %s" id (string_of_z (add_dur { d_q = quantum q; d_n = zatom n } (zatom z)))]
  | _ -> failwith "case"

let () = main_loop handle
