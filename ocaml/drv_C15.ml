(* C15 driver: (case ID (pool (SYMHEX PREC)...) (pool0 (SYMHEX PREC)...) (text HEX)) - the expression TEXT, the bytes
   ledger gets; the model tokenizes it itself (Model/ExprLex.v) - or, for a hand-made token list, (toks TOK...) ->
     "ID P <printed text of the parsed tree | E:Parse | NULL>"
     "ID V <value of parse+compile+calc>"
     "ID R <value of parse+compile+calc of the printed text lexed again (under pool0)>"
   TOK: (lit n d prec keep commhex) | (b 0/1) | (id HEX) | lp rp ex mi pl st sl dv eq ne lt le gt ge
        an or qu co if el cm se ar as *)
let err_name = function
  | EDivZero -> "DivZero" | EDiffComm -> "DiffComm" | ENullAmt -> "NullAmt"
  | EBadOp -> "BadOp" | EOutOfFuel -> "Fuel" | ETimelogNoIn -> "OrderDependent" | _ -> "Other"

let comm_of_atom a = if a = "-" then None else Some (str_of_hex a)

let show_amt (a : amount) : string =
  let q = h_qred a.aq in
  Printf.sprintf "A:%s:%s/%s:%s:%d"
    (match a.acomm with None -> "" | Some c -> hex_of_str c)
    (string_of_z (h_qnum q)) (string_of_z (h_qden q)) (string_of_z a.aprec)
    (if a.akeep then 1 else 0)

let show_value = function
  | VVoid -> "V:"
  | VBool b -> if b then "L:1" else "L:0"
  | VInt z -> "I:" ^ string_of_z z
  | VAmt a -> show_amt a
  | VBal b -> "B:" ^ String.concat ";" (List.sort compare (List.map show_amt b))

let tok_of = function
  | L [A "lit"; n; d; p; k; c] ->
    TVal (VAmt { aq = h_qmake (zatom n) (zatom d); aprec = zatom p; akeep = batom k; acomm = comm_of_atom (atom c) })
  | L [A "b"; b] -> TVal (VBool (batom b))
  | L [A "id"; s] -> TIdent (str_of_hex (atom s))
  | A "lp" -> TLParen | A "rp" -> TRParen | A "ex" -> TExclam | A "mi" -> TMinus | A "pl" -> TPlus
  | A "st" -> TStar | A "sl" -> TSlash | A "dv" -> TKwDiv | A "eq" -> TEqual | A "ne" -> TNequal
  | A "lt" -> TLess | A "le" -> TLessEq | A "gt" -> TGreater | A "ge" -> TGreaterEq
  | A "an" -> TAnd | A "or" -> TOr | A "qu" -> TQuery | A "co" -> TColon | A "if" -> TKwIf
  | A "el" -> TKwElse | A "cm" -> TComma | A "se" -> TSemi | A "ar" -> TArrow | A "as" -> TAssign
  | _ -> failwith "tok"

let mk_cp pool =
  let tbl = List.map (function L [A s; p] -> (str_of_hex s, zatom p) | _ -> failwith "pool") pool in
  fun c ->
    let s = string_of_str c in
    let base = (match String.index_opt s '~' with Some i -> String.sub s 0 i | None -> s) in
    (try List.assoc (str_of_string base) tbl with Not_found -> Z0)

(* amount_t::print for the commodity styles the generators use: `$` prefixed, every other
   symbol suffixed after one space; no thousands marks *)
let amt_text cp (a : amount) : string =
  let (n, p) = amt_digits cp a in
  let txt = string_of_str (fixed_text (h_ltb (h_qnum a.aq) Z0) n p) in
  match a.acomm with
  | None -> txt
  | Some c -> let sym = string_of_str c in if sym = "$" then sym ^ txt else txt ^ " " ^ sym

(* the white space op_t::print puts around each token *)
let render cp (ts : tok list) : string =
  let b = Buffer.create 64 in
  let prev = ref None in
  List.iter (fun t ->
      let s = (match t with
          | TVal (VAmt a) -> "{" ^ amt_text cp a ^ "}"
          | TVal (VBool true) -> "true" | TVal (VBool false) -> "false"
          | TVal VVoid -> "null"
          | TVal (VInt z) -> string_of_z z
          | TVal (VBal _) -> "<balance>"
          | TIdent s -> string_of_str s
          | TLParen -> "(" | TRParen -> ")"
          | TExclam -> "! "
          | TMinus -> if !prev = Some TLParen then "- " else " - "
          | TPlus -> " + " | TStar -> " * " | TSlash -> " / " | TKwDiv -> " / "
          | TEqual -> " == " | TNequal -> " != " | TLess -> " < " | TLessEq -> " <= "
          | TGreater -> " > " | TGreaterEq -> " >= " | TAnd -> " & " | TOr -> " | "
          | TQuery -> " ? " | TColon -> " : " | TKwIf -> " if " | TKwElse -> " else "
          | TComma -> ", " | TSemi -> "; " | TArrow -> " -> " | TAssign -> " = ") in
      Buffer.add_string b s; prev := Some t) ts;
  Buffer.contents b

let show_run cp toks =
  let one ord = (match parse cp (parse_fuel toks) toks with Err _ -> "E:Parse" | Ok _ ->
    match run ord cp [] toks with
      | Ok None -> "N:"
      | Ok (Some (XV v)) -> show_value v
      | Ok (Some (XFun _)) -> "F:"
      | Err e -> "E:" ^ err_name e) in
  let r1 = one false and r2 = one true in
  if r1 = "E:OrderDependent" || r2 = "E:OrderDependent" then "ORDER-DEPENDENT hash order of a balance"
  else if r1 = r2 then r1 else "ORDER-DEPENDENT " ^ r1 ^ " | " ^ r2

let handle line =
  match parse_sexp line with
  | L [A "case"; A id; L (A "pool" :: pool); L (A "pool0" :: pool0); L (A "toks" :: toks)] ->
    let cp = mk_cp pool and cp0 = mk_cp pool0 in
    let ts = List.map tok_of toks in
    (match parse cp (parse_fuel ts) ts with
     | Err e -> [id ^ " P E:Parse"; id ^ " V E:Parse"; id ^ " R -"]
     | Ok None -> [id ^ " P NULL"; id ^ " V " ^ show_run cp ts; id ^ " R -"]
     | Ok (Some t) ->
       let pt = print t in
       let rt = List.map (relit_tok cp) pt in
       [id ^ " P " ^ hex_of_string (render cp pt);
        id ^ " V " ^ show_run cp ts;
        id ^ " R " ^ show_run cp0 rt])
  | L [A "case"; A id; L (A "pool" :: pool); L (A "pool0" :: pool0); L [A mode; A hex]] when mode = "text" || mode = "ptext" ->
    (* ptext: the value is that of `(TEXT)` - ledger evaluates verif_rational(TEXT), where what follows a complete
       expression is not dropped but meets the closing parenthesis *)
    let cp = mk_cp pool and cp0 = mk_cp pool0 in
    let s = str_of_hex hex in
    let ts = text_tokens s in
    let show_run cp ts0 =
      if mode = "ptext" && ts0 == ts then
        (let s' = str_of_string ("(" ^ string_of_str s ^ ")") in
         match parse_text cp s' with Err _ -> "E:Parse" | Ok _ -> show_run cp (text_tokens s'))
      else show_run cp ts0 in
    (match parse_text cp s with
     | Err e -> [id ^ " P E:Parse"; id ^ " V E:Parse"; id ^ " R -"]
     | Ok None -> [id ^ " P NULL"; id ^ " V " ^ show_run cp ts; id ^ " R -"]
     | Ok (Some t) ->
       let pt = print t in
       let rt = List.map (relit_tok cp) pt in
       [id ^ " P " ^ hex_of_string (render cp pt);
        id ^ " V " ^ show_run cp ts;
        id ^ " R " ^ show_run cp0 rt])
  | _ -> failwith "case"

let () = main_loop handle
