(* C16 driver.
   (journal ID ITEM ...)
     ITEM = (rule PRED (line ACCTHEX KIND AMT STATE) ...)
          | (xact PAYEEHEX STATE (post ACCTHEX KIND AMT COST LOT) ...)
          | (alias NAMEHEX TARGETHEX)
     every ACCTHEX / TARGETHEX is the FULL account name the written name resolves to at its place in the file
     (master account, apply account, one round of aliases) - computed by the harness
     PRED = (acct HEX) | (payee HEX) | (lt AMT) | (gt AMT) | (not P) | (and P Q) | (or P Q)
          | (const 0|1) | (eq P Q) | (query C P Q)
     AMT  = - | (NUM DEN PREC KEYHEX)          KEYHEX = commodity symbol or - (none)
     COST = - | (u NUM DEN PREC SYMHEX) | (t NUM DEN PREC SYMHEX)
     LOT  = - | (NUM DEN PREC SYMHEX)
     STATE = 0 uncleared | 1 cleared | 2 pending;  KIND = R | V | B
   -> one line per transaction (index over the xact items only):
      "ID i OK row;row;..." | "ID i IGNORED" | "ID i ERR class"
      row = acct,r|v|b,amt,cost,<calculated><generated><cost_calculated>,state
      (commodities are shown by their base symbol: the hook hides computed annotations)
   evaluated under both hash-table insertion orders; differing results print ORDER-DEPENDENT. *)
let err_name = function
  | EUnbalanced -> "Unbalanced" | ETwoNulls -> "TwoNulls" | ENullLeft -> "NullLeft"
  | ECostSameComm -> "CostSameComm" | EDivZero -> "DivZero" | EDiffComm -> "DiffComm"
  | EBadAmount -> "NoAmount" | ENullAmt -> "NullAmt"
  | _ -> "Other"

let comm_of a = if a = "-" then None else Some (str_of_hex a)

let amt_of keep = function
  | L [n; d; p; k] -> Some { aq = h_qred (h_qmake (zatom n) (zatom d)); aprec = zatom p; akeep = keep; acomm = comm_of (atom k) }
  | A "-" -> None
  | _ -> failwith "amt"

let show_amt (a : amount) =
  let q = h_qred a.aq in
  Printf.sprintf "%s:%s/%s:%s:%d" (match a.acomm with None -> "" | Some c -> string_of_str (base_sym c))
    (string_of_z (h_qnum q)) (string_of_z (h_qden q)) (string_of_z a.aprec) (if a.akeep then 1 else 0)

let kind_of = function "R" -> PReal | "V" -> PVirtual | "B" -> PBalVirtual | _ -> failwith "kind"
let state_of x = match atom x with "0" -> SUncleared | "1" -> SCleared | "2" -> SPending | _ -> failwith "state"
let state_char = function SUncleared -> "0" | SCleared -> "1" | SPending -> "2"

let post_of cp = function
  | L [A "post"; acct; A kind; amt; cost; lot] ->
    let a = amt_of false amt in
    let lotp = amt_of true lot in
    let c = (match cost, a with
        | A "-", _ -> None
        | L [A "u"; n; d; p; k], Some a' ->
          (match amt_of true (L [n; d; p; k]) with Some u -> Some (cost_per_unit cp u a') | None -> None)
        | L [A "t"; n; d; p; k], Some a' ->
          (match amt_of true (L [n; d; p; k]) with Some t -> Some (cost_total t a') | None -> None)
        | _ -> failwith "cost") in
    { p_acct = str_of_hex (atom acct); p_kind = kind_of kind;
      p_amt = a; p_cost = c; p_lotprice = lotp;
      p_calculated = false; p_generated = false; p_cost_calculated = false }
  | _ -> failwith "post"

let need_amt x = match amt_of true x with Some a -> a | None -> failwith "literal"

let rec pred_of = function
  | L [A "acct"; h] -> PAcct (str_of_hex (atom h))
  | L [A "payee"; h] -> PPayee (str_of_hex (atom h))
  | L [A "lt"; a] -> PAmtLt (need_amt a)
  | L [A "gt"; a] -> PAmtGt (need_amt a)
  | L [A "not"; p] -> PNot (pred_of p)
  | L [A "and"; p; q] -> PAnd (pred_of p, pred_of q)
  | L [A "or"; p; q] -> POr (pred_of p, pred_of q)
  | L [A "const"; A b] -> PConst (b = "1")
  | L [A "eq"; p; q] -> PEq (pred_of p, pred_of q)
  | L [A "query"; c; p; q] -> PQuery (pred_of c, pred_of p, pred_of q)
  | _ -> failwith "pred"

let line_of = function
  | L [A "line"; acct; A kind; amt; st] ->
    { rl_acct = str_of_hex (atom acct); rl_kind = kind_of kind; rl_amt = amt_of false amt; rl_state = state_of st }
  | _ -> failwith "line"

let show_xpost (x : xpost) =
  let p = x.x_post in
  let amt = (match p.p_amt with Some a -> show_amt a | None -> "null") in
  let cost = (match p.p_cost with Some c -> show_amt c | None -> amt) in
  Printf.sprintf "%s,%s,%s,%s,%d%d%d,%s" (string_of_str p.p_acct)
    (match p.p_kind with PReal -> "r" | PVirtual -> "v" | PBalVirtual -> "b") amt cost
    (if p.p_calculated then 1 else 0) (if p.p_generated then 1 else 0) (if p.p_cost_calculated then 1 else 0)
    (state_char x.x_state)

let handle line =
  match parse_sexp line with
  | L (A "journal" :: A id :: its) ->
    let cp0 _ = Z0 in
    let ds = List.map (function
        | L (A "rule" :: p :: ls) -> DRule { r_pred = pred_of p; r_lines = List.map line_of ls }
        | L (A "xact" :: payee :: st :: ps) ->
          DTxn { t_payee = str_of_hex (atom payee); t_state = state_of st; t_posts = List.map (post_of cp0) ps }
        | L [A "alias"; n; t] -> DAlias (str_of_hex (atom n), str_of_hex (atom t))
        | _ -> failwith "item") its in
    let run ord =
      List.mapi (fun i r ->
          match r with
          | Ok (XAccepted ps) -> Printf.sprintf "%s %d OK %s" id i (String.concat ";" (List.map show_xpost ps))
          | Ok XIgnored -> Printf.sprintf "%s %d IGNORED" id i
          | Err e -> Printf.sprintf "%s %d ERR %s" id i (err_name e))
        (process ord [] [] [] ds) in
    let r1 = run false and r2 = run true in
    List.map2 (fun a b -> if a = b then a else
                  (let i = String.index_from a (String.index a ' ' + 1) ' ' in
                   String.sub a 0 i ^ " ORDER-DEPENDENT " ^ String.sub a (i + 1) (String.length a - i - 1) ^ " || " ^ b)) r1 r2
  | _ -> failwith "case"

let () = main_loop handle
