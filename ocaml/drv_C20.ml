(* C20 driver.
   (case ID DAYBREAK NOW (EV ...))   EV = (i T DONE ACCT DESC) | (o T DONE ACCT DESC)
   T, NOW: seconds since 1970-01-01 00:00:00; DONE: 1 for a capital I/O; ACCT: `none` (NULL),
   `-` (the empty name) or hex bytes; DESC: `-` or hex bytes.
   ACCT is the RESOLVED full account name (master account, enclosing `apply account` blocks and the
   written name joined by `:`), for check-ins and check-outs alike; one case = one file instance
   (an included file is a case of its own: it has its own time_log_t).
   -> "ID R idx|day|acct|secs|payee|code|cleared|in|out;..."  the rows, in journal order; idx = index of
                                                               the event that made the row, n = the close
    | "ID E idx:Class,...;close:Class|-"                       failing event indices (from 0) *)
let cls = function
  | TNoCheckin -> "NoCheckin" | TNeedAccount -> "NeedAccount" | TNoMatch -> "NoMatch"
  | TNegative -> "Negative" | TDouble -> "Double" | TFuel -> "Fuel"

let bytes_of a = if a = "-" then [] else str_of_hex a
let acct_of a = if a = "none" then None else Some (bytes_of a)
let show_acct = function None -> "none" | Some [] -> "-" | Some s -> hex_of_str s
let show_str = function [] -> "-" | s -> hex_of_str s

let tx_of t d a s = { tx_t = zatom t; tx_done = batom d; tx_acct = acct_of (atom a); tx_desc = bytes_of (atom s) }

let ev_of = function
  | L [A "i"; t; d; a; s] -> CheckIn (tx_of t d a s)
  | L [A "o"; t; d; a; s] -> CheckOut (tx_of t d a s)
  | _ -> failwith "event"

let show_post p =
  String.concat "|" [string_of_z p.p_day; show_acct p.p_acct; string_of_z p.p_secs; show_str p.p_payee;
                     show_str p.p_code; (if p.p_cleared then "1" else "0"); string_of_z p.p_in; string_of_z p.p_out]

let handle line =
  match parse_sexp line with
  | L [A "case"; A id; db; now; L evs] ->
    let events = List.map ev_of evs in
    (match journal (batom db) (zatom now) events with
     | Report ps ->
       (* the same rows, with the index of the event that produced each (run + close are what
          `journal` is made of; the concatenation must be the report) *)
       let (opn, ocs) = run (batom db) [] events in
       let tagged = List.concat (List.mapi (fun i oc -> match oc with
           | Posted l -> List.map (fun p -> (i, p)) l | Failed _ -> []) ocs) in
       let n = List.length events in
       let closing = (match close (batom db) (zatom now) opn with Inl l -> List.map (fun p -> (n, p)) l | Inr _ -> []) in
       let all = tagged @ closing in
       if List.map snd all <> ps then failwith "driver: run/close rows differ from journal";
       [id ^ " R " ^ String.concat ";" (List.map (fun (i, p) -> string_of_int i ^ "|" ^ show_post p) all)]
     | Errors (ls, c) ->
       [id ^ " E " ^ String.concat "," (List.map (fun (n, e) -> string_of_z n ^ ":" ^ cls e) ls)
        ^ ";close:" ^ (match c with None -> "-" | Some e -> cls e)])
  | L [A "unreduce"; A id; num; den; A base; bprec; L chain] ->
    (* (unreduce ID NUM DEN BASELABELHEX BASEPREC ((LABELHEX FNUM FDEN PREC) ...))
       -> "ID U labelhex:num/den|scaled:prec": the unit reached, the exact quantity in it, and
       round(quantity * 10^prec) as stream_out_mpq prints it at that unit's display precision *)
    let ch = List.map (function L [A l; fn; fd; _] -> (str_of_hex l, h_qmake (zatom fn) (zatom fd)) | _ -> failwith "chain") chain in
    let precs = (str_of_hex base, zatom bprec) :: List.map (function L [A l; _; _; p] -> (str_of_hex l, zatom p) | _ -> failwith "chain") chain in
    let (lab, q) = unreduce_walk ch (str_of_hex base) (h_qmake (zatom num) (zatom den)) in
    let q = h_qred q in
    let prec = List.assoc lab precs in
    [id ^ " U " ^ hex_of_str lab ^ ":" ^ string_of_z (h_qnum q) ^ "/" ^ string_of_z (h_qden q)
     ^ "|" ^ string_of_z (print_scaled (h_qnum q) (h_qden q) prec) ^ ":" ^ string_of_z prec]
  | L [A "held"; A id; n] ->
    (* (held ID N) -> "ID H k": the postings an account holds (account_t::posts) after it was given N *)
    [id ^ " H " ^ string_of_z (held_of_rows (zatom n))]
  | _ -> failwith "case"

let () = main_loop handle
