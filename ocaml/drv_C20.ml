(* C20 driver.
   (case ID DAYBREAK NOW (EV ...))   EV = (i T DONE ACCT DESC) | (o T DONE ACCT DESC)
   T, NOW: seconds since 1970-01-01 00:00:00; DONE: 1 for a capital I/O; ACCT: `none` (NULL),
   `-` (the empty name) or hex bytes; DESC: `-` or hex bytes.
   -> "ID R day|acct|secs|payee|code|cleared|in|out;..."     the register rows, in journal order
    | "ID E idx:Class,...;close:Class|-"                      failing event indices (from 0) *)
let cls = function
  | TNoCheckin -> "NoCheckin" | TNeedAccount -> "NeedAccount" | TNoMatch -> "NoMatch"
  | TNegative -> "Negative" | TDouble -> "Double" | TFuel -> "Fuel"

let bytes_of a = if a = "-" then [] else str_of_hex a
let acct_of a = if a = "none" then None else Some (bytes_of a)
let show_acct = function None -> "none" | Some [] -> "-" | Some s -> hex_of_str s
let show_str = function [] -> "-" | s -> hex_of_str s

let tx_of t d a s = { tx_t = zatom t; tx_done = batom d; tx_acct = acct_of (atom a); tx_desc = bytes_of (atom s) }

let ev_of = function
  | L [A "i"; t; d; a; s] -> CheckIn (tx_of t d a s)
  | L [A "o"; t; d; a; s] -> CheckOut (tx_of t d a s)
  | _ -> failwith "event"

let show_post p =
  String.concat "|" [string_of_z p.p_day; show_acct p.p_acct; string_of_z p.p_secs; show_str p.p_payee;
                     show_str p.p_code; (if p.p_cleared then "1" else "0"); string_of_z p.p_in; string_of_z p.p_out]

let handle line =
  match parse_sexp line with
  | L [A "case"; A id; db; now; L evs] ->
    (match journal (batom db) (zatom now) (List.map ev_of evs) with
     | Report ps -> [id ^ " R " ^ String.concat ";" (List.map show_post ps)]
     | Errors (ls, c) ->
       [id ^ " E " ^ String.concat "," (List.map (fun (n, e) -> string_of_z n ^ ":" ^ cls e) ls)
        ^ ";close:" ^ (match c with None -> "-" | Some e -> cls e)])
  | _ -> failwith "case"

let () = main_loop handle
