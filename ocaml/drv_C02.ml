(* C02 driver (the journals of C02 go through drv_C01; this one serves the streams of Model/XactBase.v).
   (periodic ID (bucket HEX|-) (xact (post ACCTHEX KIND AMT COST LOT) ...))
       the `~ PERIOD` transaction, finalized with the pool that has learnt its own amounts
       -> "ID OK row;row;..." | "ID ERR class"      row = acct,v|r,amt,cost,<calculated><generated><cost_calculated>
          an amount-less posting that stays prints `null` for amount and cost
   (twonull ID (xact (post ...) ...))
       -> "ID NONE" | "ID PLAIN" | "ID MISSPELT ACCTHEX"     the wording of the error for a second elided amount,
          followed by the dated model's own verdict: " / OK" | " / ERR class"
   AMT  = - | (NUM DEN PREC KEYHEX)    COST = - | (u NUM DEN PREC SYMHEX) | (t NUM DEN PREC SYMHEX)    LOT = - | (NUM DEN PREC SYMHEX)
   evaluated under both hash-table insertion orders; differing results print ORDER-DEPENDENT. *)
let err_name = function
  | EUnbalanced -> "Unbalanced" | ETwoNulls -> "TwoNulls" | ENullLeft -> "NullLeft"
  | ECostSameComm -> "CostSameComm" | EDivZero -> "DivZero" | EDiffComm -> "DiffComm"
  | _ -> "Other"

let comm_of a = if a = "-" then None else Some (str_of_hex a)

let amt_of keep = function
  | L [n; d; p; k] -> Some { aq = h_qred (h_qmake (zatom n) (zatom d)); aprec = zatom p; akeep = keep; acomm = comm_of (atom k) }
  | A "-" -> None
  | _ -> failwith "amt"

let show_amt (a : amount) =
  let q = h_qred a.aq in
  Printf.sprintf "%s:%s/%s:%s:%d" (match a.acomm with None -> "" | Some c -> string_of_str c)
    (string_of_z (h_qnum q)) (string_of_z (h_qden q)) (string_of_z a.aprec) (if a.akeep then 1 else 0)

let post_of cp = function
  | L (A "post" :: acct :: A kind :: amt :: cost :: lot :: _) ->
    let a = amt_of false amt in
    let lotp = amt_of true lot in
    let c = (match cost, a with
        | A "-", _ -> None
        | L [A "u"; n; d; p; k], Some a' ->
          (match amt_of true (L [n; d; p; k]) with Some u -> Some (cost_per_unit cp u a') | None -> None)
        | L [A "t"; n; d; p; k], Some a' ->
          (match amt_of true (L [n; d; p; k]) with Some t -> Some (cost_total t a') | None -> None)
        | _ -> failwith "cost") in
    { p_acct = str_of_hex (atom acct);
      p_kind = (match kind with "R" -> PReal | "V" -> PVirtual | "B" -> PBalVirtual | _ -> failwith "kind");
      p_amt = a; p_cost = c; p_lotprice = lotp;
      p_calculated = false; p_generated = false; p_cost_calculated = false }
  | _ -> failwith "post"

let show_post (p : post) =
  let amt = (match p.p_amt with Some a -> show_amt a | None -> "null") in
  let cost = (match p.p_cost with Some c -> show_amt c | None -> amt) in
  Printf.sprintf "%s,%s,%s,%s,%d%d%d" (string_of_str p.p_acct)
    (match p.p_kind with PReal -> "r" | _ -> "v") amt cost
    (if p.p_calculated then 1 else 0) (if p.p_generated then 1 else 0) (if p.p_cost_calculated then 1 else 0)

let show_res id = function
  | Ok (Accepted ps) -> Printf.sprintf "%s OK %s" id (String.concat ";" (List.map show_post ps))
  | Ok Ignored -> Printf.sprintf "%s IGNORED" id
  | Err e -> Printf.sprintf "%s ERR %s" id (err_name e)

let cp0 _ = Z0

let handle line =
  match parse_sexp line with
  | L [A "periodic"; A id; L [A "bucket"; b]; L (A "xact" :: ps)] ->
    let bucket = (match atom b with "-" -> None | h -> Some (str_of_hex h)) in
    let posts = List.map (post_of cp0) ps in
    let r1 = show_res id (run_periodic false bucket [] posts) and r2 = show_res id (run_periodic true bucket [] posts) in
    [if r1 = r2 then r1 else id ^ " ORDER-DEPENDENT " ^ r1 ^ " || " ^ r2]
  | L [A "twonull"; A id; L (A "xact" :: ps)] ->
    let posts = List.map (post_of cp0) ps in
    let w = (match two_null_error posts with
        | None -> "NONE" | Some TwoNullsPlain -> "PLAIN"
        | Some (TwoNullsMisspelt n) -> "MISSPELT " ^ hex_of_str n) in
    let v = (match finalize false cp0 None posts with
        | Ok _ -> "OK" | Err e -> "ERR " ^ err_name e) in
    [Printf.sprintf "%s %s / %s" id w v]
  | _ -> failwith "case"

let () = main_loop handle
