(* C01/C02 driver.
   (journal ID (bucket HEX|-) (xact (post ACCTHEX KIND AMT COST LOT) ...) ...)
     (post ... LINEHEX): the account and kind are read from the written line by the model
     AMT  = - | (NUM DEN PREC KEYHEX)          KEYHEX = commodity key (symbol, or symbol~{lot}) or -
     COST = - | (u NUM DEN PREC SYMHEX) | (t NUM DEN PREC SYMHEX)
     LOT  = - | (NUM DEN PREC SYMHEX)
   -> one line per transaction: "ID i OK row;row;..." | "ID i IGNORED" | "ID i ERR class"
      row = acct,v|r,amt,cost,<calculated><generated><cost_calculated>
   evaluated under both hash-table insertion orders; differing results print ORDER-DEPENDENT. *)
let err_name = function
  | EUnbalanced -> "Unbalanced" | ETwoNulls -> "TwoNulls" | ENullLeft -> "NullLeft"
  | ECostSameComm -> "CostSameComm" | EDivZero -> "DivZero" | EDiffComm -> "DiffComm"
  | _ -> "Other"

let comm_of a = if a = "-" then None else Some (str_of_hex a)

let amt_of keep = function
  | L [n; d; p; k] -> Some { aq = h_qred (h_qmake (zatom n) (zatom d)); aprec = zatom p; akeep = keep; acomm = comm_of (atom k) }
  | A "-" -> None
  | _ -> failwith "amt"

let show_amt (a : amount) =
  let q = h_qred a.aq in
  Printf.sprintf "%s:%s/%s:%s:%d" (match a.acomm with None -> "" | Some c -> string_of_str c)
    (string_of_z (h_qnum q)) (string_of_z (h_qden q)) (string_of_z a.aprec) (if a.akeep then 1 else 0)

(* with a 7th field - the posting line as written, after its indentation - the account, its kind and whether an
   amount follows are what the model of the line reader (Model/PostLine.v) finds in that text *)
let rec post_of cp = function
  | L [A "post"; _; A _; amt; cost; lot; A line] ->
    let (_state, ((k, name), rest)) = read_post_line (str_of_hex line) in
    let kind = (match k with KReal -> "R" | KVirtual -> "V" | KBalVirtual -> "B" | KDeferred -> "R") in
    let acct = A (hex_of_str name) in
    if has_amount_text rest then post_of cp (L [A "post"; acct; A kind; amt; cost; lot])
    else post_of cp (L [A "post"; acct; A kind; A "-"; A "-"; A "-"])
  | L [A "post"; acct; A kind; amt; cost; lot] ->
    let a = amt_of false amt in
    let lotp = amt_of true lot in
    let c = (match cost, a with
        | A "-", _ -> None
        | L [A "u"; n; d; p; k], Some a' ->
          (match amt_of true (L [n; d; p; k]) with Some u -> Some (cost_per_unit cp u a') | None -> None)
        | L [A "t"; n; d; p; k], Some a' ->
          (match amt_of true (L [n; d; p; k]) with Some t -> Some (cost_total t a') | None -> None)
        | _ -> failwith "cost") in
    { p_acct = str_of_hex (atom acct);
      p_kind = (match kind with "R" -> PReal | "V" -> PVirtual | "B" -> PBalVirtual | _ -> failwith "kind");
      p_amt = a; p_cost = c; p_lotprice = lotp;
      p_calculated = false; p_generated = false; p_cost_calculated = false }
  | _ -> failwith "post"

let show_post (p : post) =
  let amt = (match p.p_amt with Some a -> show_amt a | None -> "null") in
  let cost = (match p.p_cost with Some c -> show_amt c | None -> amt) in
  Printf.sprintf "%s,%s,%s,%s,%d%d%d" (string_of_str p.p_acct)
    (match p.p_kind with PReal -> "r" | _ -> "v") amt cost
    (if p.p_calculated then 1 else 0) (if p.p_generated then 1 else 0) (if p.p_cost_calculated then 1 else 0)

let handle line =
  match parse_sexp line with
  | L (A "journal" :: A id :: L [A "bucket"; b] :: xacts) ->
    let bucket = (match atom b with "-" -> None | h -> Some (str_of_hex h)) in
    let cp0 _ = Z0 in
    let xs = List.map (function L (A "xact" :: ps) -> List.map (post_of cp0) ps | _ -> failwith "xact") xacts in
    let run ord =
      List.mapi (fun i r ->
          match r with
          | Ok (Accepted ps) -> Printf.sprintf "%s %d OK %s" id i (String.concat ";" (List.map show_post ps))
          | Ok Ignored -> Printf.sprintf "%s %d IGNORED" id i
          | Err e -> Printf.sprintf "%s %d ERR %s" id i (err_name e))
        (run_journal ord bucket [] xs) in
    let r1 = run false and r2 = run true in
    List.map2 (fun a b -> if a = b then a else
                  (let i = String.index_from a (String.index a ' ' + 1) ' ' in
                   String.sub a 0 i ^ " ORDER-DEPENDENT " ^ String.sub a (i + 1) (String.length a - i - 1) ^ " || " ^ b)) r1 r2
  | _ -> failwith "case"

let () = main_loop handle
