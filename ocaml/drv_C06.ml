(* C06 driver.
   (journal ID (bucket HEX|-) (xact XSTATE (post ACCTHEX KIND AMT COST LOT PSTATE ASSIGNED COMPUTED) ...) ...)
     XSTATE, PSTATE = U | C | P (PSTATE is the mark written on the posting line)
     AMT  = - | (NUM DEN PREC KEYHEX)
     COST = - | (u|t VIRT NUM DEN PREC SYMHEX)
     LOT  = - | (NUM DEN PREC SYMHEX)
     ASSIGNED = - | (NUM DEN PREC KEYHEX)
     COMPUTED = 1 when AMT is the amount ledger computes for a balance assignment (not written: teaches the pool nothing)
   -> per transaction i
        "ID i X OK rows" | "ID i X IGNORED" | "ID i X ERR class"    finalize of the journal as written
        "ID i L line" ...                                          print's decisions, one per printed posting
        "ID i P ERR class"                                         print fails on this transaction
        "ID i N"                                                   the transaction is not printed (all amounts display as zero)
        "ID i R OK rows" | "ID i R ERR class" | "ID i R IGNORED"   finalize of the re-read printed journal
        "ID i I SAME|DIFF"                                         decisions of printing the re-read journal again
      or "ID i ORDER-DEPENDENT" for a transaction on which the two hash-table orders disagree.
   (equity ID (pool (SYMHEX PREC) ...) (acct ACCTHEX KIND (NUM DEN PREC KEYHEX) ...) ...)
   -> "ID E ACCTHEX kind key:n/d;key:n/d" per account
   (layout ID (NAMELEN AMTLEN CALCULATED) ...) -> "ID W width blanks ..." (Model/Print.v account_width, sep_blanks) *)
let err_name = function
  | EUnbalanced -> "Unbalanced" | ETwoNulls -> "TwoNulls" | ENullLeft -> "NullLeft"
  | ECostSameComm -> "CostSameComm" | EDivZero -> "DivZero" | EDiffComm -> "DiffComm" | EAssertOff -> "AssertOff"
  | _ -> "Other"

let comm_of a = if a = "-" then None else Some (str_of_hex a)

let amt_of keep = function
  | L [n; d; p; k] -> Some { aq = h_qred (h_qmake (zatom n) (zatom d)); aprec = zatom p; akeep = keep; acomm = comm_of (atom k) }
  | A "-" -> None
  | _ -> failwith "amt"

let show_q (a : amount) =
  let q = h_qred a.aq in
  Printf.sprintf "%s:%s/%s" (match a.acomm with None -> "" | Some c -> string_of_str c)
    (string_of_z (h_qnum q)) (string_of_z (h_qden q))

let show_qp (a : amount) = Printf.sprintf "%s:%s" (show_q a) (string_of_z a.aprec)

let state_of = function "U" -> SUncleared | "C" -> SCleared | "P" -> SPending | _ -> failwith "state"
let show_state = function SUncleared -> "U" | SCleared -> "C" | SPending -> "P"
let show_kind = function PReal -> "R" | PVirtual -> "V" | PBalVirtual -> "B"

let xpost_of cp xs = function
  | L [A "post"; acct; A kind; amt; cost; lot; A pstate; assigned; _computed] ->
    let a = amt_of false amt in
    let lotp = amt_of true lot in
    let c, full, virt = (match cost, a with
        | A "-", _ -> None, false, false
        | L [A "u"; v; n; d; p; k], Some a' ->
          (match amt_of true (L [n; d; p; k]) with Some u -> Some (cost_per_unit cp u a'), false, batom v | None -> None, false, false)
        | L [A "t"; v; n; d; p; k], Some a' ->
          (match amt_of true (L [n; d; p; k]) with Some t -> Some (cost_total t a'), true, batom v | None -> None, false, false)
        | _ -> failwith "cost") in
    let st = (match state_of pstate with SUncleared -> xs | s -> s) in
    ({ p_acct = str_of_hex (atom acct);
       p_kind = (match kind with "R" -> PReal | "V" -> PVirtual | "B" -> PBalVirtual | _ -> failwith "kind");
       p_amt = a; p_cost = c; p_lotprice = lotp;
       p_calculated = false; p_generated = false; p_cost_calculated = false },
     { e_state = st; e_given = c; e_in_full = full; e_cost_virtual = virt; e_assigned = amt_of false assigned })
  | _ -> failwith "post"

let show_row (p : post) =
  let amt = (match p.p_amt with Some a -> show_q a | None -> "null") in
  let cost = (match p.p_cost with Some c -> show_q c | None -> amt) in
  Printf.sprintf "%s,%s,%s,%s" (string_of_str p.p_acct) (match p.p_kind with PReal -> "r" | _ -> "v") amt cost

let show_line (l : pline) =
  Printf.sprintf "%s|%s|%s|%s|%s|%s|%s" (hex_of_str l.l_acct) (show_kind l.l_kind) (show_state l.l_mark)
    (match l.l_amt with Some a -> show_qp a | None -> "-")
    (match l.l_lot with Some a -> show_q a | None -> "-")
    (match l.l_cost with
     | Some ((m, v), a) -> (match m with CPerUnit -> "u" | CTotal -> "t") ^ (if v then "v" else "") ^ " " ^ show_qp a
     | None -> "-")
    (match l.l_assigned with Some a -> show_qp a | None -> "-")

let show_outcome tag id i = function
  | Ok (Accepted ps) -> Printf.sprintf "%s %d %s OK %s" id i tag (String.concat ";" (List.map show_row ps))
  | Ok Ignored -> Printf.sprintf "%s %d %s IGNORED" id i tag
  | Err e -> Printf.sprintf "%s %d %s ERR %s" id i tag (err_name e)

let final_pool xs = List.fold_left (fun pl x -> learn_posts pl x) [] xs

(* the amounts of a transaction that were PARSED (they teach the pool): written posting amounts and assigned
   amounts, not the amount computed for a balance assignment *)
let learn_view (l : ((post * extra) * bool) list) : post list =
  List.concat (List.map (fun ((p, e), computed) ->
      (if computed then [] else [p]) @
      (match e.e_assigned with
       | Some a -> [{ p with p_amt = Some { a with akeep = false }; p_cost = None }]
       | None -> [])) l)

let journal ord id bucket (xacts0 : (pstate * (post * extra) list * bool list) list) : string list =
  let xacts = List.map (fun (s, l, _) -> (s, l)) xacts0 in
  let xs = List.map (fun (_, l) -> List.map fst l) xacts in
  let lxs = List.map (fun (_, l, c) -> learn_view (List.combine l c)) xacts0 in
  let outs = run_journal_l ord bucket [] (List.combine lxs xs) in
  let cp = cp_of (final_pool lxs) in
  let out = ref [] in
  let emit s = out := s :: !out in
  List.iteri (fun i o -> emit (show_outcome "X" id i o)) outs;
  (* print: decisions per accepted transaction, with the pool as it is after the whole journal *)
  let printed = List.mapi (fun i ((xst, l), o) ->
      match o with
      | Ok (Accepted ps') when not (xact_printed cp ps') ->
        emit (Printf.sprintf "%s %d N" id i); None
      | Ok (Accepted ps') ->
        (match decide cp xst (attach ps' (List.map snd l)) with
         | Ok ls -> List.iter (fun ln -> emit (Printf.sprintf "%s %d L %s" id i (show_line ln))) ls; Some (i, xst, ls)
         | Err e -> emit (Printf.sprintf "%s %d P ERR %s" id i (err_name e)); None)
      | _ -> None) (List.combine xacts outs) in
  let printed = List.filter_map (fun x -> x) printed in
  (* the reader on the printed text: a fresh journal, its own pool *)
  let cp0 _ = Z0 in
  let re = List.map (fun (i, xst, ls) -> (i, xst, reread cp0 xst ls)) printed in
  let rxs = List.map (fun (_, _, l) -> List.map fst l) re in
  let rlxs = List.map (fun (_, _, l) -> learn_view (List.map (fun x -> (x, false)) l)) re in
  (* every amount of the printed text is written and every `= A` is an assertion: the journal loop of Model/Assert.v
     (pool learning posting by posting, assertions on the running account totals, display-zero test) *)
  let routs = run_journal_a ord false [] []
      (List.map (fun (_, _, l) -> List.map (fun (p, e) -> { w_post = p; w_assigned = e.e_assigned }) l) re) in
  ignore rxs;
  let rcp = cp_of (final_pool rlxs) in
  List.iter2 (fun (i, xst, l) o ->
      emit (show_outcome "R" id i o);
      (match o with
       | Ok (Accepted ps'') ->
         let orig = List.assoc i (List.map (fun (j, _, ls) -> (j, ls)) printed) in
         (match decide rcp xst (attach ps'' (List.map snd l)) with
          | Ok ls2 -> emit (Printf.sprintf "%s %d I %s" id i
                              (if List.map show_line ls2 = List.map show_line orig then "SAME" else "DIFF " ^ String.concat " ;; " (List.map show_line ls2)))
          | Err e -> emit (Printf.sprintf "%s %d I ERR %s" id i (err_name e)))
       | _ -> ())) re routs;
  List.rev !out

let handle line =
  match parse_sexp line with
  | L (A "journal" :: A id :: L [A "bucket"; b] :: xacts) ->
    let bucket = (match atom b with "-" -> None | h -> Some (str_of_hex h)) in
    let cp0 _ = Z0 in
    let xs = List.map (function
        | L (A "xact" :: A xst :: ps) ->
          let s = state_of xst in
          (s, List.map (xpost_of cp0 s) ps,
           List.map (function L l -> (match List.rev l with c :: _ -> batom c | [] -> false) | _ -> false) ps)
        | _ -> failwith "xact") xacts in
    let r1 = journal false id bucket xs and r2 = journal true id bucket xs in
    if r1 = r2 then r1 else begin
      (* keep the transactions on which both hash-table orders agree; mark the others *)
      let idx l = (match String.split_on_char ' ' l with _ :: i :: _ -> int_of_string i | _ -> -1) in
      let group r i = List.filter (fun l -> idx l = i) r in
      let n = List.length xs in
      List.concat (List.init n (fun i ->
          let a = group r1 i and b = group r2 i in
          if a = b then a else [Printf.sprintf "%s %d ORDER-DEPENDENT" id i]))
    end
  | L (A "equity" :: A id :: L (A "pool" :: pool) :: accts) ->
    let pl = List.map (function L [s; p] -> (str_of_hex (atom s), zatom p) | _ -> failwith "pool") pool in
    let cp = cp_of pl in
    List.map (function
        | L (A "acct" :: acct :: A kind :: amts) ->
          let k = (match kind with "R" -> PReal | "V" -> PVirtual | "B" -> PBalVirtual | _ -> failwith "kind") in
          let l = List.filter_map (amt_of false) amts in
          let run ord = (match equity_account_reread ord cp (str_of_hex (atom acct)) k l with
              | Ok ps -> String.concat ";" (List.sort compare (List.map (fun p -> match p.p_amt with Some a -> show_q a | None -> "null") ps))
              | Err e -> "ERR " ^ err_name e) in
          let a = run false and b = run true in
          Printf.sprintf "%s E %s %s %s" id (atom acct) kind (if a = b then a else "ORDER-DEPENDENT")
        | _ -> failwith "acct") accts
  | L (A "layout" :: A id :: posts) ->
    (* (layout ID (NAMELEN AMTLEN CALCULATED) ...) -> "ID W width blanks blanks ..." : the account column and, per posting
       line, the number of blanks print writes between the account name and what follows *)
    let l = List.map (function L [n; a; c] -> (zatom n, zatom a, batom c) | _ -> failwith "layout") posts in
    let w = account_width (List.map (fun (n, _, _) -> n) l) in
    [Printf.sprintf "%s W %s %s" id (string_of_z w)
       (String.concat " " (List.map (fun (n, a, c) -> string_of_z (posting_blanks c w n a)) l))]
  | _ -> failwith "case"

let () = main_loop handle
