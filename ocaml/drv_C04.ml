(* C04 driver.
   (journal ID ITEM ...) | (journal-dc ID ITEM ...): the same journal read and reported with --decimal-comma   ITEM = TEXTHEX, the amount of a posting as written, in file order, or (fmt TEXTHEX): a format directive
   -> for every amount i: "ID i <hex printed text>|<rational>|<hex text of a/7>|<rational of a/7>|<hex text of a*0.333>|<rational>|<hex report-column text>"
      or "ID i E" when the reader rejects the text. *)
let pow10 p = let rec go acc k = if k = 0 then acc else go (h_mul acc z10) (k - 1) in go (z_of_int 1) (int_of_z p)

let show_rat (a : amount) =
  let q = h_qred a.aq in
  Printf.sprintf "A:%s:%s/%s:%s:%d" (match a.acomm with None -> "" | Some c -> hex_of_str c)
    (string_of_z (h_qnum q)) (string_of_z (h_qden q)) (string_of_z a.aprec) (if a.akeep then 1 else 0)

let no_style = { st_suffixed = false; st_separated = false; st_thousands = false; st_decimal_comma = false }

let handle line =
  match parse_sexp line with
  | L (A kind :: A id :: texts) when kind = "journal" || kind = "journal-dc" ->
    let dcd = (kind = "journal-dc") in      (* commodity_t::decimal_comma_by_default *)
    (* an item is the text of a posting amount, or (fmt TEXT): a `commodity SYM / format TEXT` directive at that place *)
    let items = List.map (function L [A "fmt"; t] -> (true, str_of_hex (atom t)) | t -> (false, str_of_hex (atom t))) texts in
    let pool : (string * finfo) list ref = ref [] in
    let lookup_f sym = try List.assoc sym !pool with Not_found -> { fi_info = { ci_prec = Z0; ci_style = no_style }; fi_fixed = false } in
    let lookup sym = (lookup_f sym).fi_info in
    (* first pass: parse in file order, teaching the pool *)
    let parsed_all = List.map (fun (is_fmt, t) ->
        match split_amount t with
        | Err _ -> (is_fmt, None)
        | Ok ap ->
          let sym = string_of_str ap.ap_sym in
          let dc0 = (lookup sym).ci_style.st_decimal_comma in
          (match parse_amount_text_session dcd dc0 t with
           | Err _ -> (is_fmt, None)
           | Ok pa ->
             if sym <> "" then begin
               let fi = (if is_fmt then fix_format else learn_f) (lookup_f sym) pa.pa_prec pa.pa_style in
               pool := (sym, fi) :: List.remove_assoc sym !pool
             end;
             (is_fmt, Some pa))) items in
    let parsed = List.map snd (List.filter (fun (is_fmt, _) -> not is_fmt) parsed_all) in
    let cp c = (lookup (string_of_str c)).ci_prec in
    List.mapi (fun i p ->
        match p with
        | None -> Printf.sprintf "%s %d E" id i
        | Some pa ->
          let sym = string_of_str pa.pa_sym in
          let a = { aq = h_qred (h_qmake pa.pa_num (pow10 pa.pa_prec)); aprec = pa.pa_prec; akeep = false;
                    acomm = (if sym = "" then None else Some pa.pa_sym) } in
          let st = if sym = "" then no_style else (lookup sym).ci_style in
          let txt x = hex_of_str (amount_text_session dcd cp st x) in
          let seven = { aq = h_qmake (z_of_int 7) (z_of_int 1); aprec = Z0; akeep = false; acomm = None } in
          let third = { aq = h_qmake (z_of_int 333) (z_of_int 1000); aprec = z_of_int 3; akeep = false; acomm = None } in
          let d7 = (match amt_div cp a seven with Ok x -> x | Err _ -> a) in
          let m3 = amt_mul cp a third in
          Printf.sprintf "%s %d %s|%s|%s|%s|%s|%s|%s" id i (txt a) (show_rat a) (txt d7) (show_rat d7) (txt m3) (show_rat m3)
            (hex_of_str (value_column_text_session dcd cp st a)))
      parsed
  | _ -> failwith "case"

let () = main_loop handle
