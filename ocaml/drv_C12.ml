(* C12 driver.
   (case ID (file NAME LINE...) (file NAME LINE...) ...) -> one result line
     "ID status=S errors=N report=0|1 clean=0|1 msgs=M;M;..."   with
     M = CHAIN>FILE:LINE:KIND:RANGE, CHAIN = f:l,f:l (outermost first, may be empty), RANGE = a-b or -
   LINE: e (empty) | w (blanks only) | (s K) indented, K = -1: parses, else throws class K
       | (i T B F) unindented item: T head throw class or -1, B 1 = block, F whole-item rejection class or -1
       | (inc NAME LINE...) include of file NAME with its lines
   (status N) -> "status N S" with S the exit status the parent sees for an error count of N *)
let opt_of z = if int_of_string z < 0 then None else Some (z_of_string z)

let rec line_of = function
  | A "e" -> LEmpty
  | A "w" -> LWs
  | L [A "s"; A k] -> LSub (opt_of k)
  | L [A "i"; A t; b; A f] -> LItem (opt_of t, batom b, opt_of f)
  | L (A "inc" :: A name :: body) -> LInclude (z_of_string name, List.map line_of body)
  | _ -> failwith "line"

let file_of = function
  | L (A "file" :: A name :: body) -> (z_of_string name, List.map line_of body)
  | _ -> failwith "file"

let show_msg (m : msg) : string =
  let chain = String.concat "," (List.map (fun (f, l) -> string_of_z f ^ ":" ^ string_of_z l) m.m_chain) in
  let rng = (match m.m_range with None -> "-" | Some (a, b) -> string_of_z a ^ "-" ^ string_of_z b) in
  Printf.sprintf "%s>%s:%s:%s:%s" chain (string_of_z m.m_file) (string_of_z m.m_line) (string_of_z m.m_kind) rng

let handle line =
  match parse_sexp line with
  | L (A "case" :: A id :: files) ->
    let fs = List.map file_of files in
    let r = session fs in
    let clean = List.for_all (fun (_, ls) -> file_clean ls) fs in
    [Printf.sprintf "%s status=%s errors=%s report=%d clean=%d msgs=%s" id
       (string_of_z r.r_status) (string_of_z r.r_errors) (if r.r_report then 1 else 0)
       (if clean then 1 else 0)
       (String.concat ";" (List.map show_msg r.r_msgs))]
  | L [A "status"; A n] ->
    ["status " ^ n ^ " " ^ string_of_z (h_mod (status_of_count (z_of_string n)) (z_of_int 256))]
  | _ -> failwith "case"

let () = main_loop handle
