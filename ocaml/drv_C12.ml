(* C12 driver.
   (case ID (opts STRICT PEDANTIC PERMISSIVE CHECKPAYEES) (file NAME LINE...) ...) -> one result line
     "ID status=S errors=N report=0|1 clean=0|1 style=STYLE msgs=M;M;..."   with
     M = CHAIN>FILE:LINE:KIND:RANGE, CHAIN = f:l,f:l (outermost first, may be empty), RANGE = a-b or -
     STYLE = normal | permissive | warning | error (journal->checking_style for these options)
   LINE: e (empty) | w (blanks only)
       | (s ANN...) indented line with the checks made on it, in order
       | (i (ANN...) B (ANN...)) unindented item: checks on the head line, B 1 = block, checks when
         the whole item is accepted (finalize, then metadata)
       | (inc NAME LINE...) include of file NAME with its lines
       | (cmt CLOSED C...) a `comment` / `test` block: its head line, then the physical lines it
         swallows, C = e (empty) | w (blanks only) | t (text); CLOSED 1 = an end-marker line follows
       | long               an unindented line longer than the line buffer
     the first LINE of a file (of an inc) may be the atom `bom`: the file starts with EF BB BF
   ANN:  K            rejected with class K whatever the options
       | (u NK K)     uses an undeclared name, NK = acct | comm | tag | payee
       | (b K)        a balance assertion that is off
       | (uc POS K)   an undeclared commodity as POS = cost | lotprice | assigned
   (status N) -> "status N S" with S the exit status the parent sees for an error count of N *)
let nk_of = function
  | "acct" -> NAccount | "comm" -> NCommodity | "tag" -> NTag | "payee" -> NPayee
  | _ -> failwith "name kind"

let ann_of = function
  | A k -> AThrow (z_of_string k)
  | L [A "u"; A nk; A k] -> AUnknown (nk_of nk, z_of_string k)
  | L [A "b"; A k] -> ABalAssert (z_of_string k)
  | L [A "uc"; A pos; A k] ->
    AUnknownAt ((match pos with "cost" -> PCost | "lotprice" -> PLotPrice | "assigned" -> PAssigned
                                | _ -> failwith "position"), z_of_string k)
  | _ -> failwith "ann"

let rec line_of = function
  | A "e" -> RLEmpty
  | A "w" -> RLWs
  | L (A "s" :: anns) -> RLSub (List.map ann_of anns)
  | L [A "i"; L t; b; L f] -> RLItem (List.map ann_of t, batom b, List.map ann_of f)
  | L (A "inc" :: A name :: body) -> RLInclude (z_of_string name, List.map line_of body)
  | _ -> failwith "line"

let cline_of = function
  | A "e" -> CEmpty | A "w" -> CWs | A "t" -> CText
  | _ -> failwith "comment line"

let split_bom = function
  | A "bom" :: rest -> (true, rest)
  | l -> (false, l)

(* the reader of Model/ErrorsReader.v over the lines of Model/Errors.v resolved under the options *)
let rec xline_of o = function
  | A "long" -> XLong
  | L (A "cmt" :: closed :: body) -> XComment (List.map cline_of body, batom closed)
  | L (A "inc" :: A name :: body) ->
    let (bom, body) = split_bom body in
    XInclude (z_of_string name, bom, List.map (xline_of o) body)
  | x -> XPlain (resolve o (line_of x))

let file_of o = function
  | L (A "file" :: A name :: body) ->
    let (bom, body) = split_bom body in
    ((z_of_string name, bom), List.map (xline_of o) body)
  | _ -> failwith "file"

(* "every item is valid" is judged on the lines a reader that strips the mark would see *)
let ideal_rd = { rd_bom = z_of_int 1; rd_long_counted = true; rd_long_recovers = true }

let show_msg (m : msg) : string =
  let chain = String.concat "," (List.map (fun (f, l) -> string_of_z f ^ ":" ^ string_of_z l) m.m_chain) in
  let rng = (match m.m_range with None -> "-" | Some (a, b) -> string_of_z a ^ "-" ^ string_of_z b) in
  Printf.sprintf "%s>%s:%s:%s:%s" chain (string_of_z m.m_file) (string_of_z m.m_line) (string_of_z m.m_kind) rng

let style_name = function
  | SNormal -> "normal" | SPermissive -> "permissive" | SWarning -> "warning" | SError -> "error"

let handle line =
  match parse_sexp line with
  | L (A "case" :: A id :: L [A "opts"; s; p; m; c] :: files) ->
    let o = { o_strict = batom s; o_pedantic = batom p; o_permissive = batom m; o_check_payees = batom c } in
    let fs = List.map (file_of o) files in
    let r = run_xsession fs in
    let clean = List.for_all (fun (_, ls) -> file_clean ls) (expand_files ideal_rd fs) in
    [Printf.sprintf "%s status=%s errors=%s report=%d clean=%d style=%s msgs=%s" id
       (string_of_z r.r_status) (string_of_z r.r_errors) (if r.r_report then 1 else 0)
       (if clean then 1 else 0) (style_name (checking_style o))
       (String.concat ";" (List.map show_msg r.r_msgs))]
  | L [A "status"; A n] ->
    ["status " ^ n ^ " " ^ string_of_z (h_mod (status_of_count (z_of_string n)) (z_of_int 256))]
  | _ -> failwith "case"

let () = main_loop handle
