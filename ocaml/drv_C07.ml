(* C07 driver.
   (q ID MULTI (ARG...) (ext (TEXT EXPR)...))            -> "ID OK <hex printed predicate>" | "ID NONE" | "ID ERR"
   (f ID (posts POST...) (runs (run NAME LIMIT...)...))  -> one line per run:
        "ID NAME OK row;row;..."  (row = id|accounthex|num/den|commhex)  | "ID NAME ERR" | "ID NAME QERR"
   LIMIT = (e EXPR) | (qry MULTI (ARG...) (ext ...)) | (begin TXT D) | (end TXT D)
         | (flag cleared|uncleared|pending|real|actual) | (current TXT) | (now N)
         | (period B E)   B, E = ~ or (TXT D): the bounds of the joined -p texts
   byte strings are hex, "-" = empty, "~" = absent *)
let hx a = if a = "-" then [] else str_of_hex a
let ohx a = if a = "~" then None else Some (hx a)
let xh l = match l with [] -> "-" | _ -> hex_of_str l

let value_of = function
  | L [A "void"] -> VVoid
  | L [A "bool"; b] -> VBool (batom b)
  | L [A "amt"; n; d; c] -> VAmt { a_q = h_qred (h_qmake (zatom n) (zatom d)); a_comm = hx (atom c) }
  | L [A "str"; s] -> VStr (hx (atom s))
  | L [A "date"; d] -> VDate (zatom d)
  | L [A "mask"; s] -> VMask (hx (atom s))
  | _ -> failwith "value"

let ident_of = function
  | "account" -> IAccount | "payee" -> IPayee | "code" -> ICode | "note" -> INote
  | "amount" -> IAmount | "date" -> IDate | "cleared" -> ICleared | "pending" -> IPending
  | "virtual" -> IVirtual | "real" -> IReal | "uncleared" -> IUncleared | "actual" -> IActual
  | _ -> failwith "ident"

let rec expr_of = function
  | L [A "id"; A n] -> EIdent (ident_of n)
  | L [A "const"; t; v] -> EConst (hx (atom t), value_of v)
  | L [A "match"; l; p] -> EMatch (expr_of l, hx (atom p))
  | L [A "tag"; p; v] -> EHasTag (hx (atom p), ohx (atom v))
  | L [A "cmp"; A o; l; r] ->
    let op = (match o with "==" -> CEq | "<" -> CLt | "<=" -> CLe | ">" -> CGt | ">=" -> CGe | _ -> failwith "cmpop") in
    ECmp (op, expr_of l, expr_of r)
  | L [A "not"; e] -> ENot (expr_of e)
  | L [A "and"; l; r] -> EAnd (expr_of l, expr_of r)
  | L [A "or"; l; r] -> EOr (expr_of l, expr_of r)
  | _ -> failwith "expr"

let ext_of = function
  | L (A "ext" :: l) ->
    let tbl = List.map (function L [t; e] -> (hx (atom t), expr_of e) | _ -> failwith "ext") l in
    (fun s -> match List.assoc_opt s tbl with Some e -> Ok e | None -> Err EBadOp)
  | _ -> failwith "ext"

let tags_of = function
  | L (A _ :: l) -> List.map (function L [k; v] -> (hx (atom k), ohx (atom v)) | _ -> failwith "tag") l
  | _ -> failwith "tags"

let state_of = function "c" -> SCleared | "p" -> SPending | _ -> SUncleared

let post_of = function
  | L [A "post"; id; acct; payee; code; note; xnote; tags; xtags; L [A "amt"; n; d; c]; date; xdate; A st; virt] ->
    { p_id = zatom id; p_account = hx (atom acct); p_payee = hx (atom payee); p_code = ohx (atom code);
      p_note = ohx (atom note); p_xnote = ohx (atom xnote); p_tags = tags_of tags; p_xtags = tags_of xtags;
      p_amount = { a_q = h_qred (h_qmake (zatom n) (zatom d)); a_comm = hx (atom c) };
      p_date = (if atom date = "~" then None else Some (zatom date)); p_xdate = zatom xdate;
      p_state = state_of st; p_virtual = batom virt }
  | _ -> failwith "post"

exception Qerr

type lim = Opt of contrib | Qry of expr option | Per of ((z list * z) option * (z list * z) option) | Now of z

let bound_of = function
  | A "~" -> None
  | L [t; d] -> Some (hx (atom t), zatom d)
  | _ -> failwith "bound"

let limit_of = function
  | L [A "e"; e] -> Opt (KLimit (expr_of e))
  | L [A "qry"; m; L args; ext] ->
    (match parse (ext_of ext) (batom m) (List.map (fun a -> hx (atom a)) args) with
     | Ok q -> Qry q
     | Err _ -> raise Qerr)
  | L [A "begin"; t; d] -> Opt (KBegin (hx (atom t), zatom d))
  | L [A "end"; t; d] -> Opt (KEnd (hx (atom t), zatom d))
  | L [A "flag"; A "cleared"] -> Opt KCleared
  | L [A "flag"; A "uncleared"] -> Opt KUncleared
  | L [A "flag"; A "pending"] -> Opt KPending
  | L [A "flag"; A "real"] -> Opt KReal
  | L [A "flag"; A "actual"] -> Opt KActual
  | L [A "current"; t] -> Opt (KCurrent (hx (atom t)))
  | L [A "now"; n] -> Now (zatom n)
  | L [A "period"; b; e] -> Per (bound_of b, bound_of e)
  | _ -> failwith "limit"

let show_post p =
  let q = h_qred p.p_amount.a_q in
  Printf.sprintf "%s|%s|%s/%s|%s" (string_of_z p.p_id) (xh p.p_account)
    (string_of_z (h_qnum q)) (string_of_z (h_qden q)) (xh p.p_amount.a_comm)

let handle line =
  match parse_sexp line with
  | L [A "q"; A id; m; L args; ext] ->
    (match parse (ext_of ext) (batom m) (List.map (fun a -> hx (atom a)) args) with
     | Ok (Some e) -> [id ^ " OK " ^ xh (print_expr e)]
     | Ok None -> [id ^ " NONE"]
     | Err _ -> [id ^ " ERR"])
  | L [A "f"; A id; L (A "posts" :: posts); L (A "runs" :: runs)] ->
    let ps = List.map post_of posts in
    List.map (function
        | L (A "run" :: A name :: limits) ->
          (try
             let ls = List.map limit_of limits in
             let opts = List.concat (List.map (function Opt k -> [k] | _ -> []) ls) in
             let query = List.fold_left (fun acc l -> match l with Qry q -> q | _ -> acc) None ls in
             let period = List.fold_left (fun acc l -> match l with Per p -> p | _ -> acc) (None, None) ls in
             let now = List.fold_left (fun acc l -> match l with Now n -> n | _ -> acc) (z_of_int 738000) ls in
             (match report_with now opts period query ps with
              | Ok r -> id ^ " " ^ name ^ " OK " ^ String.concat ";" (List.map show_post r)
              | Err _ -> id ^ " " ^ name ^ " ERR")
           with Qerr -> id ^ " " ^ name ^ " QERR")
        | _ -> failwith "run") runs
  | _ -> failwith "case"

let () = main_loop handle
