(* C14 driver.
   (p ID (EXTRAHEX ...) CY CM CD STRHEX OUTFMTHEX) ->
      "ID ok Y M D DN WDAY OUTHEX" | "ID err CLASS"
   EXTRA = the --input-date-format arguments in command-line order; (CY,CM,CD) = CURRENT_DATE();
   OUTHEX = format_date(date, OUTFMT) ("?" when the model does not cover OUTFMT);
   WDAY = weekday of the era-based day number (0 = Sunday), independent of boost's formula.
   (e ID CY CM CD (EVENT ...)) -> "ID y,m,d;y,m,d;..." the current date at each q event. *)
let err_name = function
  | DInvalid -> "Invalid" | DBadYear -> "BadYear" | DBadMonth -> "BadMonth"
  | DBadDayRange -> "BadDayRange" | DBadDay -> "BadDay" | DUnsupported -> "Unsupported"

let hexs a = if a = "-" then [] else str_of_hex a

let handle line =
  match parse_sexp line with
  | L [A "p"; A id; L extra; cy; cm; cd; A s; A ofmt] ->
    let extra = List.map (fun x -> hexs (atom x)) extra in
    (match parse_date extra ((zatom cy, zatom cm), zatom cd) (hexs s) with
     | DErr e -> [id ^ " err " ^ err_name e]
     | DOk dn ->
       let ((y, m), d) = boost_from_day_number dn in
       let out = (match format_date (hexs ofmt) dn with Some r -> (match hex_of_str r with "" -> "-" | h -> h) | None -> "?") in
       let wd = weekday (days_from_civil y m d) in
       [Printf.sprintf "%s ok %s %s %s %s %s %s" id (string_of_z y) (string_of_z m) (string_of_z d)
          (string_of_z dn) (string_of_z wd) out])
  | L [A "f"; A id; y; m; d; A ofmt] ->
    (* format a given civil date *)
    let dn = boost_day_number (zatom y) (zatom m) (zatom d) in
    [id ^ " " ^ (match format_date (hexs ofmt) dn with Some r -> (match hex_of_str r with "" -> "-" | h -> h) | None -> "?")]
  | L [A "e"; A id; cy; cm; cd; L evs] ->
    (* the current date at every transaction: events (y N) | end | q | fb (an included file begins) | fe (it ends) *)
    let ev = List.map (function
        | L [A "y"; n] -> JYear (zatom n) | A "end" -> JEnd | A "q" -> JQuery
        | A "fb" -> JFileBegin | A "fe" -> JFileEnd | _ -> failwith "event") evs in
    let st = { es_cur = ((zatom cy, zatom cm), zatom cd); es_stack = []; es_outer = [] } in
    [id ^ " " ^ String.concat ";" (List.map (fun ((y, m), d) ->
         Printf.sprintf "%s,%s,%s" (string_of_z y) (string_of_z m) (string_of_z d)) (run_events st ev))]
  | _ -> failwith "case"

let () = main_loop handle
