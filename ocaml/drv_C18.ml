(* C18 driver.
   (journal ID PATH AUXFLAG FMT XACTS ((VISITED ACCT) ...) ((FLAGS SYM ANNOT?) ...))   ANNOT? = () | (AMT DATE) -> "ID csv HEX" "ID csvd HEX" "ID emacs HEX" "ID xmlt HEX"
                                              "ID xmla HEX" "ID xmlc HEX"
     FMT   = ((default|rfc|bare date|code|payee|account|commodity|quantity|state|note) ...)
     XACTS = ((LINE Y M D AUXDATE? STATE CODE? PAYEE NOTE? META (POST ...)) ...)     DATE? = () | ((Y M D))
     POST  = (LINE VIRT STATE ACCT AMT COST? NOTE? DATE? AUXDATE? META-ON-THE-LINE META-ON-LATER-LINES)
     AMT   = (TEXT FLAGS SYM? QTY)          META = ((OVERWRITE KEY VALUE?) ...) in source order
     X?    = () | (HEX)        strings are hex, "-" is the empty string
   (enc ID HEX)   -> "ID enc EMACS CSVQ CSVRFC JOIN XML"          the escaping functions alone
   (xmlwalk ID)   -> "ID xmlwalk HEX"   76 = the xml report writes the VISITED postings of a transaction, 64 = the DISPLAYED ones, 3f = unrecognised source
   (read rfc|bs|xml|lisp|xmltags ID HEX) -> "ID read ..." what the reader specification recovers, or "ID read none" *)
let hx a = if a = "-" then [] else str_of_hex a
let out l = match hex_of_str l with "" -> "-" | h -> h
let opt = function L [] -> None | L [A h] -> Some (hx h) | _ -> failwith "opt"

let quoter = function
  | "default" -> QDefault | "rfc" -> QRfc | "bare" -> QBare | _ -> QUnrecognised
let field = function
  | "date" -> FDate | "code" -> FCode | "payee" -> FPayee | "account" -> FAccount
  | "commodity" -> FCommodity | "quantity" -> FQuantity | "state" -> FState | "note" -> FNote
  | _ -> FUnknown

let amt_of = function
  | L [A t; A f; s; A q] -> { a_text = hx t; a_flags = hx f; a_sym = opt s; a_qty = hx q }
  | _ -> failwith "amt"

let meta_of = function
  | L es -> List.map (function L [ow; A k; v] -> ((batom ow, hx k), opt v) | _ -> failwith "meta") es
  | _ -> failwith "meta list"

let date_opt = function
  | L [] -> None
  | L [L [y; m; d]] -> Some ((zatom y, zatom m), zatom d)
  | _ -> failwith "date"

let post_of = function
  | L [ln; v; st; A acct; a; c; n; pd; pa; mi; ml] ->
    { p_line = zatom ln; p_virtual = zatom v; p_state = zatom st; p_account = hx acct;
      p_amount = amt_of a;
      p_cost = (match c with L [] -> None | L [x] -> Some (amt_of x) | _ -> failwith "cost");
      p_note = opt n; p_date = date_opt pd; p_aux = date_opt pa; p_meta_inline = meta_of mi; p_meta_later = meta_of ml }
  | _ -> failwith "post"

let xact_of = function
  | L [ln; y; m; d; xa; st; c; A payee; n; xm; L posts] ->
    { x_line = zatom ln; x_year = zatom y; x_month = zatom m; x_day = zatom d; x_aux = date_opt xa; x_state = zatom st;
      x_code = opt c; x_payee = hx payee; x_note = opt n; x_meta = meta_of xm;
      x_posts = List.map post_of posts }
  | _ -> failwith "xact"

let rec show_sexp = function
  | SAtom s -> "a:" ^ out s
  | SStr s -> "s:" ^ out s
  | SList l -> "(" ^ String.concat " " (List.map show_sexp l) ^ ")"

let show_rows = function
  | None -> "none"
  | Some rows -> "rows " ^ String.concat ";" (List.map (fun r -> String.concat "," (List.map out r)) rows)

let handle line =
  match parse_sexp line with
  | L [A "journal"; A id; A path; aux; L fmt; L xacts; L accts; L comms] ->
    let aux = batom aux in
    let fmt = List.map (function L [A q; A f] -> (quoter q, field f) | _ -> failwith "fmt") fmt in
    let xs = List.map xact_of xacts in
    let accts = List.map (function L [v; A a] -> (batom v, hx a) | _ -> failwith "acct") accts in
    let comms = List.map (function
        | L [A f; A s; L []] -> ((hx f, hx s), None)
        | L [A f; A s; L [pr; A d]] -> ((hx f, hx s), Some (amt_of pr, hx d))
        | _ -> failwith "comm") comms in
    [ id ^ " csv " ^ out (csv_out aux fmt xs);
      id ^ " csvd " ^ out (csv_out aux src_csv_format xs);
      id ^ " emacs " ^ out (emacs_out aux (hx path) xs);
      id ^ " xmlt " ^ out (xml_transactions xs);
      id ^ " xmla " ^ out (xml_accounts accts);
      id ^ " xmlc " ^ out (xml_commodities comms) ]
  | L [A "enc"; A id; A h] ->
    let s = hx h in
    [ String.concat " " [id; "enc"; out (emacs_escape s); out (csv_quoted s); out (csv_quoted_rfc s);
                         out (join_lines s); out (xml_encode s)] ]
  | L [A "xmlwalk"; A id] -> [ id ^ " xmlwalk " ^ out xml_walk_name ]
  | L [A "read"; A what; A id; A h] ->
    let s = hx h in
    let r = (match what with
        | "rfc" -> show_rows (csv_read_rfc s)
        | "bs" -> show_rows (csv_read_bs s)
        | "xml" -> (match xml_decode s with None -> "none" | Some v -> "text " ^ out v)
        | "xmltags" ->
          (match xml_tags XsText s with
           | None -> "none"
           | Some evs ->
             (if well_nested [] evs then "nested " else "misnested ") ^
             String.concat " " (List.map (function XOpen k -> "o:" ^ out k | XClose k -> "c:" ^ out k
                                                 | XEmpty k -> "e:" ^ out k) evs))
        | "lisp" -> (match lisp_read s with None -> "none"
                                         | Some l -> "sexp " ^ String.concat " " (List.map show_sexp l))
        | _ -> failwith "read") in
    [ id ^ " read " ^ r ]
  | _ -> failwith "case"

let () = main_loop handle
