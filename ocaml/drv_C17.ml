(* C17 driver:
   (case ID (opts REAL STATE QUERY PQUERY GROUP COLLAPSE SORT HEAD TAIL) (posts POST...))
     QUERY (account pattern), PQUERY (payee pattern) = hex | "-"; GROUP = none|sub|payee|dow|payee+sub|dow+sub; COLLAPSE = depth | "-";
     SORT = "-" | ((INV KEY)...) with KEY = date|payee|account|amount; HEAD, TAIL = int | "-"
     POST = (XID DATE PAYEEHEX XPAYEEHEX ACCTHEX VIRT STATE NUM DEN PREC SYMHEX)
            PAYEE = post_t::payee() of the posting, XPAYEE = the payee of its transaction
   -> "ID OK row;row;..." | "ID UNSPEC" | "ID ERR"
      row = xid|date|payee|accthex|amount|total ; payee = N:hex | U:days | W:k | F:hex:days (strftime of the name for that date) *)
let show_amt (a : amount) : string =
  let q = h_qred a.aq in
  Printf.sprintf "A:%s:%s/%s:%s:%d"
    (match a.acomm with None -> "" | Some c -> hex_of_str c)
    (string_of_z (h_qnum q)) (string_of_z (h_qden q)) (string_of_z a.aprec)
    (if a.akeep then 1 else 0)

let show_value = function
  | VVoid -> "V:"
  | VBool b -> if b then "L:1" else "L:0"
  | VInt z -> "I:" ^ string_of_z z
  | VAmt a -> show_amt a
  | VBal b -> "B:" ^ String.concat ";" (List.sort compare (List.map show_amt b))

let opt_z a = if a = "-" then None else Some (z_of_string a)

let post_of = function
  | L [xid; d; py; xpy; ac; virt; st; n; dn; pr; sym] ->
    let c = (if atom sym = "-" then None else Some (str_of_hex (atom sym))) in
    { pxact = zatom xid; pdate = zatom d; pvdate = zatom d;
      ppayee = PName (if atom py = "-" then [] else str_of_hex (atom py));
      pxpayee = PName (if atom xpy = "-" then [] else str_of_hex (atom xpy));
      pacct = str_of_hex (atom ac); pvirt = batom virt; pstate = zatom st;
      pamt = VAmt { aq = h_qmake (zatom n) (zatom dn); aprec = zatom pr; akeep = false; acomm = c } }
  | _ -> failwith "post"

let key_of = function
  | "date" -> SDate | "payee" -> SPayee | "account" -> SAccount | "amount" -> SAmount
  | _ -> failwith "key"

let show_payee = function
  | PName s -> "N:" ^ hex_of_str s
  | PFmt (s, d) -> "F:" ^ hex_of_str s ^ ":" ^ string_of_z d
  | PUntil d -> "U:" ^ string_of_z d
  | PDow k -> "W:" ^ string_of_z k

let show_row (p, t) =
  String.concat "|" [string_of_z p.pxact; string_of_z p.pdate; show_payee p.ppayee;
                     hex_of_str p.pacct; show_value p.pamt; show_value t]

let handle line =
  match parse_sexp line with
  | L [A "case"; A id; L [A "opts"; real; st; q; pq; A grp; A coll; srt; A hd; A tl]; L (A "posts" :: posts)] ->
    let f = { f_real = batom real; f_state = zatom st;
              f_query = (if atom q = "-" then None else Some (str_of_hex (atom q)));
              f_payee = (if atom pq = "-" then None else Some (str_of_hex (atom pq))) } in
    let g = (match grp with "none" -> GNone | "sub" -> GSubtotal | "payee" -> GByPayee
                          | "dow" -> GDow | "payee+sub" -> GByPayeeSub | "dow+sub" -> GDowSub
                          | _ -> failwith "group") in
    let s = (match srt with
        | A "-" -> None
        | L ks -> Some (List.map (function L [inv; A k] -> (batom inv, key_of k) | _ -> failwith "sortkey") ks)
        | _ -> failwith "sort") in
    let o = { o_filt = f; o_group = g; o_collapse = opt_z coll; o_sort = s;
              o_head = opt_z hd; o_tail = opt_z tl } in
    let ps = List.map post_of posts in
    if not (report_determined o ps) then [id ^ " UNSPEC " ^ (match report o ps with Ok rows -> String.concat "!" (List.map show_row rows) | Err _ -> "ERR")]
    else (match report o ps with
        | Ok rows -> [id ^ " OK " ^ String.concat "!" (List.map show_row rows)]
        | Err _ -> [id ^ " ERR"])
  | _ -> failwith "case"

let () = main_loop handle
