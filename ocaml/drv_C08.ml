(* C08 driver (file trees; prints per-account balances and the final pool).
   (journal ID (bucket HEX|-) (xact (post ACCTHEX KIND AMT COST LOT) ...) ...)
     AMT  = - | (NUM DEN PREC KEYHEX)          KEYHEX = commodity key (symbol, or symbol~{lot}) or -
     COST = - | (u NUM DEN PREC SYMHEX) | (t NUM DEN PREC SYMHEX)
     LOT  = - | (NUM DEN PREC SYMHEX)
   -> one line per transaction: "ID i OK row;row;..." | "ID i IGNORED" | "ID i ERR class"
      row = acct,v|r,amt,cost,<calculated><generated><cost_calculated>
   evaluated under both hash-table insertion orders; differing results print ORDER-DEPENDENT. *)
let err_name = function
  | EUnbalanced -> "Unbalanced" | ETwoNulls -> "TwoNulls" | ENullLeft -> "NullLeft"
  | ECostSameComm -> "CostSameComm" | EDivZero -> "DivZero" | EDiffComm -> "DiffComm"
  | _ -> "Other"

let comm_of a = if a = "-" then None else Some (str_of_hex a)

let amt_of keep = function
  | L [n; d; p; k] -> Some { aq = h_qred (h_qmake (zatom n) (zatom d)); aprec = zatom p; akeep = keep; acomm = comm_of (atom k) }
  | A "-" -> None
  | _ -> failwith "amt"

let show_amt (a : amount) =
  let q = h_qred a.aq in
  Printf.sprintf "%s:%s/%s:%s:%d" (match a.acomm with None -> "" | Some c -> string_of_str c)
    (string_of_z (h_qnum q)) (string_of_z (h_qden q)) (string_of_z a.aprec) (if a.akeep then 1 else 0)

let post_of cp = function
  | L [A "post"; acct; A kind; amt; cost; lot] ->
    let a = amt_of false amt in
    let lotp = amt_of true lot in
    let c = (match cost, a with
        | A "-", _ -> None
        | L [A "u"; n; d; p; k], Some a' ->
          (match amt_of true (L [n; d; p; k]) with Some u -> Some (cost_per_unit cp u a') | None -> None)
        | L [A "t"; n; d; p; k], Some a' ->
          (match amt_of true (L [n; d; p; k]) with Some t -> Some (cost_total t a') | None -> None)
        | _ -> failwith "cost") in
    { p_acct = str_of_hex (atom acct);
      p_kind = (match kind with "R" -> PReal | "V" -> PVirtual | "B" -> PBalVirtual | _ -> failwith "kind");
      p_amt = a; p_cost = c; p_lotprice = lotp;
      p_calculated = false; p_generated = false; p_cost_calculated = false }
  | _ -> failwith "post"

let show_post (p : post) =
  let amt = (match p.p_amt with Some a -> show_amt a | None -> "null") in
  let cost = (match p.p_cost with Some c -> show_amt c | None -> amt) in
  Printf.sprintf "%s,%s,%s,%s,%d%d%d" (string_of_str p.p_acct)
    (match p.p_kind with PReal -> "r" | _ -> "v") amt cost
    (if p.p_calculated then 1 else 0) (if p.p_generated then 1 else 0) (if p.p_cost_calculated then 1 else 0)

let rec tree_of cp = function
  | L (A "xact" :: ps) -> FXact (List.map (post_of cp) ps)
  | L (A "include" :: items) -> FInclude (List.map (tree_of cp) items)
  | _ -> failwith "tree"

(* (layout ID MASTER (file ITEM ...) ...): the files named on the command line, MASTER = --master-account
     NAME = dot-separated segment numbers, "-" for the empty name
     ITEM = (x NAME ...) | (aa NAME) | (at TAG) | (end a|t|-) | (alias NAME NAME) | (bucket NAME) | (inc ITEM ...)
   -> "ID E <errors>", then per transaction "ID X <i> <NAME,NAME,..> <bucket NAME|-> <TAG,TAG,..|->" *)
let name_of s = if s = "-" then [] else List.map z_of_string (String.split_on_char '.' s)
let show_name n = if n = [] then "-" else String.concat "." (List.map string_of_z n)
let rec litem_of = function
  | L (A "x" :: names) -> LXact (List.map (fun n -> name_of (atom n)) names)
  | L [A "aa"; n] -> LApplyAccount (name_of (atom n))
  | L [A "at"; t] -> LApplyTag (zatom t)
  | L [A "end"; A k] -> LEnd (match k with "a" -> Some true | "t" -> Some false | _ -> None)
  | L [A "alias"; k; t] -> LAlias (name_of (atom k), name_of (atom t))
  | L [A "bucket"; n] -> LBucket (name_of (atom n))
  | L (A "inc" :: its) -> LInclude (List.map litem_of its)
  | _ -> failwith "layout item"
let rec int_of_nat = function O -> 0 | S n -> 1 + int_of_nat n

(* (files ID (xact ..)|(include ...) ...) ->
     "ID B <acct> <sorted amounts>" per account, "ID P <sym> <prec>" per commodity, "ID N <accepted postings>" *)
let handle line =
  match parse_sexp line with
  | L (A "layout" :: A id :: A master :: files) ->
    let fs = List.map (function L (A "file" :: its) -> List.map litem_of its | _ -> failwith "layout file") files in
    let (g, out) = read_journal (name_of master) fs in
    Printf.sprintf "%s E %d" id (int_of_nat g.g_errs) ::
    List.mapi (fun i r ->
        Printf.sprintf "%s X %d %s %s %s" id i (String.concat "," (List.map show_name r.rx_accts))
          (match r.rx_bucket with Some b -> show_name b | None -> "-")
          (if r.rx_tags = [] then "-" else String.concat "," (List.map string_of_z r.rx_tags))) out
  | L (A "glob" :: A id :: pat :: names) ->
    (* (glob ID PATTERNHEX NAMEHEX ...): which of the file names the include pattern reads -> "ID G NAMEHEX 0|1" *)
    let p = str_of_hex (atom pat) in
    List.map (fun n -> Printf.sprintf "%s G %s %d" id (atom n) (if include_matches p (str_of_hex (atom n)) then 1 else 0)) names
  | L (A "range" :: A id :: items) ->
    (* (range ID (LABELHEX DATE) ...): the postings of a report in the order they arrive, each with the label of its
       group and its date (yyyymmdd) -> "ID R * s f" for all of them, "ID R LABELHEX s f" per label *)
    let ps = List.map (function L [l; d] -> (str_of_hex (atom l), zatom d) | _ -> failwith "range item") items in
    let show lab = function
      | Some (s, f) -> Printf.sprintf "%s R %s %s %s" id lab (string_of_z s) (string_of_z f)
      | None -> Printf.sprintf "%s R %s - -" id lab in
    let labels = List.sort_uniq compare (List.map (fun (l, _) -> string_of_str l) ps) in
    show "*" (date_range (List.map snd ps)) ::
    List.map (fun l -> show (hex_of_string l) (group_range (str_of_string l) ps)) labels
  | L (A "files" :: A id :: items) ->
    let cp0 _ = Z0 in
    let top = List.map (tree_of cp0) items in
    let xs = List.concat (List.map flatten top) in
    let run ord =
      let bals = journal_balances ord None xs in
      let rows = List.map (fun (a, r) ->
          match r with
          | Ok v ->
            let b = (match v with VAmt a -> [a] | VBal b -> b | _ -> []) in
            Printf.sprintf "%s B %s %s" id (string_of_str a)
                      (String.concat ";" (List.sort compare (List.map show_amt (List.filter (fun x -> h_qnum x.aq <> Z0) b))))
          | Err e -> Printf.sprintf "%s B %s ERR %s" id (string_of_str a) (err_name e)) bals in
      let n = List.length (accepted_posts (run_journal ord None [] xs)) in
      List.sort compare rows @ [Printf.sprintf "%s N %d" id n] in
    let pool = final_pool xs in
    let prow = List.sort compare (List.map (fun (s, p) -> Printf.sprintf "%s P %s %s" id (string_of_str s) (string_of_z p)) pool) in
    let r1 = run false and r2 = run true in
    (if r1 = r2 then r1 else [id ^ " ORDER-DEPENDENT"]) @ prow
  | _ -> failwith "case"

let () = main_loop handle
