(* C10 driver: (case ID (ITEM...) QUERY) -> "ID RESULT"
   ITEM  = (P when src n d tgt) | (C xprim xaux pprim paux an ad ac total cn cd cc virt)
         | (I xprim xaux pprim paux xn xd xc yn yd yc)      dates are days, - when not written
         | (D c)                                a default commodity directive
         | (L src tgt D)                       a lookup made while the journal is read
   QUERY = (bal TGT D (NAME (n d c lot)...)...)        TGT = hex symbol, or - for -V
         | (balmemo TGT D (NAME (n d c lot)...)...)    through the memoising lookup
         | (pct TGT D (NAME ((n d c lot)...) ((n d c lot)...))...)   --percent: held, parent's held
         | (reg TGT (day n d c lot)...)
         | (prices D c...)
         | (via TGT D (NAME (n d c lot)...)...)        -X over a graph with several price paths:
                                                       NAME=balance~tie (tie = 1 when some holding's
                                                       conversion has two least-weight paths)
   commodities are hex strings, lot = hex or -                                         *)
let c_of x = str_of_hex (atom x)
let q_of n d = h_qmake (zatom n) (zatom d)

let zopt x = if atom x = "-" then None else Some (zatom x)
let dates_of xp xa pp pa = { x_prim = zatom xp; x_aux = zopt xa; p_prim = zopt pp; p_aux = zopt pa }

let item_of = function
  | L [A "P"; w; s; n; d; t] -> Some (JItem (IP (zatom w, c_of s, q_of n d, c_of t)))
  | L [A "C"; xp; xa; pp; pa; an; ad; ac; tot; cn; cd; cc; virt] ->
    Some (JItem (ICost (dates_of xp xa pp pa, q_of an ad, c_of ac, batom tot, q_of cn cd, c_of cc, batom virt)))
  | L [A "I"; xp; xa; pp; pa; xn; xd; xc; yn; yd; yc] ->
    Some (JItem (IImplied (dates_of xp xa pp pa, q_of xn xd, c_of xc, q_of yn yd, c_of yc)))
  | L [A "D"; c] -> Some (JItem (IDefault (c_of c)))
  | L [A "L"; s; t; d] -> Some (JLook (c_of s, c_of t, zatom d))
  | _ -> failwith "item"

let rec keep = function [] -> [] | Some x :: r -> x :: keep r | None :: r -> keep r
let plain js = keep (List.map (function JItem i -> Some i | JLook _ -> None) js)

let holding_of = function
  | L [n; d; c; lot] ->
    { hq = q_of n d; hc = c_of c; hlot = (if atom lot = "-" then None else Some (c_of lot)) }
  | _ -> failwith "holding"

let show_q q = let q = h_qred q in string_of_z (h_qnum q) ^ "/" ^ string_of_z (h_qden q)
let show_bal b =
  String.concat ";" (List.sort compare (List.map (fun (c, q) -> hex_of_str c ^ ":" ^ show_q q) b))
let tgt_of t = if atom t = "-" then None else Some (c_of t)

let handle line =
  match parse_sexp line with
  | L [A "case"; A id; L its; q] ->
    let js = keep (List.map item_of its) in
    let out = (match q with
        | L (A "bal" :: t :: d :: accts) ->
          String.concat " / " (List.map (function
              | L (A name :: hs) ->
                name ^ "=" ^ show_bal (bal_row (plain js) (List.map holding_of hs) (tgt_of t) (zatom d))
              | _ -> failwith "acct") accts)
        | L (A "pct" :: t :: d :: rows) ->
          String.concat " / " (List.map (function
              | L [A name; L hs; L ps] ->
                name ^ "=" ^ (match percent_row (plain js) (List.map holding_of hs) (List.map holding_of ps)
                                      (tgt_of t) (zatom d) with
                              | PErr -> "E"
                              | PVal q -> show_q q)
                ^ "~" ^ show_bal (percent_den (plain js) (List.map holding_of ps) (tgt_of t) (zatom d))
              | _ -> failwith "pct row") rows)
        | L (A "balmemo" :: t :: d :: accts) ->
          String.concat " / " (List.map (function
              | L (A name :: hs) ->
                name ^ "=" ^ show_bal (bal_row_memo js (List.map holding_of hs) (c_of t) (zatom d))
              | _ -> failwith "acct") accts)
        | L (A "via" :: t :: d :: accts) ->
          String.concat " / " (List.map (function
              | L (A name :: hs) ->
                let hs = List.map holding_of hs in
                name ^ "=" ^ show_bal (bal_row_via (plain js) hs (c_of t) (zatom d))
                ^ "~" ^ (if bal_row_via_tie (plain js) hs (c_of t) (zatom d) then "1" else "0")
              | _ -> failwith "acct") accts)
        | L (A "reg" :: t :: posts) ->
          let ps = List.map (function
              | L [day; n; d; c; lot] -> (zatom day, holding_of (L [n; d; c; lot]))
              | _ -> failwith "post") posts in
          String.concat " / " (List.map (fun (a, b) -> show_bal a ^ "|" ^ show_bal b)
                                 (reg_report (plain js) (tgt_of t) ps))
        | L (A "prices" :: d :: cs) ->
          let rows = prices_report (plain js) (List.map c_of cs) (zatom d) in
          String.concat " / " (List.sort compare (List.map (fun ((w, c), p) ->
              Printf.sprintf "%s %s %s %s" (string_of_z w) (hex_of_str c) (show_q p.pq) (hex_of_str p.pc)) rows))
        | _ -> failwith "query") in
    [id ^ " " ^ out]
  | _ -> failwith "case"

let () = main_loop handle
