(* C11 driver.  Cases (one S-expression per line) -> "ID result":
   (site ID IDX DELIMITED N)          -> ID cap=C ok=0/1 extent=E outcome=Complete|Rejected|Cut|Overrun kind=K
   (depth ID "((v+v))")               -> ID Ok D | ID Err      (nesting and token limits of the source)
   (limit ID WHICH N)                 -> ID within | ID over
   (fieldref ID KINDS N)              -> ID Found I | ID NoSuchField | ID BadIndex | ID Crash
   (alias ID RECURSIVE ((KEY TARGET) ...) NAME) -> ID Expanded NAME' | ID Cycle | ID NoEnd
   (unknown ID WHO NAME PAYEEHEX ((START END WORDHEX TARGET) ...)) -> ID Registered NAME' | ID NullDeref
                                         WHO = nopost | noxact | dated; names are ':'-separated words
   (width ID HEX COLUMNS)             -> ID width=W cut=0/1     (unistring::width as the source adds it up; truncate's test)
   (query ID D K)                     -> ID within | ID over   (K plain terms inside D nested parentheses)
   (div ID (pool (SYMHEX PREC)...) EXPR) -> ID <value as in drv_C03> | ID E:<err>
   (period ID Q N START DATE)         -> ID Ok S | ID Err:<class>
   (readinto ID SIZE DELIMCODE HEX)   -> ID <hex of the bytes stored, NUL excluded>
   (getline ID M N)                   -> ID stored=K fail=0/1
   (guards ID)                        -> ID depth_limit=none|L zero_guard=0/1 max_line=M getline=G nsites=K *)
let err_name = function
  | EDivZero -> "DivZero" | EDiffComm -> "DiffComm" | ENullAmt -> "NullAmt"
  | EBadOp -> "BadOp" | EBadDate -> "BadDate" | EOutOfFuel -> "Fuel" | _ -> "Other"

let comm_of_atom a = if a = "-" then None else Some (str_of_hex a)

let show_amt (a : amount) : string =
  let q = h_qred a.aq in
  Printf.sprintf "A:%s:%s/%s:%s:%d"
    (match a.acomm with None -> "" | Some c -> hex_of_str c)
    (string_of_z (h_qnum q)) (string_of_z (h_qden q)) (string_of_z a.aprec)
    (if a.akeep then 1 else 0)

let show_value = function
  | VVoid -> "V:"
  | VBool b -> if b then "L:1" else "L:0"
  | VInt z -> "I:" ^ string_of_z z
  | VAmt a -> show_amt a
  | VBal b -> "B:" ^ String.concat ";" (List.sort compare (List.map show_amt b))

let rec expr_of = function
  | L [A "lit"; n; d; p; k; c] ->
    ELit { aq = h_qmake (zatom n) (zatom d); aprec = zatom p; akeep = batom k; acomm = comm_of_atom (atom c) }
  | L [A "int"; z] -> EInt (zatom z)
  | L [A "neg"; e] -> ENeg (expr_of e)
  | L [A "abs"; e] -> EAbs (expr_of e)
  | L [A "bin"; A o; l; r] ->
    let op = (match o with
        | "+" -> OAdd | "-" -> OSub | "*" -> OMul | "/" -> ODiv | "==" -> OEq | "<" -> OLt
        | ">" -> OGt | "<=" -> OLe | ">=" -> OGe | "!=" -> ONe | _ -> failwith "op") in
    EBin (op, expr_of l, expr_of r)
  | _ -> failwith "expr"

let kind_name = function
  | ReadInto _ -> "ReadInto" | ReadIntoSigned _ -> "ReadIntoSigned" | StrcpyGuarded _ -> "StrcpyGuarded"
  | StrcpyLiteral _ -> "StrcpyLiteral" | StrcpyLine _ -> "StrcpyLine" | StrcpyUnguarded -> "StrcpyUnguarded"
  | StrncpyBounded _ -> "StrncpyBounded" | StrncpyUnguarded -> "StrncpyUnguarded" | Getline _ -> "Getline"
  | WriteAtMost _ -> "WriteAtMost" | WriteExactly _ -> "WriteExactly" | PtrLoopBounded _ -> "PtrLoopBounded"
  | PtrLoopUnbounded -> "PtrLoopUnbounded" | CopyGuarded (_, _) -> "CopyGuarded"
  | IndexLoopBounded (_, _) -> "IndexLoopBounded" | IndexLoopUnbounded _ -> "IndexLoopUnbounded" | Unrecognised -> "Unrecognised"

let outcome_name = function
  | Complete -> "Complete" | Rejected -> "Rejected" | Cut -> "Cut" | Overrun -> "Overrun"

let toks_of (s : string) : tok list =
  (* `(`, `)`, `+` are tokens; a run of other characters is one terminal (the number 11) *)
  let n = String.length s in
  let rec go i in_val acc =
    if i >= n then List.rev acc
    else match s.[i] with
      | '(' -> go (i + 1) false (TLp :: acc)
      | ')' -> go (i + 1) false (TRp :: acc)
      | '+' -> go (i + 1) false (TOp :: acc)
      | ' ' -> go (i + 1) false acc
      | _ -> if in_val then go (i + 1) true acc else go (i + 1) true (TVal :: acc) in
  go 0 false []

let quantum_of = function
  | "days" -> Days | "weeks" -> Weeks | "months" -> Months | "quarters" -> Quarters
  | "years" -> Years | _ -> failwith "quantum"

let handle line =
  match parse_sexp line with
  | L [A "site"; A id; idx; delim; n] ->
    let (cap, w) = List.nth site_table (iatom idx) in
    let nn = zatom n in
    [Printf.sprintf "%s cap=%s ok=%d extent=%s outcome=%s kind=%s" id
       (string_of_z cap) (if write_ok cap w then 1 else 0)
       (string_of_z (extent w nn))
       (outcome_name (outcome_of cap w (batom delim) nn))
       (kind_name w)]
  | L [A "depth"; A id; A text] ->
    (match parse_guarded src_parse_depth_limit src_expr_token_limit (toks_of text) with
     | Ok d -> [id ^ " Ok " ^ string_of_z d]
     | Err _ -> [id ^ " Err"])
  | L [A "div"; A id; L (A "pool" :: pool); e] ->
    let tbl = List.map (function L [A s; p] -> (str_of_hex s, zatom p) | _ -> failwith "pool") pool in
    let cp c =
      let s = string_of_str c in
      let base = (match String.index_opt s '~' with Some i -> String.sub s 0 i | None -> s) in
      (try List.assoc (str_of_string base) tbl with Not_found -> Z0) in
    let ex = expr_of e in
    let run ord = (match aeval ord cp ex with Ok v -> show_value v | Err e -> "E:" ^ err_name e) in
    let r1 = run false and r2 = run true in
    if r1 = r2 then [id ^ " " ^ r1] else [id ^ " ORDER-DEPENDENT " ^ r1 ^ " | " ^ r2]
  | L [A "limit"; A id; A which; n] ->
    let lim = (match which with
        | "query-depth" -> src_query_depth_limit | "query-terms" -> src_query_term_limit
        | "roundto-places" -> src_roundto_places_limit | "expr-depth" -> src_parse_depth_limit
        | "expr-tokens" -> src_expr_token_limit | _ -> failwith "limit") in
    [id ^ (if within_limit lim (zatom n) then " within" else " over")]
  | L [A "query"; A id; d; k] ->
    [id ^ (if query_accept src_query_depth_limit src_query_term_limit (zatom d) (zatom k) then " within" else " over")]
  | L [A "fieldref"; A id; A kinds; n] ->
    (* kinds: a string over E (EXPR element) and S (STRING element), "-" for an empty template *)
    let ks = if kinds = "-" then [] else List.init (String.length kinds) (fun i -> if kinds.[i] = 'E' then KExpr else KString) in
    (match field_ref src_format_field_ref_guard (number_from (z_of_int 1) ks) (zatom n) with
     | Found (_, i) -> [id ^ " Found " ^ string_of_z i]
     | NoSuchField -> [id ^ " NoSuchField"] | BadIndex -> [id ^ " BadIndex"] | Crash -> [id ^ " Crash"])
  | L [A "alias"; A id; recursive; L table; A name] ->
    (* names are ':'-separated words; every distinct word is a segment number *)
    let segs : (string, int) Hashtbl.t = Hashtbl.create 16 in
    let back : (int, string) Hashtbl.t = Hashtbl.create 16 in
    let seg w = (match Hashtbl.find_opt segs w with
        | Some i -> i
        | None -> let i = Hashtbl.length segs + 1 in Hashtbl.add segs w i; Hashtbl.add back i w; i) in
    let nm s = List.map (fun w -> z_of_int (seg w)) (String.split_on_char ':' s) in
    let tbl = List.map (function L [A k; A t] -> (nm k, nm t) | _ -> failwith "alias table") table in
    (match expand src_alias_records_what_it_looks_up (batom recursive) tbl (nm name) with
     | Expanded n -> [id ^ " Expanded " ^ String.concat ":" (List.map (fun z -> Hashtbl.find back (int_of_z z)) n)]
     | Cycle -> [id ^ " Cycle"]
     | NoEnd -> [id ^ " NoEnd"])
  | L [A "unknown"; A id; A who; A name; A payee; L table] ->
    let nm s = List.map str_of_string (String.split_on_char ':' s) in
    let show a = String.concat ":" (List.map string_of_str a) in
    let maps = List.map (function
        | L [st; en; A w; A t] -> ({ at_start = batom st; at_end = batom en; word = (if w = "-" then [] else str_of_hex w) }, nm t)
        | _ -> failwith "unknown table") table in
    let reg = (match who with
        | "nopost" -> NoPost | "noxact" -> PostNoXact
        | "dated" -> PostIn (if payee = "-" then [] else str_of_hex payee) | _ -> failwith "unknown who") in
    (match register_unknown src_unknown_payee_tests_post_and_xact (nm name) maps reg with
     | Registered a -> [id ^ " Registered " ^ show a]
     | NullDeref -> [id ^ " NullDeref"])
  | L [A "width"; A id; A hex; cols] ->
    let s = if hex = "-" then [] else str_of_hex hex in
    [Printf.sprintf "%s width=%s cut=%d" id (string_of_z (ustr_width src_unistring_width_clamps_negative s))
       (if is_cut src_unistring_width_clamps_negative s (zatom cols) then 1 else 0)]
  | L [A "period"; A id; A q; n; start; date] ->
    (match period_start src_period_zero_guard (quantum_of q) (zatom n) (zatom start) (zatom date) with
     | Ok s -> [id ^ " Ok " ^ string_of_z s]
     | Err e -> [id ^ " Err:" ^ err_name e])
  | L [A "readinto"; A id; size; delim; A hex] ->
    let d = zatom delim in
    let inp = if hex = "-" then [] else str_of_hex hex in
    let out = read_into (fun c -> not (h_eqb c d)) (zatom size) inp in
    (* drop the terminating NUL *)
    let body = List.rev (List.tl (List.rev out)) in
    [id ^ " " ^ (if body = [] then "-" else hex_of_str body)]
  | L [A "getline"; A id; m; n] ->
    let inp = List.init (iatom n) (fun _ -> z_of_int 97) in
    let (stored, fail) = getline_store (zatom m) inp in
    [Printf.sprintf "%s stored=%d fail=%d" id (List.length stored) (if fail then 1 else 0)]
  | L [A "guards"; A id] ->
    let o = function None -> "none" | Some l -> string_of_z l in
    [Printf.sprintf "%s depth_limit=%s token_limit=%s query_depth=%s query_terms=%s roundto_places=%s zero_guard=%d max_line=%s getline=%s nsites=%d" id
       (o src_parse_depth_limit) (o src_expr_token_limit) (o src_query_depth_limit) (o src_query_term_limit) (o src_roundto_places_limit)
       (if src_period_zero_guard then 1 else 0) (string_of_z src_max_line) (string_of_z src_line_getline)
       (List.length site_table)]
  | _ -> failwith "case"

let () = main_loop handle
