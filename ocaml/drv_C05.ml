(* C05 driver.
   (case ID (pool (SYMHEX PREC)...) (opts REAL STATE QUERY BASIS KP KD KT FLAT DEPTH EMPTY)
            (posts (XACT PAYEEHEX XSTATE PSTATE (SEGHEX...) VIRTUAL AMT COST DATE INFERRED [DEFERRED IDHEX])...))
   DEFERRED = 1 for a posting written <Account>; IDHEX = xact id (UUID tag, else the sequence number).
   The register quantities (reg, col) are computed on the file order, the balance quantities
   (bal, grand, lay, own) on Model/Deferred.v account_view = the journal as account->posts hold it.
   AMT = (NUM DEN PREC KEEP COMMHEX) ; COST = AMT | none ; STATE = any|cleared|uncleared|pending ;
   QUERY = none | ((acct HEX)|(payee HEX) ...) ; DEPTH = none | N ; x/p state = u|p|c
   Output lines "ID <kind> ..." (see harness/props/c05.py). *)
let err_name = function
  | EDivZero -> "DivZero" | EDiffComm -> "DiffComm" | ENullAmt -> "NullAmt"
  | EBadOp -> "BadOp" | _ -> "Other"

let hexs a = if a = "-" then [] else str_of_hex a

let show_amt (a : amount) : string =
  let q = h_qred a.aq in
  Printf.sprintf "A:%s:%s/%s:%s:%d"
    (match a.acomm with None -> "" | Some c -> hex_of_str c)
    (string_of_z (h_qnum q)) (string_of_z (h_qden q)) (string_of_z a.aprec)
    (if a.akeep then 1 else 0)

let show_value = function
  | VVoid -> "V:"
  | VBool b -> if b then "L:1" else "L:0"
  | VInt z -> "I:" ^ string_of_z z
  | VAmt a -> show_amt a
  | VBal b -> "B:" ^ String.concat ";" (List.sort compare (List.map show_amt b))

let amt_of = function
  | L [n; d; p; k; c] ->
    { aq = h_qmake (zatom n) (zatom d); aprec = zatom p; akeep = batom k;
      acomm = (let s = atom c in if s = "-" then None else Some (str_of_hex s)) }
  | _ -> failwith "amt"

let state_of s = match s with "u" -> Uncleared | "p" -> Pending | "c" -> Cleared | _ -> failwith "state"

let rec post_of = function
  | L [x; payee; xs; pst; L segs; virt; a; cost; date; inferred; _; _] ->
    post_of (L [x; payee; xs; pst; L segs; virt; a; cost; date; inferred])
  | L [x; payee; xs; pst; L segs; virt; a; cost; date; inferred] ->
    { p_xact = zatom x; p_payee = hexs (atom payee); p_xstate = state_of (atom xs);
      p_pstate = state_of (atom pst); p_acct = List.map (fun s -> hexs (atom s)) segs;
      p_virtual = batom virt; p_amt = amt_of a;
      p_cost = (match cost with A "none" -> None | c -> Some (amt_of c));
      p_date = zatom date; p_inferred = batom inferred; p_temp = false }
  | _ -> failwith "post"

let jpost_of sx =
  match sx with
  | L [_; _; _; _; _; _; _; _; _; _; d; id] ->
    { jp_post = post_of sx; jp_deferred = batom d; jp_id = hexs (atom id) }
  | _ -> { jp_post = post_of sx; jp_deferred = false; jp_id = [] }

let opts_of = function
  | L [A "opts"; real; st; q; basis; kp; kd; kt; flat; depth; empty; bg; en] ->
    { o_real = batom real;
      o_state = (match atom st with "any" -> SAny | "cleared" -> SCleared | "uncleared" -> SUncleared
                                  | "pending" -> SPending | _ -> failwith "stfilter");
      o_query = (match q with
          | A "none" -> []
          | L ts -> List.map (function L [A "acct"; h] -> QAcct (hexs (atom h))
                                     | L [A "payee"; h] -> QPayee (hexs (atom h)) | _ -> failwith "query") ts);
      o_begin = (match bg with A "none" -> None | d -> Some (zatom d));
      o_end = (match en with A "none" -> None | d -> Some (zatom d));
      o_basis = batom basis; o_kp = batom kp; o_kd = batom kd; o_kt = batom kt;
      o_flat = batom flat;
      o_depth = (match depth with A "none" -> None | d -> Some (zatom d));
      o_empty = batom empty }
  | _ -> failwith "opts"

let name_of (a : z list list) = String.concat ":" (List.map string_of_str a)

exception Model_err of string
let get = function Ok v -> v | Err e -> raise (Model_err (err_name e))

let output ord cp o js want =
  (* xact->posts in file order / account->posts, account by account *)
  let ps_file = List.map (fun j -> j.jp_post) js in
  let ps_acct = account_view js in
  let lines = ref [] in
  let add s = lines := s :: !lines in
  let has w = List.mem w want in
  (try
    if has "reg" then begin
      let rows = get (reg_rows ord o ps_file) in
      List.iter (fun r ->
          let da = get (display_value ord o r.r_amt) and dt = get (display_value ord o r.r_total) in
          let sh = get (row_shown ord cp o r) in
          add (Printf.sprintf "reg %s|%s|%s|%s|%s|%d" (name_of r.r_acct) (show_value r.r_amt)
                 (show_value r.r_total) (show_value da) (show_value dt) (if sh then 1 else 0))) rows
    end;
    if has "bal" then begin
      let rows = get (bal_rows ord cp o ps_acct) in
      List.iter (fun b ->
          add (Printf.sprintf "bal %s|%s|%s" (name_of b.b_acct) (show_value b.b_total) (show_value b.b_disp))) rows;
      let g = get (grand_total ord o ps_acct) in
      add (Printf.sprintf "grand %s|%s" (show_value g.b_total) (show_value g.b_disp));
      add (Printf.sprintf "nrows %d" (List.length rows))
    end;
    if has "lay" then begin
      let rows = get (bal_layout ord cp o ps_acct) in
      let rec nat_int = function O -> 0 | S n -> 1 + nat_int n in
      List.iter (fun l ->
          add (Printf.sprintf "lay %s|%d|%s" (name_of l.l_acct) (nat_int l.l_spacer) (name_of l.l_partial))) rows
    end;
    if has "lay" then
      add (Printf.sprintf "layok %d" (if get (layout_ok ord cp o ps_acct) then 1 else 0));
    if has "own" then begin
      (* account_t::amount of every account of the tree (pre-order) *)
      let m = get (mark (max_depth ps_acct) ord cp o ps_acct []) in
      List.iter (fun (a, _) ->
          let v = simplified_or_zero (get (own_lazy_twice ord o ps_acct a)) in
          add (Printf.sprintf "own %s|%s" (name_of a) (show_value v))) m.m_pre
    end;
    if has "col" then begin
      match o.o_depth with
      | Some n ->
        let gs = get (collapsed_rows ord n o ps_file) in
        List.iteri (fun k g ->
            List.iter (fun (a, v) -> add (Printf.sprintf "col %d %s|%s" k (name_of a) (show_value v)))
              g) gs
      | None -> ()
    end
  with Model_err e -> add ("ERR " ^ e));
  List.rev !lines

let handle line =
  match parse_sexp line with
  | L [A "case"; A id; L (A "pool" :: pool); L (A "want" :: want); o; L (A "posts" :: posts)] ->
    let tbl = List.map (function L [A s; p] -> (string_of_hex s, zatom p) | _ -> failwith "pool") pool in
    let cp c =
      let s = string_of_str c in
      let base = (match String.index_opt s '~' with Some i -> String.sub s 0 i | None -> s) in
      (try List.assoc base tbl with Not_found -> Z0) in
    let o = opts_of o in
    let ps = List.map jpost_of posts in
    let want = List.map atom want in
    let r1 = output false cp o ps want and r2 = output true cp o ps want in
    let body = if r1 = r2 then r1 else ("ORDER-DEPENDENT" :: r1) in
    List.map (fun l -> id ^ " " ^ l) body @ [id ^ " end"]
  | _ -> failwith "case"

let () = main_loop handle
