(* Shared helpers for the model drivers.  This file is textually included after
   `open Model_Cxx`, because every extracted module has its own copy of Z/positive. *)

(* ---- Z <-> decimal text ---- *)
let z_of_int (n : int) : z =
  let rec pos n = if n = 1 then XH else if n land 1 = 0 then XO (pos (n lsr 1)) else XI (pos (n lsr 1)) in
  if n = 0 then Z0 else if n > 0 then Zpos (pos n) else Zneg (pos (-n))

let rec int_of_pos = function XH -> 1 | XO p -> 2 * int_of_pos p | XI p -> 2 * int_of_pos p + 1
let int_of_z = function Z0 -> 0 | Zpos p -> int_of_pos p | Zneg p -> - (int_of_pos p)

let z10 = z_of_int 10
let z_chunk = z_of_int 1000000000

let z_of_string (s : string) : z =
  let neg = String.length s > 0 && s.[0] = '-' in
  let start = if neg || (String.length s > 0 && s.[0] = '+') then 1 else 0 in
  let acc = ref Z0 in
  let i = ref start in
  let n = String.length s in
  while !i < n do
    let k = min 9 (n - !i) in
    let chunk = int_of_string (String.sub s !i k) in
    let rec p10 k = if k = 0 then 1 else 10 * p10 (k - 1) in
    acc := h_add (h_mul !acc (z_of_int (p10 k))) (z_of_int chunk);
    i := !i + k
  done;
  if neg then h_opp !acc else !acc

let string_of_z (v : z) : string =
  let neg, a = match v with Z0 -> false, Z0 | Zpos _ -> false, v | Zneg p -> true, Zpos p in
  if a = Z0 then "0" else begin
    let parts = ref [] in
    let cur = ref a in
    while !cur <> Z0 do
      let q = h_div !cur z_chunk and r = h_mod !cur z_chunk in
      parts := int_of_z r :: !parts;
      cur := q
    done;
    let b = Buffer.create 32 in
    if neg then Buffer.add_char b '-';
    (match !parts with
     | [] -> ()
     | first :: rest ->
       Buffer.add_string b (string_of_int first);
       List.iter (fun p -> Buffer.add_string b (Printf.sprintf "%09d" p)) rest);
    Buffer.contents b
  end

(* ---- byte strings (Z lists) <-> hex / OCaml strings ---- *)
let str_of_string (s : string) : z list =
  List.init (String.length s) (fun i -> z_of_int (Char.code s.[i]))
let string_of_str (l : z list) : string =
  let b = Buffer.create 16 in
  List.iter (fun c -> Buffer.add_char b (Char.chr ((int_of_z c) land 255))) l;
  Buffer.contents b
let hex_of_string (s : string) : string =
  let b = Buffer.create 16 in
  String.iter (fun c -> Buffer.add_string b (Printf.sprintf "%02x" (Char.code c))) s;
  Buffer.contents b
let string_of_hex (h : string) : string =
  String.init (String.length h / 2) (fun i -> Char.chr (int_of_string ("0x" ^ String.sub h (2 * i) 2)))
let hex_of_str l = hex_of_string (string_of_str l)
let str_of_hex h = str_of_string (string_of_hex h)

(* ---- S-expressions: atoms and lists; atoms are bare words or double-quoted strings ---- *)
type sexp = A of string | L of sexp list

let parse_sexp (s : string) : sexp =
  let n = String.length s in
  let pos = ref 0 in
  let rec skip () = while !pos < n && (s.[!pos] = ' ' || s.[!pos] = '\t') do incr pos done
  and item () =
    skip ();
    if !pos >= n then failwith "sexp: eof"
    else if s.[!pos] = '(' then begin
      incr pos;
      let items = ref [] in
      let rec loop () =
        skip ();
        if !pos >= n then failwith "sexp: unclosed"
        else if s.[!pos] = ')' then incr pos
        else begin items := item () :: !items; loop () end in
      loop ();
      L (List.rev !items)
    end else if s.[!pos] = '"' then begin
      incr pos;
      let b = Buffer.create 16 in
      while !pos < n && s.[!pos] <> '"' do
        if s.[!pos] = '\\' && !pos + 1 < n then (Buffer.add_char b s.[!pos + 1]; pos := !pos + 2)
        else (Buffer.add_char b s.[!pos]; incr pos)
      done;
      incr pos;
      A (Buffer.contents b)
    end else begin
      let st = !pos in
      while !pos < n && s.[!pos] <> ' ' && s.[!pos] <> '(' && s.[!pos] <> ')' && s.[!pos] <> '\t' do incr pos done;
      A (String.sub s st (!pos - st))
    end in
  item ()

let atom = function A s -> s | L _ -> failwith "sexp: atom expected"
let items = function L l -> l | A _ -> failwith "sexp: list expected"
let zatom x = z_of_string (atom x)
let iatom x = int_of_string (atom x)
let batom x = (atom x = "1" || atom x = "true")

(* read stdin line by line, apply f, print what f returns (a list of lines) *)
let main_loop (f : string -> string list) =
  (try
     while true do
       let line = input_line stdin in
       if String.length line > 0 && line.[0] <> '#' then begin
         let out = (try f line with
                    | Failure m -> ["!driver-error " ^ m]
                    | Not_found -> ["!driver-error not_found"]
                    | Stack_overflow -> ["!driver-error stack_overflow"]) in
         List.iter print_endline out
       end
     done
   with End_of_file -> ());
  flush stdout
