(* C03 driver: (case ID (pool (SYMHEX PREC)...) EXPR) -> "ID RESULT";  (top ID (pool ...) EXPR) -> "ID RESULT" of top_amount(EXPR) *)
let err_name = function
  | EDivZero -> "DivZero" | EDiffComm -> "DiffComm" | ENullAmt -> "NullAmt"
  | EBadOp -> "BadOp" | _ -> "Other"

let comm_of_atom a = if a = "-" then None else Some (str_of_hex a)

let show_amt (a : amount) : string =
  let q = h_qred a.aq in
  Printf.sprintf "A:%s:%s/%s:%s:%d"
    (match a.acomm with None -> "" | Some c -> hex_of_str c)
    (string_of_z (h_qnum q)) (string_of_z (h_qden q)) (string_of_z a.aprec)
    (if a.akeep then 1 else 0)

let show_value = function
  | VVoid -> "V:"
  | VBool b -> if b then "L:1" else "L:0"
  | VInt z -> "I:" ^ string_of_z z
  | VAmt a -> show_amt a
  | VBal b -> "B:" ^ String.concat ";" (List.sort compare (List.map show_amt b))

let rec expr_of = function
  | L [A "lit"; n; d; p; k; c] ->
    ELit { aq = h_qmake (zatom n) (zatom d); aprec = zatom p; akeep = batom k; acomm = comm_of_atom (atom c) }
  | L [A "int"; z] -> EInt (zatom z)
  | L [A "neg"; e] -> ENeg (expr_of e)
  | L [A "abs"; e] -> EAbs (expr_of e)
  | L [A "bin"; A o; l; r] ->
    let op = (match o with
        | "+" -> OAdd | "-" -> OSub | "*" -> OMul | "/" -> ODiv | "==" -> OEq | "<" -> OLt
        | ">" -> OGt | "<=" -> OLe | ">=" -> OGe | "!=" -> ONe | _ -> failwith "op") in
    EBin (op, expr_of l, expr_of r)
  | _ -> failwith "expr"

let handle line =
  match parse_sexp line with
  | L [A kind; A id; L (A "pool" :: pool); e] when kind = "case" || kind = "top" ->
    let tbl = List.map (function L [A s; p] -> (str_of_hex s, zatom p) | _ -> failwith "pool") pool in
    let cp c =
      (* an annotated commodity answers with its base commodity's precision *)
      let s = string_of_str c in
      let base = (match String.index_opt s '~' with Some i -> String.sub s 0 i | None -> s) in
      (try List.assoc (str_of_string base) tbl with Not_found -> Z0) in
    let ex = expr_of e in
    let post v = if kind = "top" then top_amount v else v in
    let run ord = (match aeval ord cp ex with Ok v -> show_value (post v) | Err e -> "E:" ^ err_name e) in
    let r1 = run false and r2 = run true in
    (* the model is evaluated under both insertion orders of the balance table; no result may depend on it (orderings of
       a balance walk it in commodity order since /repo 55e6d28): a difference is reported and the harness counts it as
       a disagreement *)
    if r1 = r2 then [id ^ " " ^ r1] else [id ^ " ORDER-DEPENDENT " ^ r1 ^ " | " ^ r2]
  | _ -> failwith "case"

let () = main_loop handle
