#!/bin/bash
# usage: harness/regress_seeded.sh <repo copy> <seed id>...   (run from a copy of /verif, e.g. inside `vp run --with-repo`)
# applies each recorded seeded change to the given copy of the repository, runs the owning property's quick check against
# it and undoes it; prints one line per seed: "<id> <property> exit=<n>" (1 = caught).  Never touches /repo.
set -u
REPO=$1; shift
export VERIF_REPO=$REPO VERIF_LEDGER_BUILD=$PWD/.work/ledger
for id in "$@"; do
  d=seeded/$id
  prop=$(python3 -c "import json;print(json.load(open('$d/meta.json'))['property'])")
  git -C "$REPO" checkout -q -- . 2>/dev/null
  if ! git -C "$REPO" apply "$PWD/$d/patch.diff" 2>/dev/null; then echo "$id $prop DOES-NOT-APPLY"; continue; fi
  out=$(./check $prop 2>&1); rc=$?
  echo "$id $prop exit=$rc $(echo "$out" | grep VIOLATION | head -1 | sed 's/.*replays\///' | cut -c1-80)"
  git -C "$REPO" checkout -q -- .
done
