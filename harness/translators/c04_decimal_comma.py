"""where --decimal-comma (commodity_t::decimal_comma_by_default) enters the amount reader and printer -> coq/Gen/DecimalComma.v

Four sites, each recognised by one narrow shape (comments stripped, whitespace collapsed):
 1. src/amount.cc amount_t::parse: the initial value of the reader's style
        bool decimal_comma_style = (COND);
 2. src/amount.cc stream_out_mpq, the decimal point:
        if (*p == '.') { if (TIME) out << ':'; else if (COND) out << ','; else out << *p;
 3. src/amount.cc stream_out_mpq, the thousands mark:
        if (integer_digits > 3 && --integer_digits % 3 == 0) { if (TIME) out << ':'; else if (COND) out << '.'; else out << ',';
    (TIME is the h/m time-colon test, which the C04 generators exclude; it must be the very text it is today)
 4. src/amount.cc amount_t::parse: `if (decimal_comma_style) comm_flags |= COMMODITY_STYLE_DECIMAL_COMMA;` (what the
    reader found out is what the commodity learns), and src/session.h: the option's handler is
        OPTION_(session_t, decimal_comma, DO() { commodity_t::decimal_comma_by_default = true; });
COND is reported as
    commodity_t::decimal_comma_by_default || <the commodity has COMMODITY_STYLE_DECIMAL_COMMA>  -> DcDefaultOrFlag
    <the commodity has COMMODITY_STYLE_DECIMAL_COMMA> alone                                     -> DcFlagOnly
    commodity_t::decimal_comma_by_default alone                                                 -> DcDefaultOnly
    anything else / shape not found                                                             -> DcUnrecognised
and the bytes written as their codes (0 = the character of the buffer is copied; -1 = unrecognised).
Properties_C04 (decimal_comma_sites_match_source, reader_and_printer_agree_on_decimal_comma,
reread_under_decimal_comma_option, reread_in_the_same_session) accept only DcDefaultOrFlag with the bytes of today: fail closed."""
import os, re

TIME = (r'\("h" == comm->symbol\(\) \|\| "m" == comm->symbol\(\)\) && \(commodity_t::time_colon_by_default \|\| '
        r'\(comm && comm->has_flags\(COMMODITY_STYLE_TIME_COLON\)\)\)')


def cond_kind(text, flag_forms):
    t = re.sub(r'\s+', ' ', text).strip()
    d = 'commodity_t::decimal_comma_by_default'
    for f in flag_forms:
        if t == '%s || %s' % (d, f):
            return 'DcDefaultOrFlag'
        if t == f:
            return 'DcFlagOnly'
    if t == d:
        return 'DcDefaultOnly'
    return 'DcUnrecognised'


def byte_of(tok):
    tok = tok.strip()
    if tok == '*p':
        return 0
    m = re.fullmatch(r"'(.)'", tok)
    return ord(m.group(1)) if m else -1


def generate(repo):
    src = open(os.path.join(repo, 'src', 'amount.cc')).read()
    code = re.sub(r'//[^\n]*', '', re.sub(r'/\*.*?\*/', '', src, flags=re.S))
    reader, learned = 'DcUnrecognised', 'false'
    point = mark = ('DcUnrecognised', -1, -1)
    m = re.search(r'bool\s+amount_t::parse\s*\(\s*std::istream&\s*in[^)]*\)\s*\{(.*?)\n\}', code, re.S)
    if m:
        body = re.sub(r'\s+', ' ', m.group(1))
        inits = re.findall(r'bool decimal_comma_style = \((.*?)\);', body)
        # the variable may be assigned `true` where the text itself shows a decimal comma, and nowhere else
        others = [a for a in re.findall(r'decimal_comma_style\s*=\s*([^;]*);', body)]
        if len(inits) == 1 and sorted(a.strip() for a in others) == sorted(['(' + inits[0] + ')', 'true', 'true']):
            reader = cond_kind(inits[0], ['commodity().has_flags(COMMODITY_STYLE_DECIMAL_COMMA)'])
        if len(re.findall(r'if \(decimal_comma_style\) comm_flags \|= COMMODITY_STYLE_DECIMAL_COMMA;', body)) == 1 \
                and len(re.findall(r'COMMODITY_STYLE_DECIMAL_COMMA', body)) == 2:
            learned = 'true'
    m = re.search(r'void\s+stream_out_mpq\s*\([^)]*\)\s*\{(.*?)\n  \}', code, re.S)
    if m:
        body = re.sub(r'\s+', ' ', m.group(1))
        flag = ['(comm && comm->has_flags(COMMODITY_STYLE_DECIMAL_COMMA))', 'comm->has_flags(COMMODITY_STYLE_DECIMAL_COMMA)']
        pm = re.findall(r"if \(\*p == '\.'\) \{ if \(" + TIME + r"\) out << ':'; else if \((.*?)\) out << ([^;]*); else out << ([^;]*);", body)
        if len(pm) == 1:
            point = (cond_kind(pm[0][0], flag), byte_of(pm[0][1]), byte_of(pm[0][2]))
        mm = re.findall(r"if \(integer_digits > 3 && --integer_digits % 3 == 0\) \{ if \(" + TIME + r"\) out << ':'; else if \((.*?)\) out << ([^;]*); else out << ([^;]*); \}", body)
        if len(mm) == 1:
            mark = (cond_kind(mm[0][0], flag), byte_of(mm[0][1]), byte_of(mm[0][2]))
        if len(re.findall(r'decimal_comma', body)) != 2 or len(re.findall(r'DECIMAL_COMMA', body)) != 2:
            point = mark = ('DcUnrecognised', -1, -1)          # a third use of the option inside the printer: not the shape transcribed
    option = 'false'
    sh = open(os.path.join(repo, 'src', 'session.h')).read()
    sh = re.sub(r'\s+', ' ', re.sub(r'//[^\n]*', '', re.sub(r'/\*.*?\*/', '', sh, flags=re.S)))
    if re.search(r'OPTION_\(session_t, decimal_comma, DO\(\) \{ commodity_t::decimal_comma_by_default = true; \}\);', sh):
        option = 'true'
    text = ('(* GENERATED by harness/translators/c04_decimal_comma.py from src/amount.cc (amount_t::parse, stream_out_mpq) and\n'
            '   src/session.h (--decimal-comma) - do not edit *)\n'
            'From Coq Require Import ZArith.\n'
            'Inductive dc_cond : Type := DcDefaultOrFlag | DcFlagOnly | DcDefaultOnly | DcUnrecognised.\n'
            '(* amount_t::parse: bool decimal_comma_style = (COND) *)\n'
            'Definition src_dc_reader_init : dc_cond := %s.\n'
            '(* stream_out_mpq: (COND, byte written for the decimal point when COND holds, byte otherwise; 0 = the buffer\'s own character) *)\n'
            'Definition src_dc_print_point : dc_cond * Z * Z := (%s, (%d)%%Z, (%d)%%Z).\n'
            '(* stream_out_mpq: (COND, thousands mark when COND holds, thousands mark otherwise) *)\n'
            'Definition src_dc_print_mark : dc_cond * Z * Z := (%s, (%d)%%Z, (%d)%%Z).\n'
            '(* amount_t::parse: if (decimal_comma_style) comm_flags |= COMMODITY_STYLE_DECIMAL_COMMA, the only place the flag is given *)\n'
            'Definition src_dc_learned_from_reader_style : bool := %s.\n'
            '(* session.h: --decimal-comma sets commodity_t::decimal_comma_by_default *)\n'
            'Definition src_dc_option_sets_default : bool := %s.\n'
            % ((reader,) + point + mark + (learned, option)))
    return {'DecimalComma.v': text}
