"""C11 translator: fixed `char NAME[N]` buffers of /repo/src and the statements that write
through them -> coq/Gen/BufferSites.v; guard constants of the expression parser, the period
parser and the line reader -> coq/Gen/SafetyGuards.v.

Fail closed.  Every occurrence of a buffer's name (and of every pointer initialised from it)
inside the buffer's scope must be accounted for: either it is the operand of one of the narrow
write shapes below (then a `site` record with that write kind is emitted), or it sits in a
context that cannot store through it (argument of a function from READ_ONLY_CALLS, a comparison,
a stream insertion, `return`, `sizeof`).  Anything else yields a site of kind `Unrecognised`,
which `all_sites_in_bounds` does not accept.  A capacity that is not a literal or a resolvable
`MAX_LINE`-style constant becomes -1 (also rejected)."""
import glob, hashlib, os, re

# ---------------------------------------------------------------------------------- reading C++

def strip_comments(text):
    """remove // and /* */ comments and the contents of string/char literals' escapes are kept;
    newlines are preserved so that line numbers stay valid"""
    out = []
    i, n = 0, len(text)
    while i < n:
        c = text[i]
        if c == '/' and i + 1 < n and text[i + 1] == '/':
            while i < n and text[i] != '\n':
                i += 1
        elif c == '/' and i + 1 < n and text[i + 1] == '*':
            j = text.find('*/', i + 2)
            j = n if j < 0 else j + 2
            out.append(''.join(ch if ch == '\n' else ' ' for ch in text[i:j]))
            i = j
        elif c in '"\'':
            j = i + 1
            while j < n and text[j] != c:
                if text[j] == '\\':
                    j += 1
                if j < n and text[j] == '\n' and c == '\'':
                    break
                j += 1
            out.append(text[i:j + 1])
            i = j + 1
        else:
            out.append(c)
            i += 1
    return ''.join(out)


def norm(s):
    return re.sub(r'\s+', ' ', s).strip()


def squeeze(s):
    return re.sub(r'\s+', '', s)


def match_brace(text, i):
    """index just after the brace/paren block that opens at text[i]"""
    op = text[i]
    cl = {'{': '}', '(': ')', '[': ']'}[op]
    depth = 0
    j = i
    n = len(text)
    while j < n:
        c = text[j]
        if c in '"\'':
            k = j + 1
            while k < n and text[k] != c:
                if text[k] == '\\':
                    k += 1
                k += 1
            j = k + 1
            continue
        if c == op:
            depth += 1
        elif c == cl:
            depth -= 1
            if depth == 0:
                return j + 1
        j += 1
    return n


def enclosing_block(text, pos):
    """(start, end) of the innermost {...} block containing pos, or None at file level"""
    depth = 0
    j = pos - 1
    while j >= 0:
        c = text[j]
        if c == '}':
            depth += 1
        elif c == '{':
            if depth == 0:
                return j, match_brace(text, j)
            depth -= 1
        j -= 1
    return None


def outermost_function(text, pos):
    """(name, start, end) of the top-level-ish function body containing pos: the outermost block
    whose header looks like a function definition `name(...) [const] {`"""
    best = None
    p = pos
    while True:
        blk = enclosing_block(text, p)
        if blk is None:
            break
        s, e = blk
        head = text[max(0, s - 400):s]
        m = re.search(r'([\w:~]+)\s*\(([^{};]*)\)\s*(?:const)?\s*(?:throw\s*\(\s*\))?\s*$', head, re.S)
        if m and m.group(1) not in ('if', 'while', 'for', 'switch', 'foreach', 'catch', 'else'):
            best = (m.group(1), s, e, m.group(2))
        p = s
    return best


# ---------------------------------------------------------------------------------- constants

def resolve_consts(files):
    consts = {}
    for f, t in files.items():
        for m in re.finditer(r'static\s+const\s+(?:std::)?size_t\s+(\w+)\s*=\s*(\d+)\s*;', t):
            consts[m.group(1)] = int(m.group(2))
    return consts


def eval_size(expr, consts, local=None):
    """integer value of a size expression: literal, NAME, [qualifier::]NAME, sums of those"""
    e = squeeze(expr)
    e = re.sub(r'\b\w+::', '', e)
    total = 0
    for part in e.split('+'):
        if re.fullmatch(r'\d+U?L?', part):
            total += int(re.sub(r'[UL]', '', part))
        elif local and part in local:
            total += local[part]
        elif part in consts:
            total += consts[part]
        else:
            return None
    return total


# the READ_INTO / READ_INTO_ macros as transcribed into coq/Model/Buffers.v (read_into_loop):
# whitespace and line continuations removed
READ_INTO_EXPECT = {
    'READ_INTO(str,targ,size,var,cond)':
        "{char*_p=targ;var=str.peek();while(str.good()&&!str.eof()&&var!='\\n'&&(cond)&&_p-targ<size){"
        "var=str.get();if(str.eof())break;if(var=='\\\\'){var=str.get();if(in.eof())break;switch(var){"
        "case'b':var='\\b';break;case'f':var='\\f';break;case'n':var='\\n';break;case'r':var='\\r';break;"
        "case't':var='\\t';break;case'v':var='\\v';break;default:break;}}*_p++=var;var=str.peek();}*_p='\\0';}",
    'READ_INTO_(str,targ,size,var,idx,cond)':
        "{char*_p=targ;var=str.peek();while(str.good()&&!str.eof()&&var!='\\n'&&(cond)&&_p-targ<size){"
        "var=str.get();if(str.eof())break;idx++;if(var=='\\\\'){var=str.get();if(in.eof())break;switch(var){"
        "case'b':var='\\b';break;case'f':var='\\f';break;case'n':var='\\n';break;case'r':var='\\r';break;"
        "case't':var='\\t';break;case'v':var='\\v';break;default:break;}idx++;}*_p++=var;var=str.peek();}*_p='\\0';}",
}


def read_into_macro_ok(utils_h):
    t = strip_comments(utils_h)
    ok = True
    for head, body in READ_INTO_EXPECT.items():
        name = head.split('(')[0]
        m = re.search(r'#define\s+' + name + r'\(([^)]*)\)((?:.*\\\n)*.*\n)', t)
        if not m:
            return False
        got_head = name + '(' + squeeze(m.group(1)) + ')'
        got = squeeze(m.group(2).replace('\\\n', '\n'))
        if got_head != head or got != body:
            ok = False
    return ok


def asserts_throw(utils_h, cmake):
    """`assert(x)` throws assertion_failed when x is false (utils.h), unless DISABLE_ASSERTS"""
    t = squeeze(strip_comments(utils_h).replace('\\\n', ' '))
    a = '#defineassert(x)((x)?((void)0):debug_assert(#x,BOOST_CURRENT_FUNCTION,__FILE__,__LINE__))' in t
    b = re.search(r'if\s*\(DISABLE_ASSERTS\)\s*set\(NO_ASSERTS 1\)\s*else\(\)\s*set\(NO_ASSERTS 0\)', cmake) is not None
    return a and b


# ---------------------------------------------------------------------------------- sites

READ_ONLY_CALLS = {
    # C library readers
    'strlen', 'strcmp', 'strncmp', 'strchr', 'strrchr', 'strstr', 'isdigit', 'isalpha', 'isspace',
    # control and operators that cannot store through their operand
    'if', 'while', 'switch', 'for', 'return', 'sizeof', 'DEBUG', 'throw_', '_f', 'static_cast', 'line_context',
    # ledger functions taking `const char *` / `const string&`
    'is_reserved_token', 'parse_date', 'parse_datetime', 'set_string', 'set_mask', 'expr_t',
    'timespan', 'push_back', 'lookup', 'string', 'parse', 'parse_price_directive', 'write',
    'bufferToHex', 'find', 'account_t', 'starts_with_bom', 'op_bool_tuple', 'process_option',
    'calc', 'value_type', 'add_to_count_map', 'allocation_pair',
    # in-place tokenisers: they only store NULs inside the existing string
    'skip_ws', 'next_element',
}

KINDS_DOC = """ReadInto M | ReadIntoSigned M | StrcpyGuarded G | StrcpyLiteral L | StrcpyLine M |
StrcpyUnguarded | StrncpyBounded B | StrncpyUnguarded | Getline M | WriteAtMost M | WriteExactly K |
PtrLoopBounded B | PtrLoopUnbounded | CopyGuarded G X | IndexLoopBounded B X | IndexLoopUnbounded X | Unrecognised"""


class Site:
    def __init__(self, file, line, func, buf, cap, kind, args=(), note='', delim=None):
        self.file, self.line, self.func, self.buf, self.cap = file, line, func, buf, cap
        self.kind, self.args, self.note, self.delim = kind, tuple(args), note, delim

    @property
    def name(self):
        return '%s:%s:%s' % (self.file, self.func, self.buf)

    def coq_write(self):
        if not self.args:
            return self.kind
        return '(%s %s)' % (self.kind, ' '.join('(%d)' % a if a < 0 else str(a) for a in self.args))

    def as_dict(self):
        return dict(name=self.name, file=self.file, line=self.line, func=self.func, buf=self.buf,
                    capacity=self.cap, kind=self.kind, args=list(self.args), note=self.note, delim=self.delim)


def call_context(text, pos):
    """name of the innermost call/keyword whose parentheses enclose text[pos], or None"""
    depth = 0
    j = pos - 1
    while j >= 0:
        c = text[j]
        if c == ')':
            depth += 1
        elif c == '(':
            if depth == 0:
                m = re.search(r'([\w:.>\-]+)\s*$', text[:j])
                if not m:
                    return ''
                nm = m.group(1)
                if nm.endswith('>'):
                    return 'static_cast' if re.search(r'(static|reinterpret|const)_cast\s*<[^<>()]*>\s*$', text[:j]) else ''
                nm = re.split(r'::|\.|->', nm)[-1]
                return nm
            depth -= 1
        elif c in ';{}' and depth == 0:
            return None
        j -= 1
    return None


def analyse(file, text, decl_m, consts, files, flags):
    """all site records for one declaration"""
    buf = decl_m.group('name')
    line = text.count('\n', 0, decl_m.start()) + 1
    cap = eval_size(decl_m.group('size'), consts)
    capv = cap if cap is not None else -1
    fn = outermost_function(text, decl_m.start())
    sites = []

    def add(kind, args=(), note='', delim=None, func=None):
        sites.append(Site(file, line, func or (fn[0].split('::')[-1] if fn else 'member'), buf, capv, kind, args, note, delim))

    if fn is None:
        # a struct member: its writers live in member functions anywhere in the sources
        member_sites(file, buf, capv, line, consts, files, flags, sites)
        return sites
    blk = enclosing_block(text, decl_m.start())
    scope = text[decl_m.end():blk[1]]
    func_text = text[fn[1]:blk[1]]             # from the start of the function to the end of the scope
    before = text[fn[1]:decl_m.start()]        # statements that dominate the declaration
    params = fn[3]
    S = norm(scope)
    B = norm(before)
    covered = []                               # spans of S accounted for

    def cover(m):
        covered.append((m.start(), m.end()))

    def local_int(name):
        m = re.search(r'\bint\s+%s\s*=\s*(\d+)\s*;' % re.escape(name), S)
        return int(m.group(1)) if m else None

    nb = re.escape(buf)
    aliases = {}
    for m in re.finditer(r'\bchar\s*\*\s*(?:const\s+)?(\w+)\s*=\s*%s\s*;' % nb, S):
        aliases[m.group(1)] = 'start'
        cover(m)

    # ---- READ_INTO / READ_INTO_
    for m in re.finditer(r'\bREAD_INTO(_?)\s*\(\s*(\w+)\s*,\s*(\w+)\s*,\s*([\w:+ ]+?)\s*,\s*(\w+)\s*,', S):
        targ = m.group(3)
        if targ != buf and targ not in aliases:
            continue
        end = match_brace(S, S.index('(', m.start()))
        call = S[m.start():end]
        covered.append((m.start(), end))
        if not flags['read_into_ok']:
            add('Unrecognised', note='READ_INTO macro text differs from the transcription in Model/Buffers.v')
            continue
        cond = call[m.end() - m.start():-1]
        dm = re.search(r"%s\s*!=\s*('(?:\\.|[^'])'|delim)\s*$" % re.escape(m.group(5)), cond.strip())
        delim = None
        if dm:
            # the caller must check that the delimiter was reached, else the token is silently cut
            d = re.escape(dm.group(1))
            v = re.escape(m.group(5))
            after = S[end:end + 200]
            if re.match(r"\s*;?\s*if\s*\(\s*%s\s*(==|!=)\s*%s\s*\)" % (v, d), after):
                delim = dm.group(1)
        if targ == buf:
            M = eval_size(m.group(4), consts)
            if M is None:
                add('Unrecognised', note='READ_INTO size %r' % m.group(4))
            else:
                add('ReadInto', [M], delim=delim, note=norm(cond)[:60])
        else:
            # amount.cc parse_quantity: an optional sign is stored first and the limit lowered by one
            toks = ' '.join(re.findall(r"'(?:\\.|[^'])'|\w+|--|\+\+|==|[^\s\w]", S[:end]))
            pat = (r"int max = (\d+) ; char \* @T@ = @B@ ; if \( c == '-' \) \{ \* @T@ \+\+ = c ; max -- ; in \. get \( \) ; \} "
                   r"READ_INTO \( in , @T@ , max ,").replace('@T@', re.escape(targ)).replace('@B@', nb)
            mm = re.search(pat, toks)
            if mm and m.group(4) == 'max':
                add('ReadIntoSigned', [int(mm.group(1))], note='optional sign then READ_INTO(p, max)')
                for a in re.finditer(r"if \(c == '-'\) \{ \*\s*%s\+\+ = c; max--; in\.get\(\); \}" % targ, S):
                    cover(a)
                for a in re.finditer(r"\bint max = \d+;", S):
                    cover(a)
            else:
                add('Unrecognised', note='READ_INTO through alias %s' % targ)

    # ---- strcpy
    for m in re.finditer(r'\b(?:std::)?strcpy\s*\(\s*%s\s*,\s*("(?:\\.|[^"])*"|\w+)\s*\)' % nb, S):
        cover(m)
        src = m.group(1)
        if src.startswith('"'):
            add('StrcpyLiteral', [len(bytes(src[1:-1], 'utf-8').decode('unicode_escape'))], note=src)
            continue
        g = re.search(r'if \( ?(?:std::)?strlen ?\( ?%s ?\) > (\d+) ?\) \{? ?throw_ ?\(' % re.escape(src), B)
        if g:
            add('StrcpyGuarded', [int(g.group(1))], note='strlen(%s) > %s throws' % (src, g.group(1)))
        elif (file == 'textual.cc' and src == 'line' and re.search(r'\bchar\s*\*\s*line\b', params)
              and fn[0].startswith('instance_t::') and flags['line_getline'] is not None):
            add('StrcpyLine', [flags['line_getline']], note='line points into linebuf, filled by getline(linebuf, MAX_LINE)')
        else:
            add('StrcpyUnguarded', note='strcpy(%s, %s) with no dominating strlen guard' % (buf, src))
    if re.search(r'\b(?:std::)?strcat\s*\(\s*%s\s*,' % nb, S):
        # utils.cc trace_ctor_func(ptr, cls_name, args, size): name = cls_name "(" args ")".  Its only
        # caller is the TRACE_CTOR(cls, args) macro (utils.h), which passes #cls and a string literal,
        # so the longest text is computed from every TRACE_CTOR use in the sources.
        k = trace_ctor_longest(files) if (file == 'utils.cc' and fn and fn[0] == 'trace_ctor_func') else None
        shape = re.fullmatch(r'\s*(?:std::)?strcpy\(%s, cls_name\); (?:std::)?strcat\(%s, "\("\); (?:std::)?strcat\(%s, args\); '
                             r'(?:std::)?strcat\(%s, "\)"\);.*' % (nb, nb, nb, nb), S, re.S)
        sites[:] = [s for s in sites if s.kind != 'StrcpyUnguarded']
        for m in re.finditer(r'\b(?:std::)?str(?:cat|cpy)\s*\(\s*%s\s*,[^;]*\)' % nb, S):
            cover(m)
        if k is not None and shape:
            add('WriteExactly', [k + 1], note='cls "(" args ")" from TRACE_CTOR string literals; longest is %d characters' % k)
        else:
            add('Unrecognised', note='strcat')

    # ---- strncpy(buf, p, n); buf[n] = '\0';
    for m in re.finditer(r'\b(?:std::)?strncpy\s*\(\s*%s\s*,' % nb, S):
        end = match_brace(S, S.index('(', m.start()))
        args = split_args(S[S.index('(', m.start()) + 1:end - 1])
        covered.append((m.start(), end))
        if len(args) != 3:
            add('Unrecognised', note='strncpy arity')
            continue
        nexpr = squeeze(re.sub(r'static_cast<(?:std::)?size_t>\s*\((.*)\)$', r'\1', args[2].strip()))
        t = re.match(r'\s*;\s*%s\s*\[\s*([^\]]+)\]\s*=\s*\'\\0\'\s*;' % nb, S[end:])
        if not t or squeeze(t.group(1)) != nexpr:
            add('Unrecognised', note='strncpy without the terminating store')
            continue
        covered.append((end, end + t.end()))
        FT = squeeze(func_text[:func_text.find(m.group(0)) if m.group(0) in func_text else len(func_text)])
        FT = FT.replace('static_cast<std::size_t>', '').replace('std::', '')
        ne = re.escape(nexpr)
        if re.search(r'if\(\(?%s\)?>=sizeof\(%s\)\)\{?throw_\(' % (ne, nb), FT):
            add('StrncpyBounded', [capv - 1], note='n >= sizeof(%s) throws' % buf)
        elif flags['asserts'] and re.search(r'assert\(%s<(\d+)(\|\||\))' % ne, FT):
            k = int(re.search(r'assert\(%s<(\d+)(\|\||\))' % ne, FT).group(1))
            add('StrncpyBounded', [k - 1], note='assert(n < %d) throws' % k)
        else:
            add('StrncpyUnguarded', note='strncpy(%s, .., %s) with no dominating bound' % (buf, args[2].strip()))

    # ---- bounded library writers
    for rx, kind, what in (
            (r'(?:\.|->)getline\s*\(\s*%s\s*,\s*([^)]+)\)', 'Getline', 'getline'),
            (r'\b(?:std::)?fgets\s*\(\s*%s\s*,\s*([^,]+),', 'Getline', 'fgets'),
            (r'\b(?:std::)?snprintf\s*\(\s*%s\s*,\s*([^,]+),', 'WriteAtMost', 'snprintf'),
            (r'\b(?:std::)?strftime\s*\(\s*%s\s*,\s*([^,]+),', 'WriteAtMost', 'strftime'),
            (r'(?:\.|->)read\s*\(\s*%s\s*,\s*([^)]+)\)', 'WriteAtMost', 'istream::read'),
            (r'\b(?:std::)?memcpy\s*\(\s*%s\s*,\s*[^,]+,\s*([^)]+)\)', 'WriteExactly', 'memcpy')):
        for m in re.finditer(rx % nb, S):
            cover(m)
            M = eval_size(m.group(1), consts)
            if M is None:
                add('Unrecognised', note='%s size %r' % (what, m.group(1)))
            else:
                add(kind, [M], note=what)
    for m in re.finditer(r'\bSHA512\s*\([^;]*,\s*%s\s*\)' % nb, S):
        cover(m)
        add('WriteExactly', [64], note='SHA512 digest')

    # ---- stores through a pointer initialised from the buffer
    for m in re.finditer(r'\bchar\s*\*\s*(\w+)\s*=\s*%s\s*;' % nb, S):
        pass
    ptrs = dict(aliases)
    for m in re.finditer(r'\bchar\s*\*\s*(?:const\s+)?(\w+)\s*=\s*%s\b' % nb, S):
        if re.search(r'\bconst\s*$', S[:m.start()]):
            continue                             # `const char * q = buf`: cannot store through q
        ptrs.setdefault(m.group(1), 'start')
    # `char * buf_alias, * r = buf;` style and for-loop initialisers
    for m in re.finditer(r'\bchar\s*\*\s*(\w+)\s*;', S):
        v = m.group(1)
        if re.search(r'\b%s\s*=\s*%s\s*[;,)]' % (re.escape(v), nb), S):
            ptrs.setdefault(v, 'start')
    for p in list(ptrs):
        pe = re.escape(p)
        stores = list(re.finditer(r'\*\s*%s\s*(\+\+)?\s*=(?!=)' % pe, S)) + \
                 list(re.finditer(r'\*\s*(--|\+\+)\s*%s\s*=(?!=)' % pe, S)) + \
                 list(re.finditer(r'\b%s\s*\[[^\]]*\]\s*=(?!=)' % pe, S))
        stores = [st for st in stores if not re.search(r'\bchar\s*$', S[:st.start()])]     # `char * p = buf` declares
        # for (char * p = buf; *p; p++) if (..) *p = 'c';  -- replaces characters of the string in place
        ip = re.search(r"\bfor\s*\(\s*char\s*\*\s*%s\s*=\s*%s\s*;\s*\*\s*%s\s*;\s*%s\+\+\s*\)\s*if\s*\([^;{}]*\)\s*\*\s*%s\s*=\s*'(?:\\.|[^'\\])'\s*;" % (pe, nb, pe, pe, pe), S)
        if ip:
            covered.append((ip.start(), ip.end()))
            stores = [st for st in stores if not (ip.start() <= st.start() < ip.end())]
        if not stores:
            continue
        if any(s.kind == 'ReadIntoSigned' for s in sites):
            continue                             # the sign store is part of that shape
        # (1) while (p - buf < B && ...) { ... *p++ = c; ... } *p = '\0';
        wm = re.search(r'\bwhile\s*\(\s*%s\s*-\s*%s\s*<\s*(\d+)\s*&&' % (pe, nb), S)
        fm = re.search(r'\bfor\s*\([^;]*;[^;]*&&\s*%s\s*-\s*%s\s*<\s*(\d+)\s*;[^)]*\)' % (pe, nb), S)
        em = re.search(r'\bforeach\s*\(\s*char\s+\w+\s*,\s*(\w+)\s*\)\s*\{', S)
        if wm or fm:
            lm = wm or fm
            if wm:
                hdr_end = match_brace(S, S.index('(', lm.start()))
            else:
                hdr_end = lm.end()
            rest = S[hdr_end:].lstrip()
            off = len(S) - len(S[hdr_end:].lstrip())
            if rest.startswith('{'):
                body_end = off + match_brace(rest, 0)
            else:
                # a single (possibly if/else) statement: up to the terminating store
                t = re.search(r'\*\s*%s\s*=\s*\'\\0\'\s*;' % pe, S[hdr_end:])
                body_end = hdr_end + (t.start() if t else 0)
            body = S[hdr_end:body_end]
            nst = len(re.findall(r'\*\s*%s\s*\+\+\s*=(?!=)' % pe, body))
            branches = len(re.findall(r'\belse\b', body))
            term = re.match(r'\s*\*\s*%s\s*=\s*\'\\0\'\s*;' % pe, S[body_end:])
            other = [s for s in stores if not (hdr_end <= s.start() < body_end) and
                     not (term and body_end <= s.start() < body_end + term.end())]
            one_per_iter = (nst == 1) or (nst == 2 and branches == 1 and re.search(r'\bif\b', body))
            if one_per_iter and term and not other and 'while' not in body.replace('while (', '', 0)[1:] :
                add('PtrLoopBounded', [int(lm.group(1))], note='%s - %s < %s' % (p, buf, lm.group(1)))
                covered.append((lm.start(), body_end + term.end()))
            else:
                add('Unrecognised', note='pointer loop over %s with an unexpected body' % p)
        elif em and re.search(r'\*\s*%s\s*\+\+\s*=' % pe, S[em.end():match_brace(S, em.end() - 1)]):
            # option.cc find_option: if (name.length() > G) throw; foreach (ch, name) *p++ = ..; *p++ = '_'; *p = '\0';
            src = em.group(1)
            body_end = match_brace(S, em.end() - 1)
            body = S[em.end():body_end]
            nst = len(re.findall(r'\*\s*%s\s*\+\+\s*=(?!=)' % pe, body))
            branches = len(re.findall(r'\belse\b', body))
            g = re.search(r'if\s*\(\s*%s\.length\(\)\s*>\s*(\d+)\s*\)\s*\{?\s*throw_\s*\(' % re.escape(src), S[:em.start()])
            tail = S[body_end:]
            extra = 0
            tpos = body_end
            while True:
                t = re.match(r'\s*\*\s*%s\s*(\+\+)?\s*=\s*\'(?:\\.|[^\'])\'\s*;' % pe, S[tpos:])
                if not t:
                    break
                extra += 1
                tpos += t.end()
                if not t.group(1):
                    break
            later = [s for s in stores if s.start() >= tpos]
            # a later `*--p = '\0'` only shortens the string in place
            later = [s for s in later if not re.match(r'\*\s*--', S[s.start():s.start() + 4])]
            if g and nst == 2 and branches == 1 and not later:
                add('CopyGuarded', [int(g.group(1)), extra], note='%s.length() > %s throws; then one byte per character and %d more' % (src, g.group(1), extra))
                covered.append((em.start(), tpos))
            elif nst and not g:
                add('PtrLoopUnbounded', note='foreach copy with no dominating length guard')
            else:
                add('Unrecognised', note='foreach copy of unexpected shape')
        else:
            # a copy loop `*q++ = *p` with no bound on q - buf
            add('PtrLoopUnbounded', note='stores through %s with no bound relative to %s' % (p, buf))

    # ---- indexed stores
    idx_const = []
    for m in re.finditer(r'\b%s\s*\[\s*([^\]]+?)\s*\]\s*=(?!=)' % nb, S):
        if any(a <= m.start() < b for a, b in covered):
            continue
        ix = m.group(1)
        if re.fullmatch(r'\d+', ix):
            idx_const.append(int(ix))
            cover(m)
            continue
        # buf[--len] = '\0' with len = strlen(buf): shortens the string in place
        t = re.fullmatch(r'--\s*(\w+)', ix)
        if t and re.search(r'\b%s\s*=\s*(?:std::)?strlen\s*\(\s*%s\s*\)' % (re.escape(t.group(1)), nb), S):
            cover(m)
            continue
        lm = re.search(r'\bfor\s*\(\s*(\w+)\s*=\s*0\s*;\s*\1\s*<\s*([^;]+);\s*\1\+\+\s*\)\s*%s\s*\[\s*\1\s*\]\s*=' % nb, S)
        if lm and ix in (lm.group(1), lm.group(1) + '++'):
            if not any(s.kind in ('IndexLoopUnbounded', 'IndexLoopBounded') for s in sites):
                i = re.escape(lm.group(1))
                extra = len(re.findall(r'\b%s\s*\[\s*%s(?:\+\+)?\s*\]\s*=(?!=)' % (nb, i), S)) - 1
                bound = lm.group(2).strip()
                # `i < n && i < sizeof(buf) - K`: the index stops at capacity - K
                bm = re.search(r'&&\s*%s\s*<\s*sizeof\s*\(\s*%s\s*\)\s*-\s*(\d+)\s*$' % (i, nb), bound)
                bl = re.search(r'&&\s*%s\s*<\s*(\d+)\s*$' % i, bound)
                if bm and capv >= 0:
                    add('IndexLoopBounded', [capv - int(bm.group(1)), extra],
                        note='index stops at sizeof(%s) - %s; %d more stores follow' % (buf, bm.group(1), extra))
                elif bl:
                    add('IndexLoopBounded', [int(bl.group(1)), extra], note='index stops at %s; %d more stores follow' % (bl.group(1), extra))
                else:
                    add('IndexLoopUnbounded', [extra], note='index runs to %s, which nothing bounds; %d more stores follow' % (bound, extra))
            cover(m)
            continue
        add('Unrecognised', note='indexed store %s[%s]' % (buf, ix))
        cover(m)
    if idx_const:
        add('WriteExactly', [max(idx_const) + 1], note='constant-index stores up to [%d]' % max(idx_const))

    # ---- everything else that names the buffer must be unable to store through it
    for m in re.finditer(r'\b%s\b' % nb, S):
        if any(a <= m.start() < b for a, b in covered):
            continue
        ctx = call_context(S, m.start())
        after = S[m.end():m.end() + 40]
        before_ = S[max(0, m.start() - 40):m.start()]
        if re.match(r'\s*\[[^\]]*\]\s*(\+\+|--|[-+*/|&^]?=(?!=))', after) or re.search(r'(\+\+|--)\s*$', before_):
            add('Unrecognised', note='store: ' + S[max(0, m.start() - 20):m.end() + 30])
            continue
        if ctx is None:
            # statement level: `x = buf;`  `return buf;`  `out << buf`  `first = buf;` `buffer += buf`
            if re.search(r'(=|\+=|<<|\breturn|,)\s*$', before_) and re.match(r'\s*(;|<<|\.get\(\)|,)', after):
                # a `char *` alias created by plain assignment is tracked like a declared one
                am = re.search(r'\b(\w+)\s*=\s*$', before_)
                if am and re.search(r'\bchar\s*\*[^;]*\b%s\b' % re.escape(am.group(1)), func_text) and \
                        re.search(r'\*\s*%s\s*(\+\+)?\s*=(?!=)|\b%s\s*\[[^\]]*\]\s*=(?!=)' % (am.group(1), am.group(1)), S):
                    if am.group(1) not in ptrs:
                        add('Unrecognised', note='stores through alias %s' % am.group(1))
                continue
            if re.match(r'\s*\[[^\]]*\]\s*(==|!=|\)|&&|\|\|)', after):
                continue
            add('Unrecognised', note='use: ' + S[max(0, m.start() - 25):m.end() + 25])
            continue
        if ctx in READ_ONLY_CALLS:
            continue
        add('Unrecognised', note='passed to %s(): ' % ctx + S[max(0, m.start() - 25):m.end() + 25])
    if not sites:
        add('WriteExactly', [0], note='never written')
    return sites


def trace_ctor_longest(files):
    """longest `cls(args)` over all TRACE_CTOR(cls, "args") uses; None if a use has a non-literal
    argument or trace_ctor_func has another caller"""
    longest = 0
    uh = files.get('utils.h', '')
    if not re.search(r'#define\s+TRACE_CTOR\(cls,\s*args\)\s*\\\s*\(DO_VERIFY\(\)\s*\?\s*\\\s*'
                     r'ledger::trace_ctor_func\(this,\s*#cls,\s*args,\s*sizeof\(cls\)\)', uh):
        return None
    for f, t in files.items():
        for m in re.finditer(r'\btrace_ctor_func\s*\(', t):
            if f == 'utils.h' or (f == 'utils.cc' and re.search(r'\bvoid\s+$', t[:m.start()])):
                continue
            return None
        for m in re.finditer(r'\bTRACE_CTOR\s*\(', t):
            if f == 'utils.h':
                continue
            end = match_brace(t, m.end() - 1)
            args = split_args(t[m.end():end - 1])
            if len(args) != 2:
                return None
            lit = re.fullmatch(r'\s*"((?:\\.|[^"\\])*)"\s*', args[1])
            if not lit:
                return None
            longest = max(longest, len(squeeze(args[0])) + len(lit.group(1)) + 2)
    return longest


def split_args(s):
    out, depth, cur = [], 0, ''
    i, n = 0, len(s)
    while i < n:
        c = s[i]
        if c in '"\'':
            j = i + 1
            while j < n and s[j] != c:
                if s[j] == '\\':
                    j += 1
                j += 1
            cur += s[i:j + 1]
            i = j + 1
            continue
        if c in '([{':
            depth += 1
        elif c in ')]}':
            depth -= 1
        if c == ',' and depth == 0:
            out.append(cur)
            cur = ''
        else:
            cur += c
        i += 1
    out.append(cur)
    return out


def member_sites(file, buf, cap, line, consts, files, flags, sites):
    """struct members: parse_context_t::linebuf (context.h) and token_t::symbol (token.h)"""
    def add(kind, args=(), note='', func='member', delim=None):
        sites.append(Site(file, line, func, buf, cap, kind, args, note, delim))
    if buf == 'linebuf' and file == 'context.h':
        for f, t in sorted(files.items()):
            # local arrays of the same name shadow the member inside their own scope
            shadow = []
            for d in re.finditer(r'\bchar\s+linebuf\s*\[', t):
                if f == 'context.h':
                    continue
                b = enclosing_block(t, d.start())
                if b:
                    shadow.append(b)
            for m in re.finditer(r'\blinebuf\b', t):
                if any(a <= m.start() < b for a, b in shadow):
                    continue
                if f == 'context.h' and t.count('\n', 0, m.start()) + 1 == line:
                    continue
                ln = t.count('\n', 0, m.start()) + 1
                stmt = norm(t[t.rfind(';', 0, m.start()) + 1:t.find(';', m.end()) + 1])
                stmt = re.sub(r'^.*[{}]\s*', '', stmt)
                g = re.search(r'(?:\.|->)getline\s*\(\s*(?:context\.)?linebuf\s*,\s*([^)]+)\)', stmt)
                c = re.search(r'memcpy\s*\(\s*linebuf\s*,\s*context\.linebuf\s*,\s*([^)]+)\)', stmt)
                if g:
                    local = {}
                    lm = re.search(r'const\s+size_t\s+(\w+)\s*=\s*([\w:]+)\s*;', t[max(0, m.start() - 400):m.start()])
                    if lm:
                        v = eval_size(lm.group(2), consts)
                        if v is not None:
                            local[lm.group(1)] = v
                    M = eval_size(g.group(1), consts, local)
                    if M is None:
                        add('Unrecognised', note='%s:%d getline size' % (f, ln), func=f)
                    else:
                        add('Getline', [M], note='%s:%d getline' % (f, ln), func=f + ':%d' % ln)
                elif c:
                    if m.start() > t.find('memcpy', max(0, m.start() - 30)) + 10 and 'context.linebuf' in t[m.start() - 8:m.end()]:
                        continue    # the source operand of the same memcpy
                    K = eval_size(c.group(1), consts)
                    if K is None:
                        add('Unrecognised', note='%s:%d memcpy size' % (f, ln), func=f)
                    else:
                        add('WriteExactly', [K], note='%s:%d copy constructor memcpy' % (f, ln), func=f + ':%d' % ln)
                elif re.search(r'(return\s+context\.linebuf\s*;|line\s*=\s*&?\s*context\.linebuf(\[\d+\])?\s*;|starts_with_bom\s*\()', stmt):
                    continue        # hands out a pointer for reading / in-place trimming
                else:
                    add('Unrecognised', note='%s:%d %s' % (f, ln, stmt[:60]), func=f)
        return
    if buf == 'symbol' and file == 'token.h':
        idx = []
        for f in ('token.cc', 'token.h', 'parser.cc'):
            t = files.get(f, '')
            # words inside string literals are not uses; keep the literal's length
            t = re.sub(r'"((?:\\.|[^"\\\n])*)"', lambda q: '"' + re.sub(r'[A-Za-z]', 'x', q.group(1)) + '"', t)
            for m in re.finditer(r'(?<![\w>])symbol\b(?!\s*\()', t):
                ln = t.count('\n', 0, m.start()) + 1
                if f == 'token.h' and ln == line:
                    continue
                pre = t[max(0, m.start() - 30):m.start()]
                post = t[m.end():m.end() + 40]
                im = re.match(r'\s*\[\s*(\d+)\s*\]\s*=(?!=)', post)
                sm = re.search(r'strcpy\s*\(\s*$', pre)
                if im:
                    idx.append(int(im.group(1)))
                elif sm:
                    lit = re.match(r'\s*,\s*"((?:\\.|[^"])*)"\s*\)', post)
                    if lit:
                        add('StrcpyLiteral', [len(lit.group(1))], note='%s:%d "%s"' % (f, ln, lit.group(1)), func=f + ':%d' % ln)
                    else:
                        add('Unrecognised', note='%s:%d strcpy(symbol, non-literal)' % (f, ln), func=f)
                elif re.search(r'(%|<<|\.)\s*$', pre) or re.match(r'\s*\[\s*\d+\s*\]\s*(==|!=|\))', post) or re.match(r'\s*[\[(]', post) is None and re.search(r'[%(,]\s*$', pre):
                    continue        # formatted into a message / compared
                else:
                    add('Unrecognised', note='%s:%d %s' % (f, ln, norm(t[m.start() - 20:m.end() + 20])), func=f)
        if idx:
            add('WriteExactly', [max(idx) + 1], note='constant-index stores up to [%d]' % max(idx), func='token.cc')
        return
    add('Unrecognised', note='member buffer with no scanning rule')


DECL = re.compile(r'\b(?:static\s+)?(?:unsigned\s+)?char\s+(?P<name>\w+)\s*\[(?P<size>[^\]]+)\]\s*;')


def scan(repo):
    src = os.path.join(repo, 'src')
    files = {}
    for p in sorted(glob.glob(os.path.join(src, '*.cc')) + glob.glob(os.path.join(src, '*.h'))):
        files[os.path.basename(p)] = strip_comments(open(p, errors='replace').read())
    consts = resolve_consts(files)
    utils_h = open(os.path.join(src, 'utils.h'), errors='replace').read()
    cmake = ''
    try:
        cmake = norm(open(os.path.join(repo, 'CMakeLists.txt'), errors='replace').read())
    except OSError:
        pass
    flags = dict(read_into_ok=read_into_macro_ok(utils_h), asserts=asserts_throw(utils_h, cmake))
    # the journal reader's line: in.getline(context.linebuf, maxLine) with maxLine = MAX_LINE
    t = files.get('textual.cc', '')
    m = re.search(r'const\s+size_t\s+maxLine\s*=\s*parse_context_t::MAX_LINE\s*;\s*in\.getline\s*\(\s*context\.linebuf\s*,\s*maxLine\s*\)\s*;', t)
    flags['line_getline'] = consts.get('MAX_LINE') if m else None
    # memory tracing (utils.cc trace_ctor_func) is compiled only with VERIFY_ON
    uh = strip_comments(utils_h)
    flags['verify_memory_reachable'] = not re.search(r'#define\s+VERIFY_ON\s+0\b', uh) or \
        bool(re.search(r'#define\s+VERIFY_ON\s+1\b', uh))
    sites = []
    for f, t in files.items():
        for d in DECL.finditer(t):
            sites += analyse(f, t, d, consts, files, flags)
    # stable order and unique names
    sites.sort(key=lambda s: (s.file, s.line, s.kind, s.args))
    seen = {}
    for s in sites:
        k = s.name
        seen[k] = seen.get(k, 0) + 1
        s.uid = k if seen[k] == 1 else '%s#%d' % (k, seen[k])
    return sites, consts, flags


# ---------------------------------------------------------------------------------- guards

def scan_guards(repo, consts, flags):
    src = os.path.join(repo, 'src')
    g = {}
    # (b) a nesting bound in the expression parser: a constant named *DEPTH* in parser.h/parser.cc
    #     compared against a depth counter that parse_value_term increments before recursing
    ph = strip_comments(open(os.path.join(src, 'parser.h'), errors='replace').read())
    pc = strip_comments(open(os.path.join(src, 'parser.cc'), errors='replace').read())
    g['parse_depth_limit'] = None
    m = re.search(r'static\s+const\s+(?:std::)?size_t\s+(MAX_\w*DEPTH\w*)\s*=\s*(\d+)\s*;', ph + pc)
    if m:
        name, val = m.group(1), int(m.group(2))
        vt = re.search(r'parser_t::parse_value_term\s*\([^)]*\)\s*const\s*\{', pc)
        if vt:
            body = pc[vt.end() - 1:match_brace(pc, vt.end() - 1)]
            lp = body.find('case token_t::LPAREN')
            seg = body[lp:body.find('break;', lp)] if lp >= 0 else ''
            if re.search(r'if\s*\(\s*(\+\+\s*\w+|\w+\s*\+\+|\w+(\.\w+)?)\s*(>=|>)\s*%s\s*\)\s*\{?\s*throw_\s*\(' % name, seg) or \
               re.search(r'depth_guard\w*\s+\w+\s*\(', seg):
                cmpop = re.search(r'(>=|>)\s*%s' % name, pc)
                g['parse_depth_limit'] = val if (cmpop and cmpop.group(1) == '>') else val - 1
    # the expression parser bounds the tokens of one expression: next_token counts what it fetches
    g['expr_token_limit'] = None
    m = re.search(r'static\s+const\s+(?:std::)?size_t\s+MAX_TOKENS\s*=\s*(\d+)\s*;', ph)
    nt = re.search(r'token_t&\s+next_token\s*\([^)]*\)\s*const\s*\{', ph)
    if m and nt:
        body = norm(ph[nt.end() - 1:match_brace(ph, nt.end() - 1)])
        if re.search(r'if \(use_lookahead\) \{ use_lookahead = false; \} else \{ if \(\+\+token_count > MAX_TOKENS\) throw_ ?\(parse_error,[^;]*\); '
                     r'lookahead\.next\(in, tflags\); \}', body) and \
           re.search(r'\btoken_count\s*=\s*0\s*;', pc):
            g['expr_token_limit'] = int(m.group(1))
    # the query parser bounds its nesting and the number of terms
    qh = strip_comments(open(os.path.join(src, 'query.h'), errors='replace').read())
    qc = strip_comments(open(os.path.join(src, 'query.cc'), errors='replace').read())
    g['query_depth_limit'] = g['query_term_limit'] = None
    qt = re.search(r'query_t::parser_t::parse_query_term\s*\([^)]*\)\s*\{', qc)
    if qt:
        body = norm(qc[qt.end() - 1:match_brace(qc, qt.end() - 1)])
        md = re.search(r'static\s+const\s+(?:std::)?size_t\s+MAX_NESTING_DEPTH\s*=\s*(\d+)\s*;', qh)
        mt = re.search(r'static\s+const\s+(?:std::)?size_t\s+MAX_TERMS\s*=\s*(\d+)\s*;', qh)
        if mt and re.match(r'\{ expr_t::ptr_op_t node; if \(\+\+term_count > MAX_TERMS\) throw_ ?\(parse_error,', body):
            g['query_term_limit'] = int(mt.group(1))
        if md and re.search(r'case lexer_t::token_t::LPAREN: if \(\+\+nesting_depth > MAX_NESTING_DEPTH\) throw_ ?\(parse_error,[^;]*\); '
                            r'node = parse_query_expr\(tok_context, true\); --nesting_depth;', body):
            g['query_depth_limit'] = int(md.group(1))
    # amount.cc parse_conversion refuses a chain of smaller units that leads back to `larger`
    ac = strip_comments(open(os.path.join(src, 'amount.cc'), errors='replace').read())
    pcv = re.search(r'void amount_t::parse_conversion\s*\([^)]*\)\s*\{', ac)
    g['conversion_cycle_guard'] = False
    if pcv:
        body = norm(ac[pcv.end() - 1:match_brace(ac, pcv.end() - 1)])
        g['conversion_cycle_guard'] = bool(re.search(
            r'if \(larger\.has_commodity\(\)\) for \(const commodity_t \* comm = &smaller\.commodity\(\); ; \) \{ '
            r'if \((?:\*comm == larger\.commodity\(\)|comm->referent\(\) == larger\.commodity\(\)\.referent\(\))\) throw_ ?\(amount_error,[^;]*\); if \(! comm->smaller\(\)\) break; '
            r'comm = &comm->smaller\(\)->commodity\(\); \} (?:if \(smaller\.has_commodity\(\)\) for \([^{]*\{[^}]*\} )?larger \*= smaller\.number\(\);', body))
    g['conversion_cycle_by_referent'] = bool(g['conversion_cycle_guard'] and pcv and
                                             'comm->referent() == larger.commodity().referent()' in body)
    # op.h / op.cc: compile() and calc() refuse to recurse deeper than MAX_DEPTH
    oh = strip_comments(open(os.path.join(src, 'op.h'), errors='replace').read())
    oc = norm(strip_comments(open(os.path.join(src, 'op.cc'), errors='replace').read()))
    g['calc_depth_limit'] = None
    md = re.search(r'static\s+const\s+int\s+MAX_DEPTH\s*=\s*(\d+)\s*;', oh)
    if md and re.search(r'expr_t::ptr_op_t result; if \(depth > MAX_DEPTH\) throw_ ?\(compile_error,', oc) and \
       re.search(r'value_t expr_t::op_t::calc\(scope_t& scope, ptr_op_t \* locus, const int depth\) \{ try \{ value_t result; '
                 r'if \(depth > MAX_DEPTH\) throw_ ?\(calc_error,', oc):
        g['calc_depth_limit'] = int(md.group(1))
    # format.cc parse_elements bounds the field widths while it reads their digits
    fmt_src = norm(strip_comments(open(os.path.join(src, 'format.cc'), errors='replace').read()))
    g['format_width_limit'] = None
    mw = re.search(r'const std::size_t max_field_width = (\d+);', fmt_src)
    if mw and len(re.findall(r"num \+= static_cast<std::size_t>\(\*p\+\+ - '0'\); if \(num > max_field_width\) throw_ ?\(format_error,", fmt_src)) == 2:
        g['format_width_limit'] = int(mw.group(1))
    # amount.cc in_place_roundto refuses more places than precision_t counts (uint_least16_t)
    g['roundto_places_limit'] = None
    rt = re.search(r'void amount_t::in_place_roundto\s*\(int places\)\s*\{', ac)
    ah = strip_comments(open(os.path.join(src, 'amount.h'), errors='replace').read())
    if rt and re.search(r'typedef\s+uint_least16_t\s+precision_t\s*;', ah):
        body = norm(ac[rt.end() - 1:match_brace(ac, rt.end() - 1)])
        k = body.find('mpz_ui_pow_ui')
        gd = re.search(r'if \(labs\(places\) > std::numeric_limits<precision_t>::max\(\)\) throw_ ?\(amount_error,', body)
        if gd and 0 <= gd.start() < k:
            g['roundto_places_limit'] = 65535
    # scope.h: the accessor for unevaluated expression arguments checks that the argument exists
    sh = norm(strip_comments(open(os.path.join(src, 'scope.h'), errors='replace').read()))
    g['expr_argument_guard'] = bool(re.search(
        r'call_scope_t::get<expr_t::ptr_op_t>\(std::size_t index, bool\) \{ if \(index >= args\.size\(\)\) throw_ ?\(calc_error,[^;]*\); '
        r'return args\[index\]\.as_any<expr_t::ptr_op_t>\(\); \}', sh))
    # main.cc: the --script loop ends when reading fails, and an unreadable file is an error
    mc = norm(strip_comments(open(os.path.join(src, 'main.cc'), errors='replace').read()))
    g['script_loop_guard'] = bool(re.search(
        r'ifstream in\(script_file\); if \(! in\.good\(\)\) throw_ ?\(std::runtime_error,[^;]*\); status = 0; std::string line; '
        r'while \(status == 0 && std::getline\(in, line\)\) \{', mc)) and not re.search(r'while \([^)]*! in\.eof\(\)\)', mc)
    # filters.cc: no filter reaches the master account through a generated transaction's journal
    fc = strip_comments(open(os.path.join(src, 'filters.cc'), errors='replace').read())
    g['no_xact_journal_master'] = 'xact.journal->master' not in squeeze(fc)
    # account.cc find_account keeps no fixed buffer in its (recursive) frame
    acc = strip_comments(open(os.path.join(src, 'account.cc'), errors='replace').read())
    fa = re.search(r'account_t::find_account\s*\([^)]*\)\s*\{', acc)
    g['find_account_no_frame_buffer'] = bool(fa and not re.search(r'\bchar\s+\w+\s*\[', acc[fa.end():match_brace(acc, fa.end() - 1)]))
    # format.cc parse_elements, `%$N`: a template must exist, N must be 1-9 or A-F, the walk along the
    # template's element list tests the pointer in the loop condition and after the loop
    fm = norm(strip_comments(open(os.path.join(src, 'format.cc'), errors='replace').read()))
    g['format_field_ref_guard'] = bool(re.search(
        r"case '\$': \{ if \(! tmpl\) throw_ ?\(format_error,[^;]*\); p\+\+; "
        r"if \(\*p == '0' \|\| \(! std::isdigit\(static_cast<unsigned char>\(\*p\)\) && \*p != 'A' && \*p != 'B' && \*p != 'C' && "
        r"\*p != 'D' && \*p != 'E' && \*p != 'F'\)\) throw_ ?\(format_error,[^;]*\); "
        r"int index = std::isdigit\(static_cast<unsigned char>\(\*p\)\) \? \*p - '0' : \(\*p - 'A' \+ 10\); "
        r"element_t \* tmpl_elem = tmpl->elements\.get\(\); "
        r"for \(int i = 1; i < index && tmpl_elem; i\+\+\) \{ tmpl_elem = tmpl_elem->next\.get\(\); "
        r"while \(tmpl_elem && tmpl_elem->type != element_t::EXPR\) tmpl_elem = tmpl_elem->next\.get\(\); \} "
        r"if \(! tmpl_elem\) throw_ ?\(format_error,[^;]*\); \*current = \*tmpl_elem; break; \}", fm))
    # journal.cc expand_aliases: in both branches the name that is looked up in account_aliases is the
    # name that is tested against and recorded in already_seen (the loop's variant)
    jc = norm(strip_comments(open(os.path.join(src, 'journal.cc'), errors='replace').read()))
    g['alias_records_what_it_looks_up'] = bool(re.search(
        r'bool keep_expanding = true; std::list<string> already_seen; do \{ if \(account_aliases\.size\(\) > 0\) \{ '
        r'accounts_map::const_iterator i = account_aliases\.find\(name\); if \(i != account_aliases\.end\(\)\) \{ '
        r'if \(std::find\(already_seen\.begin\(\), already_seen\.end\(\), name\) != already_seen\.end\(\)\) \{ throw_ ?\(std::runtime_error,[^;]*\); \} '
        r'already_seen\.push_back\(name\); result = \(\*i\)\.second; name = result->fullname\(\); \} else \{ '
        r'size_t colon = name\.find\(\':\'\); if \(colon != string::npos\) \{ string first_account_name = name\.substr\(0, colon\); '
        r'accounts_map::const_iterator j = account_aliases\.find\(first_account_name\); if \(j != account_aliases\.end\(\)\) \{ '
        r'if \(std::find\(already_seen\.begin\(\), already_seen\.end\(\), first_account_name\) != already_seen\.end\(\)\) \{ throw_ ?\(std::runtime_error,[^;]*\); \} '
        r'already_seen\.push_back\(first_account_name\); result = find_account\(\(\*j\)\.second->fullname\(\) \+ name\.substr\(colon\)\); '
        r'name = result->fullname\(\); \} else \{ keep_expanding = false; \} \} else \{ keep_expanding = false; \} \} \} else \{ keep_expanding = false; \} '
        r'\} while ?\(keep_expanding && recursive_aliases\);', jc))
    # journal.cc register_account: the payee look-up for "Unknown" accounts tests the posting AND its
    # transaction before it reads post->xact->payee (postings of automated and periodic transactions,
    # and the postings extend_xact generates, are registered with xact == NULL); Model/UnknownPayee.v
    ra = re.search(r'account_t \* journal_t::register_account\(const string& name, post_t \* post, account_t \* master_account\) \{', jc)
    g['unknown_payee_tests_post_and_xact'] = False
    if ra:
        body = jc[ra.end() - 1:match_brace(jc, ra.end() - 1)]
        g['unknown_payee_tests_post_and_xact'] = bool(re.search(
            r'if \(result->name == _\("Unknown"\)\) \{ foreach \(account_mapping_t& value, payees_for_unknown_accounts\) \{ '
            r'if \(post && post->xact && value\.first\.match\(post->xact->payee\)\) \{ result = value\.second; break; \} \} \}', body)) \
            and body.count('->xact') == 2 and body.count('payees_for_unknown_accounts') == 1
    # unistring.h: the columns of a character are never negative where they are added up in a std::size_t
    # (mk_wcwidth answers -1 for control characters); Model/Width.v.  False while the source adds the
    # answer of mk_wcwidth as it is (F211).
    try:
        uh = norm(strip_comments(open(os.path.join(src, 'unistring.h'), errors='replace').read()))
    except OSError:
        uh = ''
    g['unistring_width_clamps_negative'] = bool(re.search(
        r'static std::size_t char_width\(boost::uint32_t ch\) \{ int w = mk_wcwidth\(ch\); return w < 0 \? 0 : static_cast<std::size_t>\(w\); \}', uh)) \
        and uh.count('mk_wcwidth(') == 2 and 'width += char_width(ch);' in uh and 'std::size_t w = char_width(utf32chars[idx]);' in uh
    # the repairs proposed for F57, F58, F59 (false while they are not in the source)
    dc = norm(strip_comments(open(os.path.join(src, 'draft.cc'), errors='replace').read()))
    g['draft_cost_post_guard'] = bool(re.search(
        r'else if \(arg == "@" \|\| arg == "@@"\) \{ if \(! post\) \{ if \(tmpl->posts\.empty\(\)\) throw std::runtime_error\([^;]*\); '
        r'post = &tmpl->posts\.back\(\); \} amount_t cost; post->cost_operator = arg;', dc))
    txc = norm(strip_comments(open(os.path.join(src, 'textual.cc'), errors='replace').read()))
    g['include_self_guard'] = bool(re.search(
        r'if \(glob\.match\(base\)\) \{ for \(instance_t \* instance = this; instance; instance = instance->parent\) '
        r'if \(! instance->context\.pathname\.empty\(\) && exists\(instance->context\.pathname\) && '
        r'filesystem::equivalent\(instance->context\.pathname, \*iter\)\) throw_ ?\(std::runtime_error,[^;]*\); journal_t \* journal = context\.journal;', txc))
    acn = norm(ac)
    g['conversion_larger_chain_guard'] = bool(g['conversion_cycle_guard'] and re.search(
        r'if \(smaller\.has_commodity\(\)\) for \(const commodity_t \* comm = &larger\.commodity\(\); ; \) \{ '
        r'if \(comm->referent\(\) == smaller\.commodity\(\)\.referent\(\)\) throw_ ?\(amount_error,[^;]*\); if \(! comm->larger\(\)\) break; '
        r'comm = &comm->larger\(\)->commodity\(\); \} larger \*= smaller\.number\(\);', acn))
    # the repairs proposed for F63, F64 (false / None while they are not in the source)
    mcs = norm(strip_comments(open(os.path.join(src, 'main.cc'), errors='replace').read()))
    g['debug_options_guard'] = bool(re.search(
        r'try \{ handle_debug_options\(argc, argv\); \} catch \(const std::exception& err\) \{ std::cerr << [^;]*err\.what\(\)[^;]*; return 1; \}', mcs))
    rc_ = norm(strip_comments(open(os.path.join(src, 'report.cc'), errors='replace').read()))
    g['justify_width_limit'] = None
    mj = re.search(r'value_t report_t::fn_justify\(call_scope_t& args\) \{(.*?)return string_value\(out\.str\(\)\); \}', rc_)
    if mj:
        b = mj.group(1)
        ml = re.search(r'const int max_width = (\d+); const int first_width = args\.get<int>\(1\); '
                       r'const int latter_width = args\.has<int>\(2\) \? args\.get<int>\(2\) : -1; '
                       r'if \(first_width > max_width \|\| first_width < -max_width \|\| latter_width > max_width \|\| latter_width < -max_width\) throw_ ?\([^;]*\); '
                       r'std::ostringstream out; args\[0\]\.print\(out, first_width, latter_width, flags\);', b)
        if ml:
            g['justify_width_limit'] = int(ml.group(1))
    # format.cc parse_elements, escape branch: the character after a backslash is tested before the
    # loop steps over it (the repair proposed for F67; false while it is not in the source)
    g['format_backslash_guard'] = bool(re.search(
        r"if \(\*p == '\\\\'\) \{ p\+\+; if \(! \*p\) throw_ ?\(format_error,[^;]*\); current->type = element_t::STRING; switch \(\*p\) \{", fm))
    # xact.cc finalize, two-commodity block: the loop that counts commodities_left and the loop that
    # picks x and y test the components with the same predicate, over the same map, and the block
    # is entered only when the count is 2
    xc = norm(strip_comments(open(os.path.join(src, 'xact.cc'), errors='replace').read()))
    g['finalize_pick_uses_count_predicate'] = bool(re.search(
        r'std::size_t commodities_left = 0; if \(! null_post && balance\.is_balance\(\)\) foreach \(const balance_t::amounts_map::value_type& pair, '
        r'balance\.as_balance\(\)\.amounts\) if \(! pair\.second\.is_realzero\(\)\) commodities_left\+\+; if \(commodities_left == 2\) \{ (?:DEBUG ?\([^;]*\); )?'
        r'const balance_t& bal\(balance\.as_balance\(\)\); const amount_t \* x = NULL; const amount_t \* y = NULL; '
        r'foreach \(const balance_t::amounts_map::value_type& pair, bal\.amounts\) \{ if \(pair\.second\.is_realzero\(\)\) continue; '
        r'if \(! x\) x = &pair\.second; else y = &pair\.second; \}', xc))
    # journal.cc add_xact, duplicate UUID: the sizes of the two posting lists are compared before
    # the three-iterator std::equal is called (the repair proposed for F68; false until then)
    g['uuid_size_test_first'] = bool(re.search(
        r'bool match = this_posts\.size\(\) == other_posts\.size\(\) && std::equal\(this_posts\.begin\(\), this_posts\.end\(\), '
        r'other_posts\.begin\(\), is_equivalent_posting\);', jc)) or bool(re.search(
        r'std::equal\(this_posts\.begin\(\), this_posts\.end\(\), other_posts\.begin\(\), other_posts\.end\(\), is_equivalent_posting\)', jc))
    # the repairs proposed for F172..F178 (false while they are not in the source)
    def src_has(fname, rx):
        try:
            return bool(re.search(rx, norm(strip_comments(open(os.path.join(src, fname), errors='replace').read()))))
        except OSError:
            return False
    g['pager_close_guard'] = src_has('main.cc', r'try \{ global_scope->quick_close\(\); \} catch \(const std::exception& err\)')
    g['query_quoted_token_start'] = src_has('query.cc', r"case '/': \{ prev_arg_i = arg_i; string pat;")
    g['post_xact_null_guards'] = src_has('post.cc', r'if \(post\.xact && post\.xact->code\)') and \
        src_has('post.cc', r'foreach \(post_t \* p, post\.xact \? post\.xact->posts : own_post\)') and \
        src_has('post.cc', r'value_t get_magnitude\(post_t& post\) \{ if \(! post\.xact\) return NULL_VALUE;')
    g['value_expr_reentry_guard'] = src_has('commodity.cc', r'if \(base->value_expr && ! base->has_flags\(COMMODITY_VALUE_EXPR_RUNNING\)\)') and \
        src_has('annotate.cc', r'if \(details\.value_expr && ! base->has_flags\(COMMODITY_VALUE_EXPR_RUNNING\)\)')
    g['repetition_bound'] = src_has('value.cc', r'if \(static_cast<unsigned long>\(count\) > max_repeated_size / as_string\(\)\.length\(\)\) throw_') and \
        src_has('value.cc', r'if \(count > 0 && static_cast<unsigned long>\(count\) > max_repeated_size\) throw_')
    g['sort_empty_component_guard'] = src_has('compare.cc', r'expr_t::ptr_op_t node, scope_t& scope\) \{ if \(! node\) throw_')
    # (d) the period parser rejects `every 0 <unit>`
    tc = strip_comments(open(os.path.join(src, 'times.cc'), errors='replace').read())
    m = re.search(r'case\s+lexer_t::token_t::TOK_EVERY\s*:(.*?)case\s+lexer_t::token_t::TOK_YEARS', tc, re.S)
    g['period_zero_guard'] = bool(m and re.search(
        r'int\s+quantity\s*=\s*boost::get<unsigned short>\(\*tok\.value\)\s*;\s*if\s*\(\s*quantity\s*(==\s*0|<\s*1|<=\s*0)\s*\)\s*throw_\s*\(', m.group(1)))
    # the quantity is an unsigned short, so it cannot be negative
    g['period_quantity_unsigned'] = bool(m and 'boost::get<unsigned short>' in m.group(1))
    g['max_line'] = consts.get('MAX_LINE', -1)
    g['line_getline'] = flags['line_getline'] if flags['line_getline'] is not None else -1
    # the "Line exceeds" test of read_line
    tx = strip_comments(open(os.path.join(src, 'textual.cc'), errors='replace').read())
    g['line_too_long_guard'] = bool(re.search(
        r'if\s*\(\s*in\.fail\(\)\s*&&\s*len\s*==\s*\(\s*parse_context_t::MAX_LINE\s*-\s*1\s*\)\s*\)\s*\{\s*throw_\s*\(\s*parse_error', tx))
    # (c) value.cc INTEGER / INTEGER tests the divisor first
    vc = strip_comments(open(os.path.join(src, 'value.cc'), errors='replace').read())
    dv = re.search(r'value_t::operator/=\s*\(.*?\n\}', vc, re.S)
    g['int_div_guard'] = bool(dv and re.search(
        r'case INTEGER:\s*switch \(val\.type\(\)\) \{\s*case INTEGER:\s*if\s*\(\s*val\.as_long\(\)\s*==\s*0\s*\)\s*throw_\s*\(', norm(dv.group(0))))
    return g


def opt(v):
    return 'None' if v is None else 'Some %d' % v


def bl(v):
    return 'true' if v else 'false'


def depth_edges(repo):
    """every place where the evaluator re-enters op_t::calc / op_t::compile or builds the call scope
    through which arguments are evaluated later: does it hand the recursion depth on?
    -> list of (label, propagates).  Sites: calls `x->calc(a, b[, c])` / `x.calc(a, b[, c])` with two
    or more arguments (the one-argument form is expr_t::calc, a fresh top-level evaluation),
    `->compile(a, b..)` in op.cc, the helpers calc_call / calc_cons / calc_seq / call_lambda /
    find_definition, and every `call_scope_t NAME(a, b[, c])` with two or more arguments."""
    src = os.path.join(repo, 'src')
    out = []
    for path in sorted(glob.glob(os.path.join(src, '*.cc')) + glob.glob(os.path.join(src, '*.h'))):
        f = os.path.basename(path)
        if f.startswith('py'):
            continue
        t = strip_comments(open(path, errors='replace').read())
        sites = []
        for m in re.finditer(r'(?:->|\.)\s*(calc|compile)\s*\(', t):
            sites.append((m.start(), m.end() - 1, m.group(1)))
        if f == 'op.cc':
            for m in re.finditer(r'(?<![\w:>.])(calc_call|calc_cons|calc_seq|call_lambda|find_definition)\s*\(', t):
                # skip the definitions themselves (`value_t expr_t::op_t::calc_call(scope_t& ...`)
                if re.search(r'(::|value_t|ptr_op_t)\s*$', t[max(0, m.start() - 12):m.start()]):
                    continue
                sites.append((m.start(), m.end() - 1, m.group(1)))
        for m in re.finditer(r'\bcall_scope_t\s+\w+\s*\(', t):
            sites.append((m.start(), m.end() - 1, 'call_scope_t'))
        count = {}
        for start, paren, kind in sorted(sites):
            end = match_brace(t, paren)
            args = [a.strip() for a in split_args(t[paren + 1:end - 1])]
            if kind in ('calc', 'compile', 'call_scope_t') and len(args) < 2:
                continue                     # expr_t::calc(scope) / call_scope_t args(scope): a top-level entry
            if kind == 'compile' and f != 'op.cc':
                continue
            if kind in ('calc', 'compile') and not re.search(r'scope', args[0]):
                continue                     # some other calc()
            fn = outermost_function(t, start)
            label_fn = fn[0].split('::')[-1] if fn else '?'
            key = (f, label_fn, kind)
            count[key] = count.get(key, 0) + 1
            ok = any(re.search(r'\bdepth\b', a) for a in (args[2:] if kind in ('calc', 'call_scope_t') else args[1:]))
            out.append(('%s:%s:%s#%d' % (f, label_fn, kind, count[key]), ok))
    return out


def scope_identifiers(repo):
    """names that the lookup() functions of postings, items, transactions and accounts answer to
    (post.cc, item.cc, xact.cc, account.cc): string literals compared with the looked-up name"""
    names = set()
    for f in ('post.cc', 'item.cc', 'xact.cc', 'account.cc'):
        t = strip_comments(open(os.path.join(repo, 'src', f), errors='replace').read())
        for m in re.finditer(r'::lookup\s*\(', t):
            b = t.find('{', m.end())
            if b < 0:
                continue
            body = t[b:match_brace(t, b)]
            names |= set(re.findall(r'(?:fn_)?name\s*==\s*"([a-z_]+)"', body))
    return sorted(names)


def report_functions(repo):
    """names of the value-expression functions report_t::lookup answers to (report.cc)"""
    t = strip_comments(open(os.path.join(repo, 'src', 'report.cc'), errors='replace').read())
    a = t.find('case symbol_t::FUNCTION:')
    b = t.find('case symbol_t::OPTION:', a)
    if a < 0 or b < 0:
        return []
    return sorted(set(re.findall(r'is_eq\(p, "([a-z_]+)"\)', t[a:b])))


def coq_string(s):
    return '"' + s.replace('"', '""') + '"'


def generate(repo):
    sites, consts, flags = scan(repo)
    g = scan_guards(repo, consts, flags)
    lines = ['(* GENERATED by harness/translators/c11_buffers.py from /repo/src/*.cc, *.h - do not edit.',
             '   One record per (fixed char array, statement that writes through it). *)',
             'From Coq Require Import ZArith List String.',
             'From LedgerV Require Import Model.Buffers.',
             'Import ListNotations.',
             'Local Open Scope Z_scope.',
             'Local Open Scope string_scope.',
             '',
             'Definition sites : list site := [']
    for i, s in enumerate(sites):
        note = (' (* %s:%d %s *)' % (s.file, s.line, s.note.replace('*)', '* )').replace('(*', '( *').replace('"', 'DQUOTE'))) if s.note else ''
        sep = ';' if i + 1 < len(sites) else ''
        lines.append('  mkSite %s (%d) %s%s%s' % (coq_string(s.uid), s.cap, s.coq_write(), sep, note))
    lines.append('].')
    lines.append('')
    lines.append('(* the same list without names, for the extracted driver (Proofs/BuffersProofs.site_table_matches) *)')
    lines.append('Definition site_table : list (Z * write) := [')
    for i, s in enumerate(sites):
        sep = ';' if i + 1 < len(sites) else ''
        lines.append('  ((%d), %s)%s' % (s.cap, s.coq_write(), sep))
    lines.append('].')
    lines.append('')
    text = '\n'.join(lines)
    edges = depth_edges(repo)
    gl = ['(* GENERATED by harness/translators/c11_buffers.py from /repo/src - do not edit. *)',
          'From Coq Require Import ZArith.',
          'Local Open Scope Z_scope.',
          '(* parser.cc: bound on the nesting of parenthesised sub-expressions (None: no guard in the source) *)',
          'Definition src_parse_depth_limit : option Z := %s.' % ('None' if g['parse_depth_limit'] is None else 'Some %d' % g['parse_depth_limit']),
          '(* times.cc date_parser_t::parse: `every 0 <unit>` is rejected *)',
          'Definition src_period_zero_guard : bool := %s.' % ('true' if g['period_zero_guard'] and g['period_quantity_unsigned'] else 'false'),
          '(* context.h MAX_LINE; textual.cc read_line: getline(linebuf, MAX_LINE) and the "Line exceeds" test *)',
          'Definition src_max_line : Z := %d.' % g['max_line'],
          'Definition src_line_getline : Z := %d.' % g['line_getline'],
          'Definition src_line_too_long_guard : bool := %s.' % ('true' if g['line_too_long_guard'] else 'false'),
          '(* value.cc operator/=: INTEGER / INTEGER tests the divisor before dividing *)',
          'Definition src_int_div_guard : bool := %s.' % ('true' if g['int_div_guard'] else 'false'),
          '(* parser.h next_token: bound on the tokens fetched for one expression *)',
          'Definition src_expr_token_limit : option Z := %s.' % opt(g['expr_token_limit']),
          '(* query.cc parse_query_term: bounds on parenthesis nesting and on the number of terms *)',
          'Definition src_query_depth_limit : option Z := %s.' % opt(g['query_depth_limit']),
          'Definition src_query_term_limit : option Z := %s.' % opt(g['query_term_limit']),
          '(* amount.cc in_place_roundto: bound on |places| (precision_t is uint_least16_t) *)',
          'Definition src_roundto_places_limit : option Z := %s.' % opt(g['roundto_places_limit']),
          '(* amount.cc parse_conversion rejects a conversion chain that leads back to its left side *)',
          'Definition src_conversion_cycle_guard : bool := %s.' % bl(g['conversion_cycle_guard']),
          '(* scope.h call_scope_t::get<expr_t::ptr_op_t> checks the index (any/all without argument) *)',
          'Definition src_expr_argument_guard : bool := %s.' % bl(g['expr_argument_guard']),
          '(* main.cc: the --script loop is `while (status == 0 && std::getline(in, line))` after an open check *)',
          'Definition src_script_loop_guard : bool := %s.' % bl(g['script_loop_guard']),
          '(* filters.cc: no `xact.journal->master` (generated budget/forecast transactions have no journal) *)',
          'Definition src_no_xact_journal_master : bool := %s.' % bl(g['no_xact_journal_master']),
          '(* account.cc find_account (recursive, one call per name segment) declares no fixed char array *)',
          'Definition src_find_account_no_frame_buffer : bool := %s.' % bl(g['find_account_no_frame_buffer']),
          '(* the repairs proposed for F51, F52, F53: false / None while they are not in the source *)',
          'Definition src_conversion_cycle_by_referent : bool := %s.' % bl(g['conversion_cycle_by_referent']),
          'Definition src_calc_depth_limit : option Z := %s.' % opt(g['calc_depth_limit']),
          'Definition src_format_width_limit : option Z := %s.' % opt(g['format_width_limit']),
          '(* the repairs proposed for F57 F58 F59: false while they are not in the source *)',
          'Definition src_draft_cost_post_guard : bool := %s.' % bl(g['draft_cost_post_guard']),
          'Definition src_include_self_guard : bool := %s.' % bl(g['include_self_guard']),
          'Definition src_conversion_larger_chain_guard : bool := %s.' % bl(g['conversion_larger_chain_guard']),
          '(* the repairs proposed for F63 F64: false / None while they are not in the source *)',
          'Definition src_debug_options_guard : bool := %s.' % bl(g['debug_options_guard']),
          'Definition src_justify_width_limit : option Z := %s.' % opt(g['justify_width_limit']),
          '(* format.cc parse_elements: `if (! *p) throw` after the step over a backslash (proposed for F67) *)',
          'Definition src_format_backslash_guard : bool := %s.' % bl(g['format_backslash_guard']),
          '(* xact.cc finalize: commodities_left and the choice of x, y use the same test (Model/Selection.v) *)',
          'Definition src_finalize_pick_uses_count_predicate : bool := %s.' % bl(g['finalize_pick_uses_count_predicate']),
          '(* journal.cc add_xact: sizes compared before the three-iterator std::equal (proposed for F68) *)',
          'Definition src_uuid_size_test_first : bool := %s.' % bl(g['uuid_size_test_first']),
          '(* the repairs proposed for F172-F178: false while they are not in the source *)',
          'Definition src_pager_close_guard : bool := %s.' % bl(g['pager_close_guard']),
          'Definition src_query_quoted_token_start : bool := %s.' % bl(g['query_quoted_token_start']),
          'Definition src_post_xact_null_guards : bool := %s.' % bl(g['post_xact_null_guards']),
          'Definition src_value_expr_reentry_guard : bool := %s.' % bl(g['value_expr_reentry_guard']),
          'Definition src_repetition_bound : bool := %s.' % bl(g['repetition_bound']),
          'Definition src_sort_empty_component_guard : bool := %s.' % bl(g['sort_empty_component_guard']),
          '(* unistring.h: width() and extract_by_width() take a negative mk_wcwidth as 0 columns (Model/Width.v; false: F211 open) *)',
          'Definition src_unistring_width_clamps_negative : bool := %s.' % bl(g['unistring_width_clamps_negative']),
          '(* journal.cc register_account: `post && post->xact &&` before post->xact->payee is read (Model/UnknownPayee.v) *)',
          'Definition src_unknown_payee_tests_post_and_xact : bool := %s.' % bl(g['unknown_payee_tests_post_and_xact']),
          '(* journal.cc expand_aliases: each branch records in already_seen the name it looked up (Model/Aliases.v) *)',
          'Definition src_alias_records_what_it_looks_up : bool := %s.' % bl(g['alias_records_what_it_looks_up']),
          '(* format.cc parse_elements `%$N`: template / index / null tests exactly as modelled in Model/FormatRef.v *)',
          'Definition src_format_field_ref_guard : bool := %s.' % bl(g['format_field_ref_guard']),
          '(* utils.h: assert(x) throws assertion_failed (NO_ASSERTS 0 unless DISABLE_ASSERTS) *)',
          'Definition src_asserts_throw : bool := %s.' % ('true' if flags['asserts'] else 'false'),
          '(* utils.h: READ_INTO / READ_INTO_ are textually the loops transcribed in Model/Buffers.v *)',
          'Definition src_read_into_as_modelled : bool := %s.' % ('true' if flags['read_into_ok'] else 'false'),
          '']
    el = ['(* GENERATED by harness/translators/c11_buffers.py from /repo/src - do not edit.',
          '   Every site where the evaluator re-enters op_t::calc / compile, or builds the call scope its',
          '   arguments are evaluated through: true = the recursion depth is handed on. *)',
          'From Coq Require Import List String.',
          'Import ListNotations.',
          'Local Open Scope string_scope.',
          'Definition src_depth_edges : list (string * bool) := [']
    for i, (lab, ok) in enumerate(edges):
        el.append('  (%s, %s)%s' % (coq_string(lab), 'true' if ok else 'false', ';' if i + 1 < len(edges) else ''))
    el.append('].')
    el.append('')
    return {'BufferSites.v': text, 'SafetyGuards.v': '\n'.join(gl), 'DepthEdges.v': '\n'.join(el)}


if __name__ == '__main__':
    import sys
    repo = sys.argv[1] if len(sys.argv) > 1 else '/repo'
    sites, consts, flags = scan(repo)
    for s in sites:
        print('%-44s cap=%-5d %-18s %-12s %s' % (s.uid, s.cap, s.kind, list(s.args), s.note[:70]))
    print(flags)
    print(scan_guards(repo, consts, flags))
