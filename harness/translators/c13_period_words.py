"""The period-expression vocabulary, re-read from src/times.cc on every run -> coq/Gen/PeriodWords.v

1. date_parser_t::lexer_t::next_token: the chain `else if (term == _("word") || ...) return token_t(token_t::TOK_X);`
   that follows to_lower(term) - which word is which token (`bimonthly` -> TOK_BIMONTHLY, `from`/`since` ->
   TOK_SINCE, ...), in source order (the first comparison that matches wins).
2. date_parser_t::parse: the three switches that turn tokens into the repeating duration -
   `every <int> <units>` (length = the integer, which must not be 0), `every <unit>` and the named forms
   (`case TOK_BIWEEKLY: period.duration = date_duration_t(date_duration_t::WEEKS, 2); break;`).

Model/PeriodExpr.v looks words and tokens up in these tables; Properties_C13 (named_forms_denote,
every_n_units_denote, every_unit_denotes, every_zero_rejected) requires them.
Narrow patterns, fail closed: an unrecognised shape yields empty tables (then no word is a keyword and no token sets
a duration, and none of those theorems holds); an unknown token or quantum name becomes T_OTHER / PQ_OTHER."""
import os, re

TOKS = ['AGO', 'HENCE', 'SINCE', 'UNTIL', 'IN', 'THIS', 'NEXT', 'LAST', 'EVERY', 'TODAY', 'TOMORROW', 'YESTERDAY',
        'YEAR', 'QUARTER', 'MONTH', 'WEEK', 'DAY', 'YEARLY', 'QUARTERLY', 'BIMONTHLY', 'MONTHLY', 'BIWEEKLY', 'WEEKLY',
        'DAILY', 'YEARS', 'QUARTERS', 'MONTHS', 'WEEKS', 'DAYS']
QUANTA = ['DAYS', 'WEEKS', 'MONTHS', 'QUARTERS', 'YEARS']

CMP = r'term == _\("([a-z]+)"\)'
LINK = r'else if \(((?:' + CMP + r'(?: \|\| )?)+)\) return token_t\(token_t::TOK_([A-Z_]+)\);'
CASE = r'case lexer_t::token_t::TOK_([A-Z_]+): period\.duration = date_duration_t\(date_duration_t::([A-Z_]+), (\w+)\); break; '
CASES = r'((?:' + CASE + r')+)'
EVERY = (r'case lexer_t::token_t::TOK_EVERY: tok = lexer\.next_token\(\); '
         r'if \(tok\.kind == lexer_t::token_t::TOK_INT\) \{ int quantity = boost::get<unsigned short>\(\*tok\.value\); '
         r'(if \(quantity == 0\) throw_\(date_error, _\("A repeating period must be at least one unit long"\)\); )?'
         r'tok = lexer\.next_token\(\); switch \(tok\.kind\) \{ ' + CASES + r'default: tok\.unexpected\(\); break; \} \} '
         r'else \{ switch \(tok\.kind\) \{ ' + CASES + r'default: tok\.unexpected\(\); break; \} \} break; '
         + CASES + r'default: tok\.unexpected\(\); break; \} \} #if 0')


def tok(name):
    return 'T_' + name if name in TOKS else 'T_OTHER'


def quantum(name):
    return 'PQ_' + name if name in QUANTA else 'PQ_OTHER'


def lexer_words(flat):
    """[(word, token)] in source order, or None"""
    m = re.search(r'else if \(std::isalpha\(static_cast<unsigned char>\(term\[0\]\)\)\) \{ to_lower\(term\); (.*?) \} else \{ '
                  r"token_t::expected\('\\0', term\[0\]\);", flat)
    if not m:
        return None
    body = m.group(1)
    # the chain starts after the month / weekday names
    k = body.find('else if (term == _(')
    if k < 0 or body[:k].count('term ==') != 0:
        return None
    chain = body[k:]
    links = list(re.finditer(LINK, chain))
    if ' '.join(l.group(0) for l in links) != chain.strip():
        return None                   # something between the links that this pattern does not understand
    out = []
    for l in links:
        for w in re.findall(CMP, l.group(1)):
            out.append((w, l.group(l.lastindex)))
    if len(out) != chain.count('term =='):
        return None
    return out


def cases(text, want_quantity):
    out = []
    for t, q, n in re.findall(CASE, text):
        if want_quantity:
            if n != 'quantity':
                return None
            out.append((t, q, None))
        else:
            if not n.isdigit():
                return None
            out.append((t, q, int(n)))
    return out


def parser_tables(flat):
    """(zero rejected, every-N table, every-unit table, named table) or None"""
    ms = list(re.finditer(EVERY, flat))
    if len(ms) != 1 or flat.count('period.duration = date_duration_t(') != len(re.findall(CASE, ms[0].group(0))):
        return None
    m = ms[0]
    groups = [g for g in m.groups()]
    # groups: 0 = the zero check; then for each CASES block the whole block followed by the 3 groups of its last case
    zero = groups[0] is not None
    blocks = [groups[1], groups[5], groups[9]]
    a, b, c = cases(blocks[0], True), cases(blocks[1], False), cases(blocks[2], False)
    if a is None or b is None or c is None:
        return None
    return zero, a, b, c


def coq_bytes(s):
    return '[' + '; '.join(str(b) for b in s.encode('latin-1')) + ']'


def generate(repo):
    src = open(os.path.join(repo, 'src', 'times.cc')).read()
    flat = re.sub(r'\s+', ' ', src)
    words = lexer_words(flat)
    tabs = parser_tables(flat)
    if words is None:
        words = []
    zero, every_n, every_1, named = tabs if tabs is not None else (False, [], [], [])
    note = '' if (words and tabs is not None) else ' (* unrecognised source shape *)'
    text = ['(* GENERATED by harness/translators/c13_period_words.py from src/times.cc - do not edit *)',
            'From Coq Require Import ZArith List.', 'Import ListNotations.', 'Local Open Scope Z_scope.',
            '(* the keyword tokens of the period lexer; T_OTHER = a token name this table does not know *)',
            'Inductive ptok := ' + ' | '.join('T_' + t for t in TOKS) + ' | T_OTHER.',
            'Scheme Equality for ptok.',
            'Inductive pquantum := ' + ' | '.join('PQ_' + q for q in QUANTA) + ' | PQ_OTHER.',
            '(* lexer_t::next_token: lower-cased word -> token, in source order (first match wins) *)',
            'Definition src_period_lexer_words : list (list Z * ptok) :=%s' % note,
            '  [' + ';\n   '.join('(%s, %s) (* %s *)' % (coq_bytes(w), tok(t), w) for w, t in words) + '].',
            '(* parse(): `every <int> <token>` -> the quantum whose length is the integer *)',
            'Definition src_period_every_n : list (ptok * pquantum) :=',
            '  [' + '; '.join('(%s, %s)' % (tok(t), quantum(q)) for t, q, _ in every_n) + '].',
            '(* parse(): the integer 0 after `every` is rejected before the unit is read *)',
            'Definition src_period_every_zero_rejected : bool := %s.' % ('true' if zero else 'false'),
            '(* parse(): `every <token>` -> (quantum, length) *)',
            'Definition src_period_every_1 : list (ptok * (pquantum * Z)) :=',
            '  [' + '; '.join('(%s, (%s, %d))' % (tok(t), quantum(q), n) for t, q, n in every_1) + '].',
            '(* parse(): a named form -> (quantum, length) *)',
            'Definition src_period_named : list (ptok * (pquantum * Z)) :=',
            '  [' + '; '.join('(%s, (%s, %d))' % (tok(t), quantum(q), n) for t, q, n in named) + '].',
            '']
    return {'PeriodWords.v': '\n'.join(text)}
