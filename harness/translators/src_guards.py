"""lines of the source that the hand-written models of C01/C02 (Model/Xact.v), C03 (Model/Amount.v), C04
(Model/AmountText.v), C08 (Model/Journal.v) and C09 (Model/Assert.v) transcribe  -> coq/Gen/SourceGuards.v

For every guard: the body of one function is cut out of the source (comments, DEBUG(..) statements and all white
space removed) and a list of snippets is looked for IN ORDER.  Found -> `true`; anything else (the function is
gone, a snippet is missing or out of order) -> `false`, which the theorem `model_transcribes_current_source` of the
property's file does not accept: the check then reports that the tie between model and source no longer holds and
searches for a failing input (a harmless rewrite of these lines can flip a guard too - see DESIGN.md section 3.2).
The names of the guards that are false are listed in a comment at the top of the generated file."""
import os, re


def strip(code):
    code = re.sub(r'//[^\n]*', '', code)
    code = re.sub(r'/\*.*?\*/', '', code, flags=re.S)
    code = re.sub(r'#if 0.*?#else', '', code, flags=re.S)          # dead alternative kept in finalize
    code = re.sub(r'#if DEBUG_ON.*?#endif', '', code, flags=re.S)
    code = re.sub(r'\bDEBUG\s*\((?:[^;"]|"(?:[^"\\]|\\.)*")*\)\s*;', '', code)
    return code


def body_of(code, start_re):
    """text of the brace-balanced block following the first match of start_re (white space removed)"""
    m = re.search(start_re, code)
    if not m:
        return None
    i = code.find('{', m.end() - 1)
    if i < 0:
        return None
    depth, j = 0, i
    while j < len(code):
        c = code[j]
        if c == '{':
            depth += 1
        elif c == '}':
            depth -= 1
            if depth == 0:
                return re.sub(r'\s+', '', code[i:j + 1])
        j += 1
    return None


def in_order(body, snippets):
    if body is None:
        return False
    pos = 0
    for s in snippets:
        k = body.find(re.sub(r'\s+', '', s), pos)
        if k < 0:
            return False
        pos = k + 1
    return True


# (property list, coq name, file, function start regex, snippets in order)
GUARDS = [
    (['C01', 'C02'], 'finalize_scan', 'src/xact.cc', r'bool\s+xact_base_t::finalize\s*\(\s*\)\s*\{', [
        'if (! post->must_balance()) continue;',
        'amount_t& p(post->cost ? *post->cost : post->amount);',
        'if (! p.is_null()) {',
        'add_or_set_value(balance, p.keep_precision() ? p.rounded().reduced() : p.reduced());',
        'else if (null_post) {',
        'Only one posting with null amount allowed per transaction',
        'else { null_post = post; }']),
    (['C02'], 'finalize_bucket', 'src/xact.cc', r'bool\s+xact_base_t::finalize\s*\(\s*\)\s*\{', [
        'if (journal && journal->bucket && posts.size() == 1 && ! balance.is_null()) {',
        'null_post = new post_t(journal->bucket, ITEM_INFERRED);']),
    (['C01'], 'zero_test_of_a_balance_is_display_zero', 'src/value.cc', r'bool\s+value_t::is_zero\s*\(\s*\)\s*const\s*\{', [
        'case AMOUNT: return as_amount().is_zero();', 'case BALANCE: return as_balance().is_zero();']),
    (['C02'], 'bucket_latest_declaration_wins_A', 'src/textual.cc', r'void\s+instance_t::default_account_directive\s*\(', [
        'context.journal->bucket = top_account()->find_account(skip_ws(line));']),
    (['C02'], 'bucket_latest_declaration_wins_default', 'src/textual.cc', r'void\s+instance_t::account_default_directive\s*\(', [
        '{ context.journal->bucket = account; }']),
    (['C01'], 'finalize_implied_rate', 'src/xact.cc', r'bool\s+xact_base_t::finalize\s*\(\s*\)\s*\{', [
        'std::size_t commodities_left = 0; if (! null_post && balance.is_balance()) foreach (const balance_t::amounts_map::value_type& pair, balance.as_balance().amounts) if (! pair.second.is_realzero()) commodities_left++;',
        'if (commodities_left == 2) {',
        'foreach (const balance_t::amounts_map::value_type& pair, bal.amounts) { if (pair.second.is_realzero()) continue; if (! x) x = &pair.second; else y = &pair.second; }',
        'if (! post->amount.is_null() && post->must_balance() && (post->amount.commodity() == x->commodity() || post->amount.commodity() == y->commodity())) { if (post->amount.has_annotation()) top_post = post; else if (! top_post) top_post = post; }',
        'if (post->cost && ! post->has_flags(POST_COST_CALCULATED)) { saw_cost = true; break; }',
        'if (! saw_cost && top_post) {',
        'if (*x && *y) { if (x->commodity() != top_post->amount.commodity()) std::swap(x, y);',
        'amount_t per_unit_cost = (*y / *x).abs().unrounded();',
        'if (post->must_balance() && amt.commodity() == comm) { balance -= amt; post->cost = per_unit_cost * amt; post->add_flags(POST_COST_CALCULATED); balance += *post->cost;']),
    (['C01', 'C02'], 'finalize_gain_loss', 'src/xact.cc', r'bool\s+xact_base_t::finalize\s*\(\s*\)\s*\{', [
        'if (! post->cost) continue;',
        'if (post->amount.commodity() == post->cost->commodity()) throw_(balance_error,',
        'if (post->amount.has_annotation() && post->amount.annotation().price) { if (breakdown.basis_cost.commodity() == breakdown.final_cost.commodity()) {',
        'if (amount_t gain_loss = breakdown.basis_cost - breakdown.final_cost) {',
        'gain_loss.in_place_round();',
        'if (post->must_balance()) add_or_set_value(balance, gain_loss.reduced());',
        '*post->cost += gain_loss;']),
    (['C01', 'C02'], 'finalize_decision', 'src/xact.cc', r'bool\s+xact_base_t::finalize\s*\(\s*\)\s*\{', [
        'if (null_post != NULL) {',
        'if (balance.is_balance()) balance.as_balance_lval().map_sorted_amounts(post_adder); else if (balance.is_amount()) post_adder(balance.as_amount_lval()); else if (balance.is_long()) post_adder(balance.to_amount()); else if (! balance.is_null() && ! balance.is_realzero()) throw_(balance_error,',
        'balance = NULL_VALUE;',
        'if (! balance.is_null() && ! balance.is_zero()) {',
        'if (all_null) return false; else if (some_null) throw_(balance_error,']),
    (['C02', 'C09'], 'balancing_post_keeps_kind', 'src/xact.cc', r'struct\s+add_balancing_post\s*\{', [
        'if (first) { null_post->amount = amount.negated(); null_post->add_flags(POST_CALCULATED); first = false; }',
        'p->copy_details(*null_post); p->set_flags(null_post->flags() | ITEM_GENERATED | POST_CALCULATED);']),
    (['C01', 'C02', 'C09'], 'must_balance', 'src/post.h', r'bool\s+must_balance\s*\(\s*\)\s*const\s*\{', [
        'return ! has_flags(POST_VIRTUAL) || has_flags(POST_MUST_BALANCE);']),
    (['C01', 'C02'], 'posting_line_split', 'src/utils.h', r'inline\s+char\s*\*\s*next_element\s*\(', [
        "if (! (*p == ' ' || *p == '\\t')) continue;",
        "if (! variable) { *p = '\\0'; return skip_ws(p + 1); }",
        "else if (*p == '\\t') { *p = '\\0'; return skip_ws(p + 1); }",
        "else if (*(p + 1) == ' ') { *p = '\\0'; return skip_ws(p + 2); }",
        'return NULL;']),
    (['C01', 'C02'], 'posting_line_skip_ws', 'src/utils.h', r'inline\s+char\s*\*\s*skip_ws\s*\(', [
        "while (*ptr == ' ' || *ptr == '\\t' || *ptr == '\\n') ptr++;"]),
    (['C01', 'C02'], 'posting_line_account', 'src/textual.cc', r'post_t\s*\*\s*instance_t::parse_post\s*\(', [
        'char * next = next_element(p, true);',
        'char * e = p + std::strlen(p);',
        'while (e > p && std::isspace(static_cast<unsigned char>(*(e - 1)))) e--;',
        "if ((*p == '[' && *(e - 1) == ']') || (*p == '(' && *(e - 1) == ')')) {",
        "if (*p == '[') {", 'post->add_flags(POST_MUST_BALANCE);',
        'p++; e--;',
        'string name(p, static_cast<string::size_type>(e - p));',
        "if (next && *next && (*next != ';' && *next != '=')) {"]),
    (['C01'], 'posting_line_state', 'src/textual.cc', r'post_t\s*\*\s*instance_t::parse_post\s*\(', [
        'char * p = skip_ws(line);', 'switch (*p) {',
        "case '*':", 'post->set_state(item_t::CLEARED);', 'p = skip_ws(p + 1);', 'break;',
        "case '!':", 'post->set_state(item_t::PENDING);', 'p = skip_ws(p + 1);', 'break;', '}',
        'char * next = next_element(p, true);']),
    (['C01'], 'virtual_cost_adds_flag', 'src/textual.cc', r'post_t\s*\*\s*instance_t::parse_post\s*\(', [
        'post->add_flags(POST_COST_VIRTUAL);']),
    (['C03', 'C08'], 'amount_add_precision', 'src/amount.cc', r'amount_t&\s*amount_t::operator\+=\s*\(\s*const\s+amount_t&\s*amt\s*\)\s*\{', [
        'mpq_add(MP(quantity), MP(quantity), MP(amt.quantity));',
        'if (has_commodity() == amt.has_commodity()) if (quantity->prec < amt.quantity->prec) quantity->prec = amt.quantity->prec;']),
    (['C03', 'C08'], 'amount_sub_precision', 'src/amount.cc', r'amount_t&\s*amount_t::operator-=\s*\(\s*const\s+amount_t&\s*amt\s*\)\s*\{', [
        'mpq_sub(MP(quantity), MP(quantity), MP(amt.quantity));',
        'if (has_commodity() == amt.has_commodity()) if (quantity->prec < amt.quantity->prec) quantity->prec = amt.quantity->prec;']),
    (['C03'], 'balance_add_amount', 'src/balance.cc', r'balance_t&\s*balance_t::operator\+=\s*\(\s*const\s+amount_t&\s*amt\s*\)\s*\{', [
        'if (amt.is_realzero()) return *this;',
        'if (i != amounts.end()) i->second += amt; else amounts.insert(amounts_map::value_type(&amt.commodity(), amt));']),
    (['C03'], 'balance_sub_amount', 'src/balance.cc', r'balance_t&\s*balance_t::operator-=\s*\(\s*const\s+amount_t&\s*amt\s*\)\s*\{', [
        'if (amt.is_realzero()) return *this;',
        'if (i != amounts.end()) { i->second -= amt; if (i->second.is_realzero()) amounts.erase(i); } else { amounts.insert(amounts_map::value_type(&amt.commodity(), amt.negated())); }']),
    (['C03'], 'balance_mul_zero', 'src/balance.cc', r'balance_t&\s*balance_t::operator\*=\s*\(\s*const\s+amount_t&\s*amt\s*\)\s*\{', [
        'if (is_realzero()) { ; } else if (amt.is_realzero()) { *this = amt; }']),
    (['C02', 'C03'], 'sorted_amounts_skips_null_only', 'src/balance.cc', r'void\s+balance_t::sorted_amounts\s*\(', [
        'if (! pair.second.is_null())']),
    (['C03'], 'balance_less_than_loop', 'src/value.cc', r'bool\s+value_t::is_less_than\s*\(\s*const\s+value_t&\s*val\s*\)\s*const\s*\{', [
        'case BALANCE: switch (val.type()) { case INTEGER: case AMOUNT: { bool no_amounts = true;'
        ' balance_t::amounts_array sorted; as_balance().sorted_amounts(sorted);'
        ' foreach (const amount_t * amount, sorted) {'
        ' if (*amount >= val) return false; no_amounts = false; } return ! no_amounts; }',
        'case BALANCE: return val.to_amount() > to_amount();']),
    (['C03'], 'balance_greater_than_loop', 'src/value.cc', r'bool\s+value_t::is_greater_than\s*\(\s*const\s+value_t&\s*val\s*\)\s*const\s*\{', [
        'case BALANCE: switch (val.type()) { case INTEGER: case AMOUNT: { bool no_amounts = true;'
        ' balance_t::amounts_array sorted; as_balance().sorted_amounts(sorted);'
        ' foreach (const amount_t * amount, sorted) {'
        ' if (*amount <= val) return false; no_amounts = false; } return ! no_amounts; }',
        'case BALANCE: return val.to_amount() < to_amount();']),
    (['C03', 'C19'], 'sorted_amounts_stable_sort_by_commodity', 'src/balance.cc', r'void\s+balance_t::sorted_amounts\s*\(', [
        'foreach (const amounts_map::value_type& pair, amounts) if (! pair.second.is_null()) sorted.push_back(&pair.second);',
        'std::stable_sort( sorted.begin(), sorted.end(), [](const amount_t * left, const amount_t * right) {'
        ' return commodity_t::compare_by_commodity()(left, right) < 0; });']),
    (['C03', 'C19'], 'compare_by_commodity_base_symbol_first', 'src/commodity.cc', r'int\s+commodity_t::compare_by_commodity::operator\(\)\s*\(', [
        'commodity_t& leftcomm(left->commodity()); commodity_t& rightcomm(right->commodity());',
        'int cmp = leftcomm.base_symbol().compare(rightcomm.base_symbol()); if (cmp != 0) { return cmp; }',
        'if (! leftcomm.has_annotation() && rightcomm.has_annotation()) { return -1; }']),
    (['C03'], 'value_div_cells', 'src/value.cc', r'value_t&\s*value_t::operator/=\s*\(\s*const\s+value_t&\s*val\s*\)\s*\{', [
        'case INTEGER: switch (val.type()) { case INTEGER: if (val.as_long() == 0)',
        'as_balance_lval() /= val.as_amount();']),
    (['C08'], 'subtotal_date_range', 'src/filters.cc', r'void\s+subtotal_posts::report_subtotal\s*\(', [
        'if (! range_start || ! range_finish) {', 'foreach (post_t * post, component_posts) {',
        'date_t date = post->date();', 'date_t value_date = post->value_date();',
        'if (! range_start || date < *range_start) range_start = date;',
        'if (! range_finish || value_date > *range_finish) range_finish = value_date;',
        'xact._date = *range_start;']),
    (['C03', 'C04'], 'parse_strips_marks_before_conversion', 'src/amount.cc', r'bool\s+amount_t::parse\s*\(\s*std::istream&\s*in', [
        'if (last_comma != string::npos || last_period != string::npos) {',
        'while (*p) { if (*p == \',\' || *p == \'.\') { p++; continue; } *t++ = *p++; } *t = \'\\0\';',
        'if (mpq_set_str(MP(new_quantity.get()), buf.get(), 10) != 0) throw_(amount_error, _("Invalid quantity in amount"));',
        'if (mpq_set_str(MP(new_quantity.get()), quant.c_str(), 10) != 0) throw_(amount_error, _("Invalid quantity in amount"));']),
    (['C04', 'C08'], 'parse_teaches_style_and_precision', 'src/amount.cc', r'bool\s+amount_t::parse\s*\(\s*std::istream&\s*in', [
        'else if (commodity_ && ! no_migrate_style) { commodity().add_flags(comm_flags); if (new_quantity->prec > commodity().precision()) commodity().set_precision(new_quantity->prec); }']),
    (['C04'], 'only_format_fixes_display', 'src/textual.cc', r'void\s+instance_t::commodity_nomarket_directive\s*\(', [
        'comm.add_flags(COMMODITY_NOMARKET);']),
    (['C04'], 'format_directive_fixes', 'src/textual.cc', r'void\s+instance_t::commodity_format_directive\s*\(', [
        'amt.parse(format, PARSE_NO_REDUCE);', 'amt.commodity().add_flags(COMMODITY_STYLE_NO_MIGRATE);']),
    (['C04'], 'no_migrate_read_from_commodity', 'src/amount.cc', r'bool\s+amount_t::parse\s*\(\s*std::istream&\s*in', [
        'bool no_migrate_style = commodity().has_flags(COMMODITY_STYLE_NO_MIGRATE);']),
    (['C04'], 'needs_quotes_uses_table', 'src/commodity.cc', r'bool\s+commodity_t::symbol_needs_quotes\s*\(', [
        'foreach (char ch, symbol) if (invalid_chars[static_cast<unsigned char>(ch)]) return true;',
        'return is_reserved_token(symbol.c_str());']),
    (['C04'], 'reserved_words_compared_whole', 'src/commodity.cc', r'bool\s+is_reserved_token\s*\(', [
        'switch (buf[0]) {',
        'return std::strcmp(buf, "and") == 0;', 'return std::strcmp(buf, "div") == 0;',
        'return std::strcmp(buf, "else") == 0;', 'return std::strcmp(buf, "false") == 0;',
        'return std::strcmp(buf, "if") == 0;', 'return std::strcmp(buf, "or") == 0;',
        'return std::strcmp(buf, "not") == 0;', 'return std::strcmp(buf, "true") == 0;',
        'return false;']),
    (['C04'], 'bare_symbol_scan', 'src/commodity.cc', r'void\s+commodity_t::parse_symbol\s*\(\s*std::istream', [
        'while (_p - buf < 255 && in.good() && ! in.eof() && ! invalid_chars[c]) {',
        'if (is_reserved_token(buf)) buf[0] = \'\\0\';']),
    (['C04'], 'column_quote_elision', 'src/commodity.cc', r'void\s+commodity_t::print\s*\(', [
        'if (elide_quotes && has_flags(COMMODITY_STYLE_SEPARATED) && ! sym.empty() && sym[0] == \'"\' && ! std::strchr(sym.c_str(), \' \')) {',
        'if (! all(subsym, is_digit())) out << subsym; else out << sym;']),
    (['C09'], 'assertion_block', 'src/textual.cc', r'post_t\s*\*\s*instance_t::parse_post\s*\(', [
        'value_t account_total (post->account->amount(!post->has_flags(POST_VIRTUAL)).strip_annotations(keep_details_t()));',
        'balance_t diff = amt;',
        'case value_t::AMOUNT: { amount_t amt(account_total.as_amount().strip_annotations(keep_details_t())); diff -= amt;',
        'case value_t::BALANCE: { balance_t bal(account_total.as_balance().strip_annotations(keep_details_t())); diff -= bal;',
        'for (post_t* p : xact->posts) { if (p->account == post->account && (post->has_flags(POST_VIRTUAL) || ! p->has_flags(POST_VIRTUAL))) { amount_t amt(p->amount.strip_annotations(keep_details_t())); diff -= amt;',
        'balance_t plain; foreach (const balance_t::amounts_map::value_type& pair, diff.amounts) { amount_t component(pair.second); if (component.has_annotation()) component.set_commodity(component.commodity().referent()); plain += component; } diff = plain;',
        'if (amt.has_commodity()) {',
        'optional<amount_t> wanted_commodity = diff.commodity_amount(amt.commodity()); if (!wanted_commodity) { diff = amt - amt; } else { diff = *wanted_commodity; }',
        'if (post->amount.is_null()) { if (! diff.is_zero()) { post->amount = diff.to_amount();',
        '} else { post->amount = amt - amt;',
        'amount_t this_amt(post->amount.strip_annotations(keep_details_t())); if (this_amt.has_annotation()) this_amt.set_commodity(this_amt.commodity().referent()); if (! amt.has_commodity() || this_amt.commodity() == amt.commodity()) diff -= this_amt; if (! no_assertions && ! diff.is_zero()) {']),
    (['C09'], 'generated_postings_reach_accounts', 'src/xact.cc', r'void\s+auto_xact_t::extend_xact\s*\(', [
        'xact.add_post(new_post);', 'new_post->account->add_post(new_post);',
        'new_post->xdata().add_flags(POST_EXT_VISITED);', 'new_post->account->xdata().add_flags(ACCOUNT_EXT_VISITED);']),
    (['C09'], 'written_postings_reach_accounts', 'src/xact.cc', r'bool\s+xact_base_t::finalize\s*\(\s*\)\s*\{', [
        'post->account->add_post(post);',
        'post->xdata().add_flags(POST_EXT_VISITED);', 'post->account->xdata().add_flags(ACCOUNT_EXT_VISITED);']),
    (['C09'], 'include_passes_no_assertions', 'src/textual.cc', r'void\s+instance_t::include_directive\s*\(', [
        'instance_t instance(context_stack, context_stack.get_current(), this, no_assertions, hash_type);']),
    (['C09'], 'session_keeps_totals_across_files', 'src/session.cc', r'std::size_t\s+session_t::read_data\s*\(', [
        'xact_count += journal->read(parsing_context, HANDLER(hashes_).hash_type, false);',
        'journal->clear_xdata();']),
    (['C09'], 'deferred_posting_flag', 'src/textual.cc', r'post_t\s*\*\s*instance_t::parse_post\s*\(', [
        "else if (*p == '<' && *(e - 1) == '>') { post->add_flags(POST_DEFERRED); p++; e--; }"]),
    (['C09'], 'deferred_postings_are_held', 'src/xact.cc', r'bool\s+xact_base_t::finalize\s*\(\s*\)\s*\{', [
        'if (post->has_flags(POST_DEFERRED)) { if (!post->amount.is_null()) post->account->add_deferred_post(id(), post); } else { post->account->add_post(post); }']),
    (['C09'], 'deferred_postings_released_at_end_of_file', 'src/textual.cc', r'std::size_t\s+journal_t::read_textual\s*\(', [
        'instance.parse();', 'master->apply_deferred_posts();']),
    (['C09'], 'deferred_postings_released_in_full', 'src/account.cc', r'void\s+account_t::apply_deferred_posts\s*\(\s*\)\s*\{', [
        'if (deferred_posts) { foreach (deferred_posts_map_t::value_type& pair, *deferred_posts) { foreach (post_t * post, pair.second) post->account->add_post(post); } deferred_posts = none; }',
        'foreach (const accounts_map::value_type& pair, accounts) pair.second->apply_deferred_posts();']),
    (['C09'], 'apply_account_pushes_child_of_top', 'src/textual.cc', r'void\s+instance_t::apply_account_directive\s*\(', [
        'if (account_t * acct = top_account()->find_account(line)) apply_stack.push_front(application_t("account", acct));']),
    (['C09'], 'transaction_read_below_top_account', 'src/textual.cc', r'xact_t\s*\*\s*instance_t::xact_directive\s*\(', [
        'if (xact_t * xact = parse_xact(line, len, top_account(), previous_xact)) {']),
    (['C09'], 'posting_read_below_given_account', 'src/textual.cc', r'xact_t\s*\*\s*instance_t::parse_xact\s*\(', [
        'parse_post(p, len - (p - line), account, xact.get())) {']),
    (['C09'], 'posting_account_registered_below_master', 'src/textual.cc', r'post_t\s*\*\s*instance_t::parse_post\s*\(', [
        'post->account = context.journal->register_account(name, post.get(), account);']),
    (['C09'], 'register_account_finds_below_master', 'src/journal.cc', r'account_t\s*\*\s*journal_t::register_account\s*\(', [
        'account_t * result = expand_aliases(name);', 'if (! result) result = master_account->find_account(name);']),
]


def generate(repo):
    cache = {}
    lines, failed, per_prop = [], [], {}
    for props, name, path, start, snippets in GUARDS:
        if path not in cache:
            try:
                cache[path] = strip(open(os.path.join(repo, path), encoding='utf-8', errors='replace').read())
            except OSError:
                cache[path] = ''
        ok = in_order(body_of(cache[path], start), snippets)
        if not ok:
            failed.append(name)
        lines.append('(* %s, %s *)\nDefinition src_%s : bool := %s.' % (path, ', '.join(props), name, 'true' if ok else 'false'))
        for p in props:
            per_prop.setdefault(p, []).append('src_' + name)
    text = ['(* GENERATED by harness/translators/src_guards.py from /repo/src - do not edit *)',
            '(* guards that are false for the current source: %s *)' % (', '.join(failed) if failed else 'none'),
            'From Coq Require Import List Bool.', 'Import ListNotations.', ''] + lines + ['']
    for p in sorted(per_prop):
        text.append('Definition src_guards_%s : list bool := [%s].' % (p, '; '.join(per_prop[p])))
    return {'SourceGuards.v': '\n'.join(text) + '\n'}
