"""every iteration over an address-keyed or hashed container of src/ and how its order is neutralised -> coq/Gen/OrderSites.v

Containers: every `std::unordered_map/unordered_set` (any key) and every `std::map/set/multimap/multiset` whose key is a
raw pointer (`commodity_t *`, `account_t *`, `post_t *`, `xact_t *`, ...), declared by typedef or directly, in src/*.h and
src/*.cc.  Left out (documented): py_*.cc / pyinterp.* / pyutils.h (python is not built) and utils.cc (the memory-tracing
maps keyed by void*, compiled under VERIFY_ON only).  A pointer-keyed container with an explicit comparator is listed with
kind `by_comparator:<name>` when the comparator is one of the value comparators whose normalised text is pinned below
(compare_account_names / account_compare / commodity_compare / by_graph_index), else `by_comparator_unrecognised`.

Sites: every `foreach (.., X)`, range-`for (.. : X)`, `X.begin()` and `std::for_each/max_element/min_element(X.begin()`
where X is a variable or member of such a container type (`amounts`, `.amounts`, or a declared variable of the type).
Each site is (file, enclosing function, container type) + a tag read off the loop body by NARROW patterns:
  OTElementwise   every entry updated in place by a function of that entry alone (in_place_*, `pair.second *= amt`)
  OTCommutative   entries only accumulated into a balance by += / -= (exact rational addition), counted, or their keys
                  inserted into a value-keyed set; boolean flags set to a constant
  OTExistence     a pure all/any test returning a constant
  OTUniqueMatch   returns the entry equal to a given commodity (at most one entry can match)
  OTSorted        entries collected then sorted by a value key before use (stable_sort by compare_by_commodity; std::sort
                  of the printed strings)
  OTSingleton     begin() used where the container is known to hold exactly one entry (size() == 1 tested first)
  OTAllPlainOnly  an all-test whose per-entry comparison can throw for a commoditized argument: order-free only against an
                  uncommoditized number (finding F190, repaired: the shape is gone from the source and no longer accepted)
  OTFirstEntry    begin() of a container of several entries used as THE answer (order dependent: finding F191, repaired;
                  no longer accepted)
  OTArgmaxTies    std::max_element over the address-ordered map with a comparator on the mapped value: ties are decided by
                  address order (order dependent: candidate finding)
  OTDebugDump     balance_t::dump / DEBUG-only listing: printed in table order, next to object addresses, debug output only
  OTUnknown       anything else  (no theorem accepts it)
Sorted walks: every local `amounts_array NAME;` (container "amounts_array") is a site as well: OTSorted while NAME is filled
by the call `sorted_amounts(NAME);` that follows its declaration and is otherwise only read (foreach / empty() / *front());
anything else OTUnknown.  value_t::is_less_than, is_greater_than (F190) and top_amount (F191) are such walks since /repo
55e6d28 / 195dbe5; their former shapes would still come out as OTAllPlainOnly / OTFirstEntry, which no theorem accepts now.
Properties_C19.v requires the regenerated list to equal, site by site, the list Proofs/OrderSitesProofs.v covers and to
contain no OTUnknown: a new iteration, a removed sort or a changed loop body breaks a proof obligation."""
import os, re

EXCLUDE = re.compile(r'^(py_.*|pyinterp\..*|pyutils\.h|pyfstream\.h|utils\.cc)$')

PINNED_COMPARATORS = {
    # name -> the normalised text of the struct's body: a comparison of values (names, symbols, graph indices).
    # compare_account_names falls back to the addresses only for two different accounts of one full name.
    'compare_account_names': 'bool operator()(const account_t * left, const account_t * right) const { const string left_name(left->fullname()); const string right_name(right->fullname()); if (left_name != right_name) return left_name < right_name; return left < right; }',
    'account_compare': 'bool operator() (const account_t& lhs, const account_t& rhs) const { return (lhs.fullname().compare(rhs.fullname()) < 0); }',
    'commodity_compare': 'bool operator() (const commodity_t* lhs, const commodity_t* rhs) const { return (lhs->symbol().compare(rhs->symbol()) < 0); }',
    'by_graph_index': 'bool operator()(const commodity_t * a, const commodity_t * b) const { return *a->graph_index() < *b->graph_index(); }',
}

# loop bodies too long for a readable pattern: sha256 of the normalised body -> tag
PINNED_BODIES = {
    # average_lot_prices (balance.cc): per base symbol, quantities and price*quantity summed, the earliest date kept
    '6afd93b453ef69ebd53c6c9818ff796e2de5bdaf27f5af37473c608adb373a94': 'OTCommutative',
}


def strip(src):
    """comments, string/char literals and preprocessor lines blanked (same length, newlines kept)"""
    out = []
    i, n = 0, len(src)
    while i < n:
        c = src[i]
        if src.startswith('//', i):
            j = src.find('\n', i)
            j = n if j < 0 else j
            out.append(' ' * (j - i)); i = j
        elif src.startswith('/*', i):
            j = src.find('*/', i + 2)
            j = n if j < 0 else j + 2
            out.append(re.sub(r'[^\n]', ' ', src[i:j])); i = j
        elif c == '"' or c == "'":
            j = i + 1
            while j < n and src[j] != c:
                j += 2 if src[j] == '\\' else 1
            out.append(c + ' ' * (j - i - 1) + c); i = j + 1
        else:
            out.append(c); i += 1
    text = ''.join(out)
    return re.sub(r'(?m)^[ \t]*#[^\n]*', lambda m: ' ' * len(m.group(0)), text)


def match_close(text, i, open_c, close_c):
    d = 0
    for j in range(i, len(text)):
        if text[j] == open_c:
            d += 1
        elif text[j] == close_c:
            d -= 1
            if d == 0:
                return j
    return -1


CONTROL = re.compile(r'^(if|for|foreach|while|switch|else|do|try|catch|BOOST_REVERSE_FOREACH)\b')


def enclosing_function(text, pos):
    """name of the innermost enclosing function-like block, its body start and end"""
    depth = 0
    j = pos
    while j > 0:
        j -= 1
        c = text[j]
        if c == '}':
            depth += 1
        elif c == '{':
            if depth > 0:
                depth -= 1
                continue
            k = j
            while k > 0 and text[k - 1] not in ';{}':
                k -= 1
            head = ' '.join(text[k:j].split())
            head = re.sub(r'^(public|private|protected) ?: ?', '', head)
            if CONTROL.match(head) or head == '' or head.startswith('case ') or head.endswith(':') and '(' not in head:
                continue
            if re.match(r'^(namespace|struct|class|enum|union|extern)\b', head):
                return '?', j, match_close(text, j, '{', '}')
            if '(' in head:
                h = re.sub(r'\)\s*(const)?\s*(throw\(\))?\s*(:.*)?$', ')', head)
                h = h[:h.rfind('(')] if h.endswith(')') and h.count('(') == 1 else h[:h.find('(')]
                m = re.search(r'((?:\w+::)*(?:operator\s*\S+|~?\w+))\s*$', h)
                return (m.group(1).replace(' ', '') if m else '?'), j, match_close(text, j, '{', '}')
            continue
    return '?', 0, len(text)


def statement_after(text, i):
    """the loop body that starts at text[i:] (after the loop header): a braced block or one statement"""
    j = i
    while text[j].isspace():
        j += 1
    if text[j] == '{':
        e = match_close(text, j, '{', '}')
        return text[j:e + 1]
    # a single statement, possibly an if/else with blocks
    k = j
    while True:
        m = re.match(r'\s*(if\s*\(|else\b)', text[k:])
        if m and m.group(1).startswith('if'):
            p = k + m.end() - 1
            k = match_close(text, p, '(', ')') + 1
            continue
        if m:
            k += m.end()
            continue
        while text[k].isspace():
            k += 1
        if text[k] == '{':
            k = match_close(text, k, '{', '}') + 1
        else:
            k = text.find(';', k) + 1
        if re.match(r'\s*else\b', text[k:]):
            continue
        return text[j:k]


def norm(s):
    s = re.sub(r'\s+', ' ', s).strip()
    prev = None
    while prev != s:                       # DEBUG(..) statements say nothing
        prev = s
        m = re.search(r'\bDEBUG\(', s)
        if m:
            e = match_close(s, m.end() - 1, '(', ')')
            s = (s[:m.start()] + s[e + 1:].lstrip(' ;')).strip()
    return re.sub(r'\s+', ' ', s)


BODY_RULES = [
    ('OTElementwise', r'pair\.second\.in_place_\w+\((places)?\);'),
    ('OTElementwise', r'pair\.second [*/]= amt;'),
    ('OTCommutative', r'(temp|\*this) (\+=|-=) pair\.second(\.(abs|reduced|unreduced|number)\(\)|\.strip_annotations\(what_to_keep\))?;'),
    ('OTCommutative', r'\{ if \(optional<amount_t> val = pair\.second\.value\(moment, in_terms_of\)\) \{ temp \+= \*val; resolved = true; \} else \{ temp \+= pair\.second; \} \}'),
    ('OTCommutative', r'\{ if \(! force\[index\] && std::find\(comms\.begin\(\), comms\.end\(\), &pair\.first->referent\(\)\) != comms\.end\(\)\) \{ temp \+= pair\.second; \} else \{ if \(optional<amount_t> val = pair\.second\.value\(moment, comm\)\) \{ temp \+= \*val; repriced = true; \} else \{ temp \+= pair\.second; \} \} \}'),
    ('OTCommutative', r'\{ call_scope_t inner_args\(\*args\.parent\); inner_args\.push_back\(pair\.second\); inner_args\.push_back\(arg1\); tmp \+= fn_nail_down\(inner_args\)\.as_amount\(\); \}'),
    ('OTCommutative', r'\{ amount_t component\(pair\.second\); if \(component\.has_annotation\(\)\) component\.set_commodity\(component\.commodity\(\)\.referent\(\)\); plain \+= component; \}'),
    ('OTCommutative', r'if \(! pair\.second\.is_realzero\(\)\) commodities_left\+\+;'),
    ('OTExistence', r'if \(!? ?pair\.second\.(is_nonzero|is_zero|is_realzero|valid)\(\)\) (\{ )?return (true|false);( \})?'),
    ('OTUniqueMatch', r'\{ if \(\*\(\*i\)\.first == comm\) return i; \}'),
    ('OTAllPlainOnly', r'\{ if \(pair\.second (>=|<=) val\) return false; no_amounts = false; \}'),
    ('OTDebugDump', r'\{ if \(first\) first = false; else out << " "; pair\.second\.print\(out\); \}'),
]
# rules that also need something about the rest of the function
CONTEXT_RULES = [
    ('OTSorted', r'if \(! pair\.second\.is_null\(\)\) sorted\.push_back\(&pair\.second\);',
     r'std::stable_sort\( sorted\.begin\(\), sorted\.end\(\), \[\]\(const amount_t \* left, const amount_t \* right\) \{ return commodity_t::compare_by_commodity\(\)\(left, right\) < 0; \}\);'),
    ('OTSorted', r'\{ std::ostringstream buf; pair\.second\.verif_rational\(buf\); parts\.push_back\(buf\.str\(\)\); \}',
     r'\} std::sort\(parts\.begin\(\), parts\.end\(\)\);'),
    # the two entries that are not exactly zero, then oriented by the first posting in one of the two commodities
    ('OTSorted', r'\{ if \(pair\.second\.is_realzero\(\)\) continue; if \(! x\) x = &pair\.second; else y = &pair\.second; \}',
     r'if \(x->commodity\(\) != top_post->amount\.commodity\(\)\) std::swap\(x, y\);'),
    # only the keys (dates) of the prices collected are used afterwards
    ('OTCommutative', r'amt_comm\.first->map_prices\(insert_prices_in_map\(all_prices\), datetime_t\(current\), datetime_t\(post\.value_date\(\)\), true\);',
     r'BOOST_REVERSE_FOREACH\(const price_map_t::value_type& price, all_prices\) \{ pricing_dates\.insert\(date_map::value_type\(price\.first\.date\(\), true\)\); \}'),
    ('OTDebugDump', r'\{ \}', r'SHOW_DEBUG\(" ?"\)'),
]


def classify_loop(body, fn_body):
    b = norm(body)
    for tag, pat in BODY_RULES:
        if re.fullmatch(pat, b):
            return tag
    import hashlib
    h = hashlib.sha256(b.encode()).hexdigest()
    if h in PINNED_BODIES:
        return PINNED_BODIES[h]
    if os.environ.get('ORDER_SITES_DEBUG'):
        print('UNMATCHED', h, b[:300])
    f = norm(fn_body)
    for tag, pat, ctx in CONTEXT_RULES:
        if re.fullmatch(pat, b) and re.search(ctx, f):
            return tag
    return 'OTUnknown'


def coq_str(s):
    return '"' + s.replace('"', '""') + '"'


def generate(repo):
    sdir = os.path.join(repo, 'src')
    files = sorted(f for f in os.listdir(sdir) if re.search(r'\.(h|cc)$', f) and not EXCLUDE.match(f))
    texts = {f: strip(open(os.path.join(sdir, f), encoding='utf-8', errors='replace').read()) for f in files}
    # ---- containers
    containers = []          # (file, name, kind, is_typedef)
    decl = re.compile(r'(typedef\s+)?std::(unordered_map|unordered_set|unordered_multimap|map|set|multimap|multiset)\s*<')
    for f in files:
        t = texts[f]
        for m in decl.finditer(t):
            lt = m.end() - 1
            gt = match_close(t, lt, '<', '>')
            if gt < 0:
                continue
            rest = re.match(r'\s*(::\w+)?\s*(\w+)?\s*[;(=]', t[gt + 1:])
            if not rest or rest.group(1) or not rest.group(2):
                continue         # `::value_type`, `::iterator`, a temporary, a return type: not a declaration of a container
            name = rest.group(2)
            args, d, cur = [], 0, ''
            for ch in t[lt + 1:gt]:
                if ch in '<(':
                    d += 1
                if ch in '>)':
                    d -= 1
                if ch == ',' and d == 0:
                    args.append(cur.strip()); cur = ''
                else:
                    cur += ch
            args.append(cur.strip())
            kindname = m.group(2)
            key = ' '.join(args[0].split())
            ptr_key = bool(re.fullmatch(r'(const )?[\w:]+ ?\*( const)?', key))
            if kindname.startswith('unordered'):
                kind = 'hashed'
            elif ptr_key:
                ncmp = 2 if 'map' in kindname else 1
                if len(args) > ncmp:
                    cmp_ = args[ncmp]
                    ok = False
                    if cmp_ in PINNED_COMPARATORS:
                        for g in files:
                            mm = re.search(r'struct\s+' + cmp_ + r'\s*\{', texts[g])
                            if mm:
                                e = match_close(texts[g], mm.end() - 1, '{', '}')
                                ok = ' '.join(texts[g][mm.end():e].split()) == PINNED_COMPARATORS[cmp_]
                    kind = ('by_comparator:' + cmp_) if ok else 'by_comparator_unrecognised'
                else:
                    kind = 'address_ordered'
            else:
                continue
            containers.append((f, name, kind, bool(m.group(1))))
    containers.sort()
    # ---- variables of the order-sensitive types (hashed / address_ordered / unrecognised comparator)
    sens = [c for c in containers if not c[2].startswith('by_comparator:')]
    type_names = {c[1]: c for c in sens if c[3]}
    stem = lambda f: f.rsplit('.', 1)[0]
    scoped = {}                # (file stem, variable name) -> container type name; `amounts` (public member of balance_t) everywhere
    for c in sens:
        if not c[3]:
            scoped[(stem(c[0]), c[1])] = c[1]
    for f in files:
        for tn in type_names:
            for m in re.finditer(r'(?<![\w:])(?:\w+::)?' + tn + r'\s+(\w+)\s*[;=(]', texts[f]):
                if m.group(1) not in ('iterator', 'const_iterator', 'value_type'):
                    scoped[(stem(f), m.group(1))] = tn
    # ---- iteration sites
    sites = []
    for f in files:
        t = texts[f]
        var_of = {v: tn for (st, v), tn in scoped.items() if st == stem(f) or (v == 'amounts' and tn == 'amounts_map')}
        found = []             # (pos, var, kind-of-site, body-start)
        for m in re.finditer(r'\b(foreach|BOOST_REVERSE_FOREACH|for)\s*\(', t):
            p = m.end() - 1
            e = match_close(t, p, '(', ')')
            head = t[p + 1:e]
            if m.group(1) == 'for':
                mm = re.fullmatch(r'[^;]*?:\s*(.*)', head, re.S) if ';' not in head else None
                expr = mm.group(1) if mm else None
                if expr is None:
                    continue       # a begin()/end() loop is found through its begin() below
            else:
                d, cut = 0, None
                for k, ch in enumerate(head):
                    if ch in '(<':
                        d += 1
                    elif ch in ')>':
                        d -= 1
                    elif ch == ',' and d == 0:
                        cut = k
                expr = head[cut + 1:] if cut is not None else None
                if expr is None:
                    continue
            mv = re.search(r'(\w+)\s*$', expr.strip())
            if mv and mv.group(1) in var_of:
                found.append((m.start(), mv.group(1), 'loop', e + 1))
        for m in re.finditer(r'(\w+)\s*\.\s*c?begin\s*\(\s*\)', t):
            if m.group(1) in var_of:
                found.append((m.start(), m.group(1), 'begin', m.end()))
        for pos, var, how, after in sorted(found):
            fn, b0, b1 = enclosing_function(t, pos)
            fn_body = t[b0:b1 + 1]
            cont = var_of[var]
            if how == 'loop':
                tag = classify_loop(statement_after(t, after), fn_body)
            else:
                pre = norm(t[b0:pos])
                stmt_s = max(t.rfind(';', 0, pos), t.rfind('{', 0, pos), t.rfind('}', 0, pos))
                stmt = norm(t[stmt_s + 1:t.find(';', pos) + 1])
                if re.search(r'for \((\w+::)*(const_)?iterator i =$', pre):
                    fp = t.rfind('for', 0, pos)
                    e = match_close(t, t.find('(', fp), '(', ')')
                    tag = classify_loop(statement_after(t, e + 1), fn_body)
                elif re.search(r'std::max_element\(' + var + r'\.begin\(\), ' + var + r'\.end\(\), usage_sorter\(\)\)', stmt) \
                        and 'return left.second < right.second;' in norm(t):
                    tag = 'OTArgmaxTies'
                elif re.search(r'\b' + var + r'\.size\(\) == 1 &&$', pre) or \
                        re.search(r'if \((\w+\.)?' + var + r'\.size\(\) == 1\) \{? ?(const amount_t& amount\(\(\*|set_amount\(amount_t\(\(\*(\w+\.)?|if \(\*|return)$', pre) or \
                        re.search(r'if \(\*' + var + r'\.begin\(\)->first == amt\.commodity\(\)\)$', pre):
                    tag = 'OTSingleton'
                elif re.fullmatch(r'case value_t::BALANCE: return \(\*val\.as_balance\(\)\.' + var + r'\.begin\(\)\)\.second;', stmt) and fn == 'top_amount':
                    tag = 'OTFirstEntry'
                else:
                    tag = 'OTUnknown'
            sites.append((f, fn, cont, tag))
    # ---- walks over the SORTED entries of a balance: a local `amounts_array NAME;` (a vector of pointers into the table).
    # The order of NAME is a function of the table's contents only while NAME is filled by balance_t::sorted_amounts (itself
    # the OTSorted site of balance.cc) and by nothing else: every occurrence of NAME in the function must be its
    # declaration, the call `sorted_amounts(NAME);` right after it, or a read (foreach over it, empty(), *front()).
    for f in files:
        t = texts[f]
        for m in re.finditer(r'(?<![\w:])(?:balance_t::)?amounts_array\s+(\w+)\s*;', t):
            name = m.group(1)
            fn, b0, b1 = enclosing_function(t, m.start())
            body = norm(t[b0:b1 + 1])
            allowed = [r'(?:balance_t::)?amounts_array %s; (?:[\w.]+(?:\(\))?\.)*sorted_amounts\(%s\);' % (name, name),
                       r'foreach \(const amount_t \* amount, %s\)' % name,
                       r'%s\.empty\(\)' % name,
                       r'\*%s\.front\(\)' % name]
            total = len(re.findall(r'\b%s\b' % name, body))
            good = sum(len(re.findall(a, body)) * k for a, k in zip(allowed, (2, 1, 1, 1)))
            filled = len(re.findall(allowed[0], body)) == 1
            sites.append((f, fn, 'amounts_array', 'OTSorted' if filled and total == good else 'OTUnknown'))
    sites.sort()
    tags = ['OTElementwise', 'OTCommutative', 'OTExistence', 'OTUniqueMatch', 'OTSorted', 'OTSingleton', 'OTAllPlainOnly',
            'OTFirstEntry', 'OTArgmaxTies', 'OTDebugDump', 'OTUnknown']
    out = ['(* GENERATED by harness/translators/c19_order_sites.py from src/*.h src/*.cc - do not edit *)',
           'From Coq Require Import String List.', 'Import ListNotations.', 'Local Open Scope string_scope.',
           'Inductive order_tag : Set := ' + ' | '.join(tags) + '.',
           'Record order_site : Set := mkSite { os_file : string; os_fn : string; os_cont : string; os_tag : order_tag }.',
           '(* (file, declared name, kind) of every hashed or pointer-keyed container *)',
           'Definition order_containers : list (string * string * string) := [']
    out.append(';\n'.join('  (%s, %s, %s)' % (coq_str(f), coq_str(n), coq_str(k)) for f, n, k, _ in containers))
    out.append('].')
    out.append('Definition order_sites : list order_site := [')
    out.append(';\n'.join('  mkSite %s %s %s %s' % (coq_str(f), coq_str(fn), coq_str(c), tg) for f, fn, c, tg in sites))
    out.append('].')
    return {'OrderSites.v': '\n'.join(out) + '\n'}


if __name__ == '__main__':
    import sys
    print(generate(sys.argv[1] if len(sys.argv) > 1 else '/repo')['OrderSites.v'])
