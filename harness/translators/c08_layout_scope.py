"""which state of the reader belongs to ONE FILE and which to the JOURNAL (src/textual.cc), as Model/Layout.v uses it
-> coq/Gen/LayoutScope.v:

  src_end_apply_keep       the n of `if (apply_stack.size() <= n)` in instance_t::end_apply_directive: the entries of a
                           file's apply stack that `end apply` never removes (1: the master account its reader pushed)
  src_eof_keep             the n of `while (apply_stack.size() > n)` at the end of instance_t::parse (every entry the
                           file pushed is undone there, then the reader's own)
  src_include_master       what include_directive pushes on the new file's stack: 1 = `top_account()` of the including
                           file (`account_t * master = top_account();` .. `instance.apply_stack.push_front(
                           application_t("account", master))`), 0 = anything else
  src_file_master          what journal_t::read_textual pushes for a file named on the command line: 1 = the master of
                           the parse context (`context_stack.get_current().master`), 0 = anything else
  src_lookup_own_first     get_application<T>: the file's own stack is searched (front first) before the parent's: 1/0
  src_tags_own_then_parent get_applications<T>: own entries, then the parent's: 1/0
  src_alias_in_journal     account_alias_directive stores into `context.journal->account_aliases`, the target being
                           `top_account()->find_account(e)` (alias_directive): 1/0
  src_bucket_in_journal    default_account_directive: `context.journal->bucket = top_account()->find_account(..)`: 1/0
  src_apply_account_nests  apply_account_directive pushes `top_account()->find_account(line)`: 1/0
  src_post_under_top       xact_directive hands `top_account()` to parse_xact and parse_post registers the name with
                           `context.journal->register_account(name, post.get(), account)`; register_account tries
                           `expand_aliases(name)` first and `master_account->find_account(name)` otherwise: 1/0

Narrow patterns over the function bodies with comments, DEBUG statements and white space removed; fail closed: an
unrecognised shape gives -1 (numbers) or 0 (flags), which layout_scope_is_the_sources (Properties_C08.v) does not
accept, and the numbers are the ones the MODEL computes with (Model/Layout.v: the test of `end apply`)."""
import os, re
from translators.src_guards import strip, body_of


def _num(body, pat):
    m = re.search(pat, body or '')
    return int(m.group(1)) if m else -1


def _has(body, *snips):
    """all snippets, in order"""
    if body is None:
        return 0
    i = 0
    for s in snips:
        j = body.find(s, i)
        if j < 0:
            return 0
        i = j + len(s)
    return 1


def generate(repo):
    def read(rel):
        try:
            return strip(open(os.path.join(repo, rel)).read())
        except OSError:
            return ''
    tx, jr = read('src/textual.cc'), read('src/journal.cc')
    end_b = body_of(tx, r'void\s+instance_t::end_apply_directive\s*\(')
    parse_b = body_of(tx, r'void\s+instance_t::parse\s*\(\s*\)')
    inc_b = body_of(tx, r'void\s+instance_t::include_directive\s*\(')
    rt_b = body_of(tx, r'std::size_t\s+journal_t::read_textual\s*\(')
    ga_b = body_of(tx, r'optional<T>\s+get_application\s*\(\s*\)')
    gas_b = body_of(tx, r'void\s+get_applications\s*\(\s*std::vector<T>&\s*result\s*\)')
    top_b = body_of(tx, r'account_t\s*\*\s*top_account\s*\(\s*\)')
    aad_b = body_of(tx, r'void\s+instance_t::account_alias_directive\s*\(')
    ad_b = body_of(tx, r'void\s+instance_t::alias_directive\s*\(')
    bk_b = body_of(tx, r'void\s+instance_t::default_account_directive\s*\(')
    ap_b = body_of(tx, r'void\s+instance_t::apply_account_directive\s*\(')
    xd_b = body_of(tx, r'xact_t\s*\*\s*instance_t::xact_directive\s*\(')
    pp_b = body_of(tx, r'post_t\s*\*\s*instance_t::parse_post\s*\(')
    ra_b = body_of(jr, r'account_t\s*\*\s*journal_t::register_account\s*\(')

    end_keep = _num(end_b, r'^\{char\*b=kind\?next_element\(kind\):NULL;stringname\(b\?b:""\);if\(apply_stack\.size\(\)<=(\d+)\)\{')
    if not _has(end_b, 'apply_stack.pop_front();}') or (end_b or '').count('pop_front') != 1:
        end_keep = -1
    eof_keep = _num(parse_b, r'while\(apply_stack\.size\(\)>(\d+)\)\{if\(apply_stack\.front\(\)\.value\.type\(\)==typeid\(optional<datetime_t>\)\)'
                             r'epoch=boost::get<optional<datetime_t>>\(apply_stack\.front\(\)\.value\);apply_stack\.pop_front\(\);\}apply_stack\.pop_front\(\);')
    inc_master = _has(inc_b, 'journal_t*journal=context.journal;account_t*master=top_account();',
                      'context_stack.push(*iter);context_stack.get_current().journal=journal;context_stack.get_current().master=master;',
                      'instance_tinstance(context_stack,context_stack.get_current(),this,no_assertions,hash_type);'
                      'instance.apply_stack.push_front(application_t("account",master));instance.parse();')
    if (inc_b or '').count('apply_stack') != 1:
        inc_master = 0
    file_master = _has(rt_b, 'instance_tinstance(context_stack,context_stack.get_current(),NULL,',
                       'instance.apply_stack.push_front(application_t("account",context_stack.get_current().master));instance.parse();')
    own_first = (_has(ga_b, '{foreach(application_t&state,apply_stack){if(state.value.type()==typeid(T))returnboost::get<T>(state.value);}'
                            'returnparent?parent->get_application<T>():none;}')
                 and _has(top_b, '{if(optional<account_t*>acct=get_application<account_t*>())return*acct;elsereturnNULL;}'))
    tags_chain = _has(gas_b, '{foreach(application_t&state,apply_stack){if(state.value.type()==typeid(T))result.push_back(boost::get<T>(state.value));}'
                             'if(parent)parent->get_applications<T>(result);}')
    alias_j = (_has(aad_b, 'trim(alias);if(alias==account->fullname()){throw_(parse_error,',
                    'result=context.journal->account_aliases.insert(accounts_map::value_type(alias,account));if(!result.second)(*result.first).second=account;}')
               and _has(ad_b, 'account_alias_directive(top_account()->find_account(e),line);'))
    bucket_j = _has(bk_b, '{context.journal->bucket=top_account()->find_account(skip_ws(line));')
    apply_n = _has(ap_b, '{if(account_t*acct=top_account()->find_account(line))apply_stack.push_front(application_t("account",acct));')
    post_top = (_has(xd_b, 'if(xact_t*xact=parse_xact(line,len,top_account(),previous_xact)){')
                and _has(pp_b, 'post->account=context.journal->register_account(name,post.get(),account);')
                and _has(ra_b, '{account_t*result=expand_aliases(name);if(!result)result=master_account->find_account(name);'))

    vals = [('src_end_apply_keep', end_keep), ('src_eof_keep', eof_keep), ('src_include_master', inc_master),
            ('src_file_master', file_master), ('src_lookup_own_first', own_first), ('src_tags_own_then_parent', tags_chain),
            ('src_alias_in_journal', alias_j), ('src_bucket_in_journal', bucket_j), ('src_apply_account_nests', apply_n),
            ('src_post_under_top', post_top)]
    text = ('(* GENERATED by harness/translators/c08_layout_scope.py from src/textual.cc, src/journal.cc - do not edit *)\n'
            'From Coq Require Import ZArith.\nLocal Open Scope Z_scope.\n'
            '(* what belongs to one file and what to the journal when files include one another (Model/Layout.v);\n'
            '   -1 / 0 = the source no longer has the shape the model transcribes *)\n'
            + ''.join('Definition %s : Z := %s.\n' % (n, ('(%d)' % v) if v < 0 else str(v)) for n, v in vals))
    return {'LayoutScope.v': text}
