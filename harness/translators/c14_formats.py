"""The date reader's format list (times.cc times_initialize, in order), the written/printed
date formats, the two switches of set_input_date_format and the exact-key lookup of the custom
formatter cache -> coq/Gen/DateFormats.v.
Narrow patterns, fail closed: an unrecognised shape yields the one-byte format [0], which
matches no input (no theorem about the default readers then holds)."""
import os, re

BAD = '[0]'


def coq_bytes(s):
    return '[' + '; '.join(str(b) for b in s.encode('latin-1')) + ']'


def c_string(lit):
    """a C string literal without escapes other than \\\\ and \\" -> python str, else None"""
    if re.search(r'\\[^\\"]', lit):
        return None
    return lit.replace('\\\\', '\\').replace('\\"', '"')


def generate(repo):
    src = open(os.path.join(repo, 'src', 'times.cc')).read()
    readers = None
    written = printed = None
    m = re.search(r'void\s+times_initialize\s*\(\s*\)\s*\{(.*?)\n\}', src, re.S)
    if m:
        body = m.group(1)
        pushes = re.findall(r'readers\s*\.\s*(push_back|push_front)\s*\(\s*shared_ptr<date_io_t>\s*\(\s*new\s+date_io_t\s*\(\s*"((?:[^"\\]|\\.)*)"\s*,\s*(true|false)\s*\)\s*\)\s*\)\s*;', body)
        # every statement that mentions `readers` must be one of the recognised pushes
        mentions = len(re.findall(r'\breaders\b', body))
        if pushes and mentions == len(pushes) and all(k == 'push_back' and inp == 'true' for k, _, inp in pushes):
            fmts = [c_string(f) for _, f, _ in pushes]
            if all(f is not None for f in fmts):
                readers = fmts
        w = re.findall(r'written_date_io\s*\.\s*reset\s*\(\s*new\s+date_io_t\s*\(\s*"((?:[^"\\]|\\.)*)"\s*,\s*false\s*\)\s*\)\s*;', body)
        p = re.findall(r'printed_date_io\s*\.\s*reset\s*\(\s*new\s+date_io_t\s*\(\s*"((?:[^"\\]|\\.)*)"\s*,\s*false\s*\)\s*\)\s*;', body)
        if len(w) == 1:
            written = c_string(w[0])
        if len(p) == 1:
            printed = c_string(p[0])
    conv = re.findall(r'bool\s+convert_separators_to_slashes\s*=\s*(true|false)\s*;', src)
    conv_default = conv[0] if len(conv) == 1 else None
    # set_input_date_format: push_front of a new input reader, and conversion switched off
    m2 = re.search(r'void\s+set_input_date_format\s*\(\s*const\s+char\s*\*\s*format\s*\)\s*\{(.*?)\n\}', src, re.S)
    push_front = conv_off = None
    if m2:
        b2 = re.sub(r'\s+', ' ', m2.group(1)).strip()
        stmts = [x.strip() for x in b2.split(';') if x.strip()]
        push_front = 'true' if 'readers.push_front(shared_ptr<date_io_t>(new date_io_t(format, true)))' in stmts else 'false'
        conv_off = 'true' if 'convert_separators_to_slashes = false' in stmts else 'false'
        if len(stmts) != 2:
            push_front = conv_off = None
    # the separator normalisation of parse_date_mask_routine: '.' and '-' become '/'
    norm = re.search(r"if\s*\(\s*convert_separators_to_slashes\s*\)\s*\{\s*for\s*\(\s*char\s*\*\s*p\s*=\s*buf\s*;\s*\*p\s*;\s*p\+\+\s*\)\s*if\s*\(\s*\*p\s*==\s*'(.)'\s*\|\|\s*\*p\s*==\s*'(.)'\s*\)\s*\*p\s*=\s*'(.)'\s*;", src)
    if norm:
        sep_from = sorted(ord(c) for c in norm.group(1, 2))
        sep_to = ord(norm.group(3))
    else:
        sep_from, sep_to = [0, 0], 0
    # the length guard of parse_date_mask_routine
    lim = re.search(r'date_t\s+parse_date_mask_routine\s*\(.*?\{\s*if\s*\(\s*std::strlen\s*\(\s*date_str\s*\)\s*>\s*(\d+)\s*\)', src, re.S)
    maxlen = lim.group(1) if lim else '(-1)'
    # format_date / format_datetime: the cache of custom formatters (temp_date_io, temp_datetime_io)
    # must be consulted by EXACT key: `find(*format)` + `!= end()`, or `lower_bound(*format)` with
    # an equality test of the found key in the same condition
    def cache_exact(fn, mp):
        mm = re.search(r'std::string\s+' + fn + r'\s*\(.*?\n\}', src, re.S)
        if not mm:
            return False
        body = re.sub(r'\s+', ' ', mm.group(0))
        if len(re.findall(re.escape(mp) + r'\.', body)) != 3:       # lookup, end(), insert - nothing else
            return False
        if re.search(re.escape(mp) + r'\.find\(\*format\); if \(i != ' + re.escape(mp) + r'\.end\(\)\) \{ return \(\*i\)\.second->format\(when\); \}', body):
            return True
        if re.search(re.escape(mp) + r'\.lower_bound\(\*format\); if \(i != ' + re.escape(mp) + r'\.end\(\) && (\(\*i\)\.first|i->first) == \*format\) \{ return \(\*i\)\.second->format\(when\); \}', body):
            return True
        return False
    cache_ok = cache_exact('format_date', 'temp_date_io') and cache_exact('format_datetime', 'temp_datetime_io')
    # textual.cc apply_year_directive (serves `Y N`, `year N`, `apply year N`): the saved clock is pushed
    # on the apply stack and the clock is put on the LAST DAY of the named year, unconditionally -
    # the year inference of parse_date_mask_routine relies on it
    ydir = (0, 0, False)
    try:
        tsrc = open(os.path.join(repo, 'src', 'textual.cc')).read()
    except OSError:
        tsrc = ''
    my = re.search(r'void\s+instance_t::apply_year_directive\s*\(\s*char\s*\*\s*line\s*\)\s*\{(.*?)\n\}', tsrc, re.S)
    if my:
        yb = re.sub(r'//[^\n]*', '', my.group(1))
        yb = re.sub(r'\s+', ' ', yb).strip()
        mm = re.fullmatch(r'try \{ unsigned short year\(lexical_cast<unsigned short>\(skip_ws\(line\)\)\); '
                          r'apply_stack\.push_front\(application_t\("year", epoch\)\); (?:DEBUG\([^;]*\); )?'
                          r'epoch = datetime_t\(date_t\(year, (\d+), (\d+)\)\); \} catch ?\(bad_lexical_cast ?&\) \{ .* \}', yb)
        if mm:
            ydir = (int(mm.group(1)), int(mm.group(2)), True)
    # textual.cc instance_t::parse, after the reading loop: every entry this file pushed on its own
    # apply stack is undone, newest first (a year entry puts the clock it saved back), then the entry
    # the caller pushed is popped; nothing else touches `epoch` there, and only the file's OWN stack
    # is walked
    fend = False
    mp = re.search(r'void\s+instance_t::parse\s*\(\s*\)\s*\{(.*?)\n\}', tsrc, re.S)
    if mp:
        pb = re.sub(r'//[^\n]*', '', mp.group(1))
        pb = re.sub(r'\s+', ' ', pb)
        tail = pb[pb.rfind('context.last = err.what(); } }'):] if 'context.last = err.what(); } }' in pb else ''
        if re.match(r'context\.last = err\.what\(\); \} \} '
                    r'while \(apply_stack\.size\(\) > 1\) \{ '
                    r'if \(apply_stack\.front\(\)\.value\.type\(\) == typeid\(optional<datetime_t>\)\) '
                    r'epoch = boost::get<optional<datetime_t> >\(apply_stack\.front\(\)\.value\); '
                    r'apply_stack\.pop_front\(\); \} apply_stack\.pop_front\(\); ', tail) and len(re.findall(r'\bepoch\b', pb)) == 1:
            fend = True
    # temporal_io_t<date_t, ...>::parse: the struct tm handed to strptime is zeroed, its year preset with the
    # current year (minus 1900) and its day with 1; a successful strptime goes to gregorian::date_from_tm
    tm_base, tm_mday = -1, -1
    mparse = re.search(r'date_t\s+temporal_io_t\s*<\s*date_t\s*,[^>]*>\s*::\s*parse\s*\(\s*const\s+char\s*\*\s*str\s*\)\s*\{(.*?)\n  \}', src, re.S)
    if mparse:
        pb = re.sub(r'//[^\n]*', '', mparse.group(1))
        pb = re.sub(r'\s+', ' ', pb).strip()
        mm = re.fullmatch(r'std::tm data; std::memset\(&data, 0, sizeof\(std::tm\)\); '
                          r'data\.tm_year = CURRENT_DATE\(\)\.year\(\) - (\d+); data\.tm_mday = (\d+); '
                          r'if \(strptime\(str, fmt_str\.c_str\(\), &data\)\) return gregorian::date_from_tm\(data\); '
                          r'else return date_t\(\);', pb)
        if mm:
            tm_base, tm_mday = int(mm.group(1)), int(mm.group(2))
    # parse_date_mask_routine: the comparison of the re-formatted date with the input - the only byte of the
    # formatted text that may be skipped, and the test that both texts are used up
    skip = -1
    mr = re.search(r'date_t\s+parse_date_mask_routine\s*\(.*?\n  \}', src, re.S)
    if mr:
        rb = re.sub(r'//[^\n]*', '', mr.group(0))
        rb = re.sub(r'\s+', ' ', rb)
        mm = re.search(r"string when_str = io\.format\(when\); const char \* p = when_str\.c_str\(\); const char \* q = buf; "
                       r"for \(; \*p && \*q; p\+\+, q\+\+\) \{ if \(\*p != \*q && \*p == '(.)'\) p\+\+; if \(! \*p \|\| \*p != \*q\) break; \} "
                       r"if \(\*p != '\\0' \|\| \*q != '\\0'\) throw_\(date_error,", rb)
        if mm and len(re.findall(r'when_str', rb)) == 2:
            skip = ord(mm.group(1))
    text = ['(* GENERATED by harness/translators/c14_formats.py from src/times.cc - do not edit *)',
            'From Coq Require Import ZArith List.', 'Import ListNotations.', 'Local Open Scope Z_scope.',
            '(* times_initialize: readers.push_back(... new date_io_t(FMT, true)), in order *)',
            'Definition src_reader_formats : list (list Z) :=',
            '  [' + ';\n   '.join(coq_bytes(f) for f in readers) + '].' if readers else '  [' + BAD + ']. (* unrecognised *)',
            'Definition src_written_date_format : list Z := %s.' % (coq_bytes(written) if written is not None else BAD + ' (* unrecognised *)'),
            'Definition src_printed_date_format : list Z := %s.' % (coq_bytes(printed) if printed is not None else BAD + ' (* unrecognised *)'),
            '(* bool convert_separators_to_slashes = ...; *)',
            'Definition src_convert_separators_default : bool := %s.' % (conv_default or 'false (* unrecognised *)'),
            '(* set_input_date_format: readers.push_front(new reader); convert_separators_to_slashes = false *)',
            'Definition src_input_format_pushes_front : bool := %s.' % (push_front or 'false (* unrecognised *)'),
            'Definition src_input_format_disables_conversion : bool := %s.' % (conv_off or 'false (* unrecognised *)'),
            '(* parse_date_mask_routine: the two separator bytes rewritten, the byte they become, the strlen guard *)',
            'Definition src_sep_from : Z * Z := (%d, %d).' % (sep_from[0], sep_from[1]),
            'Definition src_sep_to : Z := %d.' % sep_to,
            'Definition src_max_date_len : Z := %s.' % maxlen,
            '(* format_date / format_datetime look a custom format up in their cache by exact key, so the text a',
            '   format produces depends on the format string alone, not on the formats used earlier in the run *)',
            'Definition src_format_cache_exact_match : bool := %s.' % ('true' if cache_ok else 'false (* unrecognised *)'),
            '(* textual.cc apply_year_directive: epoch = datetime_t(date_t(year, MONTH, DAY)), with no condition *)',
            'Definition src_year_directive_month : Z := %d.' % ydir[0],
            'Definition src_year_directive_day : Z := %d.' % ydir[1],
            'Definition src_year_directive_unconditional : bool := %s.' % ('true' if ydir[2] else 'false (* unrecognised *)'),
            '(* textual.cc instance_t::parse at end of file: while the own apply stack of the file has entries, a year entry at the',
            '   front puts the clock it saved back and the front is popped - the whole own stack, newest first, and only it *)',
            'Definition src_file_end_unwinds_own_stack : bool := %s.' % ('true' if fend else 'false (* unrecognised *)'),
            '(* temporal_io_t<date_t>::parse: data.tm_year = CURRENT_DATE().year() - BASE; data.tm_mday = MDAY; then strptime and date_from_tm *)',
            'Definition src_tm_year_base : Z := %s.' % (tm_base if tm_base >= 0 else '(-1) (* unrecognised *)'),
            'Definition src_tm_mday_preset : Z := %s.' % (tm_mday if tm_mday >= 0 else '(-1) (* unrecognised *)'),
            '(* parse_date_mask_routine, the loop that compares the re-formatted date (p) with the input (q): a byte of p that differs',
            '   from the byte of q is stepped over when it is BYTE, any other difference ends the loop, and both texts must be used up:',
            '   BYTE is the one byte of the re-formatted date that the input may leave out *)',
            'Definition src_compare_skip_byte : Z := %s.' % (skip if skip >= 0 else '(-1) (* unrecognised *)'),
            '']
    return {'DateFormats.v': '\n'.join(text)}
