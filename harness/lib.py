"""Shared machinery of the /verif checks: building ledger and the Coq development,
running the implementation and the extracted model, deciding an outcome, evidence."""
import fcntl, glob, hashlib, json, os, random, re, shutil, subprocess, sys, time

ROOT = os.path.dirname(os.path.dirname(os.path.abspath(__file__)))
WORK = os.path.join(ROOT, '.work')
REPO = os.environ.get('VERIF_REPO', '/repo')
LEDGER_BUILD = os.environ.get('VERIF_LEDGER_BUILD', os.path.join(WORK, 'ledger'))
COQ = os.path.join(ROOT, 'coq')
OCAML_SRC = os.path.join(ROOT, 'ocaml')
OCAML_WORK = os.path.join(WORK, 'ocaml')
GUARD = 'LEDGER_VERIF'
NCPU = os.cpu_count() or 4
sys.setrecursionlimit(200000)
import threading
threading.stack_size(512 * 1024 * 1024)

TRUSTED_BASE = [
    'Coq 8.16.1 kernel (coqc, full .vo build; vm_compute used for finite sweeps and witnesses; no native_compute)',
    'axioms: none declared; Print Assumptions output per theorem is recorded in this file ("Closed under the global context" for every property theorem)',
    'coqchk -o (thorough tier) re-checks the compiled files independently; it lists the axioms of every LOADED library: Coq.Logic.FunctionalExtensionality.functional_extensionality_dep, Coq.Reals.ClassicalDedekindReals.sig_not_dec and sig_forall_dec (the standard library\'s own; loaded because Lqa/Psatz/Lra require Reals) - no property theorem depends on them',
    'extraction: ExtrOcamlBasic only (bool/option/unit/list/prod/sumbool/sumor mapped to OCaml types; no Extract Constant); OCaml 4.13.1 ocamlopt and ocaml/common.ml + the per-property driver are trusted for the correspondence only',
    'translator harness/translate.py (source tables -> coq/Gen/*.v)',
    'correspondence harness (python generators, renderers, canonicalisers, oracles): differential testing, bounded by generator reach',
    'modelled, not verified: GMP rationals as Q, MPFR mpfr_div + %.*RNf as Base/Round.v, boost gregorian, std::stable_sort by specification, unordered_map as unspecified order',
]


def log(*a):
    print(*a, file=sys.stderr, flush=True)


class Lock:
    def __init__(self, name):
        os.makedirs(WORK, exist_ok=True)
        self.path = os.path.join(WORK, name + '.lock')

    def __enter__(self):
        self.f = open(self.path, 'w')
        fcntl.flock(self.f, fcntl.LOCK_EX)
        return self

    def __exit__(self, *a):
        fcntl.flock(self.f, fcntl.LOCK_UN)
        self.f.close()


def sh(cmd, cwd=None, timeout=None, env=None, input=None):
    p = subprocess.run(cmd, cwd=cwd, timeout=timeout, env=env, input=input,
                       stdout=subprocess.PIPE, stderr=subprocess.STDOUT,
                       shell=isinstance(cmd, str))
    return p.returncode, p.stdout.decode('utf-8', 'replace')


# --------------------------------------------------------------------------- ledger build

class BuildError(Exception):
    pass


def build_ledger(force_configure=False):
    """(Re)build ledger from REPO's working tree with hooks on.  Incremental."""
    if os.environ.get('VERIF_SKIP_BUILD') and os.path.exists(os.path.join(LEDGER_BUILD, 'ledger')):
        return os.path.join(LEDGER_BUILD, 'ledger'), 0.0   # development aid only; never set by MANIFEST commands
    with Lock('build'):
        b = LEDGER_BUILD
        if force_configure or not os.path.exists(os.path.join(b, 'build.ninja')):
            os.makedirs(b, exist_ok=True)
            rc, out = sh(['cmake', '-G', 'Ninja', '-S', REPO, '-B', b,
                          '-DCMAKE_BUILD_TYPE=Release',
                          '-DCMAKE_CXX_FLAGS=-Wno-error -D' + GUARD,
                          '-DCMAKE_CXX_FLAGS_RELEASE=-O2 -DNDEBUG',
                          '-DBUILD_LIBRARY=ON', '-DBUILD_DOCS=OFF',
                          '-DUSE_PYTHON=OFF', '-DUSE_GPGME=OFF'], timeout=600)
            if rc != 0:
                raise BuildError('cmake failed:\n' + out[-3000:])
        t0 = time.time()
        rc, out = sh(['ninja', '-C', b, '-j', str(NCPU), 'ledger'], timeout=1800)
        if rc != 0:
            raise BuildError('ninja failed:\n' + out[-3000:])
        return os.path.join(b, 'ledger'), time.time() - t0


def ledger_env(extra=None):
    env = {k: v for k, v in os.environ.items() if not k.startswith('LEDGER')}
    env.update({'TZ': 'UTC', 'LC_ALL': 'C', 'HOME': WORK, 'COLUMNS': '80'})
    if extra:
        env.update(extra)
    return env


def ledger_bin():
    return os.path.join(LEDGER_BUILD, 'ledger')


def run_ledger(args, stdin=None, timeout=60, cwd=None, env=None, merge_stderr=False):
    """Run ledger; returns (status, stdout bytes, stderr bytes).  status < 0 = signal,
    status = 'timeout' on timeout."""
    cmd = [ledger_bin(), '--init-file', '/dev/null'] + list(args)
    for attempt in range(20):
        try:
            p = subprocess.run(cmd, input=stdin, cwd=cwd, env=env or ledger_env(), timeout=timeout,
                               stdout=subprocess.PIPE,
                               stderr=subprocess.STDOUT if merge_stderr else subprocess.PIPE)
            break
        except subprocess.TimeoutExpired as e:
            return 'timeout', e.stdout or b'', e.stderr or b''
        except OSError:
            # the binary is being re-linked by a concurrent (locked) rebuild: wait for it
            if attempt == 19:
                raise
            time.sleep(1.0)
    return p.returncode, p.stdout, (p.stderr or b'')


REPL_BANNER_LINES = 7


def run_repl(journal_path, commands, extra_args=(), timeout=120, chunk=1500):
    """Run REPL commands (one per line) against a journal; returns one text block per
    command (stdout and stderr merged, in order).  A command that kills the process
    yields 'CRASH(status=..)' and the remaining commands run in a fresh process.
    Commands must stay below 4096 bytes per token."""
    results = []
    pending = list(commands)
    while pending:
        part = pending[:chunk]
        lines = []
        for k, c in enumerate(part):
            assert '\n' not in c
            lines.append(c)
            lines.append('echo @@%d' % k)
        st, out, _ = run_ledger(['-f', journal_path] + list(extra_args),
                                stdin=('\n'.join(lines) + '\n').encode(), timeout=timeout,
                                merge_stderr=True)
        text = out.decode('utf-8', 'replace')
        m = text.find('for details and disclaimer.\n')
        if m >= 0:
            text = text[m + len('for details and disclaimer.\n'):]
        pos = 0
        consumed = 0
        for k in range(len(part)):
            marker = '@@%d\n' % k
            j = text.find(marker, pos)
            if j < 0:
                results.append('CRASH(status=%s) %s' % (st, text[pos:pos + 300]))
                consumed = k + 1
                break
            results.append(text[pos:j])
            pos = j + len(marker)
            consumed = k + 1
        pending = pending[consumed:]
    return results


# --------------------------------------------------------------------------- Coq

def coq_files():
    fs = []
    for d in ('Base', 'Gen', 'Model', 'Proofs', 'Properties'):
        fs += sorted(glob.glob(os.path.join(COQ, d, '*.v')))
    return [os.path.relpath(f, COQ) for f in fs]


def run_translator():
    tr = os.path.join(ROOT, 'harness', 'translate.py')
    if os.path.exists(tr):
        rc, out = sh([sys.executable, tr, REPO, os.path.join(COQ, 'Gen')], timeout=120)
        if rc != 0:
            raise BuildError('translator failed:\n' + out[-2000:])
        return out
    return ''


def coq_makefile():
    files = coq_files()
    proj = '-Q . LedgerV\n' + '\n'.join(files) + '\n'
    pp = os.path.join(COQ, '_CoqProject')
    old = open(pp).read() if os.path.exists(pp) else ''
    if old != proj or not os.path.exists(os.path.join(COQ, 'Makefile')):
        open(pp, 'w').write(proj)
        rc, out = sh(['coq_makefile', '-f', '_CoqProject', '-o', 'Makefile'], cwd=COQ)
        if rc != 0:
            raise BuildError('coq_makefile failed: ' + out)


def coq_make(targets=None, keep_going=True, timeout=3000):
    with Lock('coq'):
        run_translator()
        coq_makefile()
        cmd = ['make', '-j', str(NCPU)] + (['-k'] if keep_going else []) + (targets or [])
        rc, out = sh(cmd, cwd=COQ, timeout=timeout)
        return rc, out


FORBIDDEN = re.compile(r'\b(Admitted|admit|Axiom|Axioms|Parameter|Parameters|Conjecture|Hypothesis|Variable|Abort)\b|Unset\s+Guard|bypass_check|Admit\s+Obligations|-type-in-type|impredicative-set')


def scan_forbidden():
    """Admitted/Axiom/... anywhere in the development (Variable/Hypothesis allowed inside Sections)."""
    hits = []
    for f in coq_files() + [os.path.relpath(x, COQ) for x in glob.glob(os.path.join(COQ, 'Extract', '*.v'))]:
        depth = 0
        incomment = 0
        for n, line in enumerate(open(os.path.join(COQ, f), errors='replace'), 1):
            code = re.sub(r'\(\*.*?\*\)', '', line)
            if '(*' in code and '*)' not in code:
                code = code[:code.index('(*')]
                incomment += 1
            elif incomment and '*)' in code:
                code = code[code.index('*)') + 2:]
                incomment -= 1
            elif incomment:
                continue
            if re.match(r'\s*Section\b', code):
                depth += 1
            if re.match(r'\s*End\b', code) and depth > 0:
                depth -= 1
            for m in FORBIDDEN.finditer(code):
                w = m.group(0)
                if w in ('Variable', 'Hypothesis', 'Variables', 'Hypotheses') and depth > 0:
                    continue
                hits.append('%s:%d: %s' % (f, n, w))
    return hits


def check_property_file(prop, timeout=900):
    """Bring the dependencies up to date, then recompile Properties_<prop>.v unconditionally.
    Returns dict(ok, theorems, discharged, failed, assumptions, output, wall_s)."""
    t0 = time.time()
    rel = 'Properties/Properties_%s.v' % prop
    path = os.path.join(COQ, rel)
    src = open(path).read()
    theorems = re.findall(r'^\s*(?:Theorem|Lemma|Corollary)\s+(\w+)', src, re.M)
    res = dict(ok=False, theorems=theorems, discharged=0, failed=None, assumptions={}, output='', wall_s=0.0,
               checker_cmd='make -C coq Properties/Properties_%s.vo && coqc -Q coq LedgerV coq/%s' % (prop, rel))
    hits = scan_forbidden()
    if hits:
        res['failed'] = 'forbidden construct: ' + '; '.join(hits[:5])
        res['output'] = res['failed']
        return res
    vo = path[:-2] + '.vo'
    rc, out = coq_make([rel[:-2] + '.vo'], keep_going=False)
    if rc != 0:
        res['output'] = out[-4000:]
        m = re.search(r'File "\./([^"]+)", line (\d+)', out)
        if m:
            res['failed'] = locate_failure(m.group(1), int(m.group(2)))
            if m.group(1) == rel:
                res['discharged'] = count_before(src, int(m.group(2)))
        else:
            res['failed'] = 'make failed'
        res['wall_s'] = time.time() - t0
        return res
    # unconditional recompile of the property file itself
    with Lock('coq'):
        rc, out = sh(['coqc', '-Q', '.', 'LedgerV', rel], cwd=COQ, timeout=timeout)
    res['output'] = out[-6000:]
    if rc != 0:
        m = re.search(r'File "\./([^"]+)", line (\d+)', out)
        res['failed'] = locate_failure(rel, int(m.group(2))) if m else 'coqc failed'
        if m:
            res['discharged'] = count_before(src, int(m.group(2)))
        res['wall_s'] = time.time() - t0
        return res
    # Print Assumptions blocks
    for blk in re.split(r'\n(?=Closed under the global context|Axioms:)', out):
        pass
    res['assumptions'] = parse_assumptions(src, out)
    # every Print Assumptions in the source must have produced a block: an unbalanced string quote inside a
    # comment would silently swallow theorems that the regex above still counts
    wanted = re.findall(r'Print Assumptions\s+(\w+)', src)
    nblocks = len(re.findall(r'^(Closed under the global context|Axioms:)', out, re.M))
    if nblocks != len(wanted):
        res['failed'] = 'Properties_%s.v: %d Print Assumptions commands but %d results (part of the file was not checked)' % (prop, len(wanted), nblocks)
        res['wall_s'] = time.time() - t0
        return res
    missing = [t for t in theorems if t not in wanted]
    if missing:
        res['failed'] = 'Properties_%s.v: no Print Assumptions for %s' % (prop, ', '.join(missing[:5]))
        res['wall_s'] = time.time() - t0
        return res
    res['ok'] = True
    res['discharged'] = len(theorems)
    res['wall_s'] = time.time() - t0
    return res


def run_coqchk(prop, timeout=900):
    """independent re-check of the compiled property file and everything it depends on (thorough tier)"""
    t0 = time.time()
    with Lock('coq'):
        rc, out = sh(['coqchk', '-o', '-silent', '-Q', '.', 'LedgerV', 'LedgerV.Properties.Properties_%s' % prop],
                     cwd=COQ, timeout=timeout)
    axioms = []
    m = re.search(r'\* Axioms:(.*?)(?:\n\* |\Z)', out, re.S)
    if m:
        axioms = [l.strip() for l in m.group(1).strip().split('\n') if l.strip()]
    return dict(ok=(rc == 0), axioms=axioms, wall_s=round(time.time() - t0, 1), tail=out[-1500:])


def count_before(src, line):
    head = '\n'.join(src.split('\n')[:line - 1])
    names = re.findall(r'^\s*(?:Theorem|Lemma|Corollary)\s+(\w+)', head, re.M)
    return max(0, len(names) - 1)


def locate_failure(relfile, line):
    try:
        lines = open(os.path.join(COQ, relfile)).read().split('\n')
    except OSError:
        return '%s:%d' % (relfile, line)
    name = None
    for l in lines[:line]:
        m = re.match(r'\s*(?:Theorem|Lemma|Corollary|Definition|Fixpoint|Example)\s+(\w+)', l)
        if m:
            name = m.group(1)
    mod = relfile[:-2].replace('/', '.')
    extra = ''
    if name == 'model_transcribes_current_source':
        # the generated file names the source lines the model transcribes that are no longer found
        try:
            for l in open(os.path.join(COQ, 'Gen', 'SourceGuards.v')).read().split('\n')[:3]:
                if 'guards that are false' in l:
                    extra = ' - ' + l.strip('(* )')
        except OSError:
            pass
    return '%s.%s (%s:%d)%s' % (mod, name, relfile, line, extra)


def parse_assumptions(src, out):
    order = re.findall(r'Print Assumptions\s+(\w+)', src)
    chunks = re.findall(r'(Closed under the global context|Axioms:\n(?:.+\n?)*?)(?=\n\S|\Z)', out)
    # simpler: sequentially scan output
    res = {}
    blocks = []
    cur = None
    for l in out.split('\n'):
        if l.startswith('Closed under the global context'):
            blocks.append('Closed under the global context')
            cur = None
        elif l.startswith('Axioms:'):
            cur = ['Axioms:']
            blocks.append(cur)
        elif cur is not None and (l.startswith(' ') or ':' in l) and l.strip():
            cur.append(l.strip())
        else:
            cur = None
    for name, b in zip(order, blocks):
        res[name] = b if isinstance(b, str) else ' '.join(b)
    return res


# --------------------------------------------------------------------------- model drivers

def newest_mtime(paths):
    m = 0
    for p in paths:
        try:
            m = max(m, os.path.getmtime(p))
        except OSError:
            pass
    return m


def build_driver(prop):
    """Extract the model for `prop` and build its driver -> path of the executable."""
    with Lock('ocaml'):
        os.makedirs(OCAML_WORK, exist_ok=True)
        exe = os.path.join(OCAML_WORK, 'drv_' + prop)
        ext = os.path.join(COQ, 'Extract', 'Extract_%s.v' % prop)
        drv = os.path.join(OCAML_SRC, 'drv_%s.ml' % prop)
        common = os.path.join(OCAML_SRC, 'common.ml')
        srcs = [ext, drv, common] + glob.glob(os.path.join(COQ, '*', '*.v'))
        if os.path.exists(exe) and os.path.getmtime(exe) >= newest_mtime(srcs):
            return exe
        # the extraction needs the .vo files of what it imports
        deps = re.findall(r'\b(Base|Model|Gen|Proofs)\.(\w+)', open(ext).read())
        targets = sorted(set('%s/%s.vo' % d for d in deps))
        rc, out = coq_make(targets, keep_going=False)
        if rc != 0:
            raise BuildError('model does not compile:\n' + out[-3000:])
        rc, out = sh(['coqc', '-Q', COQ, 'LedgerV', ext], cwd=OCAML_WORK, timeout=600)
        if rc != 0:
            raise BuildError('extraction failed:\n' + out[-3000:])
        full = os.path.join(OCAML_WORK, 'drv_%s_full.ml' % prop)
        with open(full, 'w') as f:
            f.write('open Model_%s\n' % prop)
            f.write(open(common).read())
            f.write(open(drv).read())
        rc, out = sh(['ocamlfind', 'ocamlopt', '-w', '-a', '-O3', 'model_%s.mli' % prop,
                      'model_%s.ml' % prop, os.path.basename(full), '-o', exe],
                     cwd=OCAML_WORK, timeout=600)
        if rc != 0:
            raise BuildError('driver build failed:\n' + out[-3000:])
        return exe


def run_model(prop, lines, timeout=600):
    exe = build_driver(prop)
    env = dict(os.environ)
    env['OCAMLRUNPARAM'] = 'l=8M'
    p = subprocess.run(['/bin/sh', '-c', 'ulimit -s unlimited 2>/dev/null; exec "$0"', exe],
                       input=('\n'.join(lines) + '\n').encode(),
                       stdout=subprocess.PIPE, stderr=subprocess.PIPE, timeout=timeout, env=env)
    if p.returncode != 0:
        raise BuildError('model driver failed (%s): %s' % (p.returncode, p.stderr.decode()[-1000:]))
    return p.stdout.decode('utf-8', 'replace').split('\n')[:-1]


# --------------------------------------------------------------------------- S-expressions (writer)

def sx(x):
    if isinstance(x, (list, tuple)):
        return '(' + ' '.join(sx(i) for i in x) + ')'
    if isinstance(x, bool):
        return '1' if x else '0'
    if isinstance(x, int):
        return str(x)
    if isinstance(x, bytes):
        return x.hex() if x else '-'
    s = str(x)
    if s == '' or re.search(r'[\s()"\\]', s):
        return '"' + s.replace('\\', '\\\\').replace('"', '\\"') + '"'
    return s


# --------------------------------------------------------------------------- findings / outcome

def load_known_findings():
    out = []
    p = os.path.join(ROOT, 'known_findings.txt')
    if not os.path.exists(p):
        return out
    for line in open(p):
        line = line.strip()
        m = re.match(r'finding:\s+property=(\w+)\s+id=(\S+)\s+match=(\S+)\s*(.*)', line)
        if m:
            out.append(dict(prop=m.group(1), id=m.group(2), match=m.group(3), desc=m.group(4)))
    return out


class Result:
    """What a property module hands back to the driver."""

    def __init__(self):
        self.evaluations = 0
        self.nontrivial = set()      # canonical case strings counted as non-trivial
        self.rule = ''
        self.samples = []
        self.disagreements = []      # correspondence failures: dict(name, case, impl, model)
        self.violations = []         # oracle failures: dict(key, desc, case, observed, required)
        self.traces = 0              # cases compared impl vs model
        self.distribution = {}
        self.notes = []
        self.extra = {}

    def count(self, k, n=1):
        self.distribution[k] = self.distribution.get(k, 0) + n


def replay_path(prop, tag):
    d = os.path.join(WORK, 'replays')
    os.makedirs(d, exist_ok=True)
    return os.path.join(d, '%s-%s.json' % (prop, tag))


def conclude(prop, tier, seed, meta, proof, result, t0, search=None):
    """Apply the decision table of DESIGN.md section 4, write evidence, print lines, return status."""
    known = [k for k in load_known_findings() if k['prop'] == prop]
    status = 0
    lines = []
    new_viol = []
    known_hits = {}
    for v in result.violations:
        hit = None
        for k in known:
            if re.fullmatch(k['match'], v['key']):
                hit = k
                break
        if hit:
            known_hits.setdefault(hit['id'], (hit, v))
        else:
            new_viol.append(v)
    for kid, (k, v) in sorted(known_hits.items()):
        lines.append('KNOWN-FINDING: property=%s %s: %s' % (prop, kid, k['desc'] or v['desc']))
    seen = set()
    for n, v in enumerate(new_viol):
        if v['key'] in seen:
            continue
        seen.add(v['key'])
        rp = replay_path(prop, 'seed%d-%s' % (seed, re.sub(r'\W+', '_', v['key'])[:60]))
        json.dump(dict(property=prop, kind='violation', **v), open(rp, 'w'), indent=1, default=str)
        lines.append('VIOLATION property=%s replay=%s' % (prop, rp))
        status = 1
    broken = []
    if not proof['ok']:
        broken.append(dict(kind='theorem', name=proof['failed'], output=proof['output'][-3000:]))
    for d in result.disagreements[:50]:
        broken.append(dict(kind='correspondence', detail=d))
    if broken and status == 0:
        # the property is no longer shown to hold; a concrete failing input was searched for
        # (the oracle ran on every generated case, and `search` widened the exploration)
        found = None
        if search is not None:
            try:
                found = search(broken)
            except Exception as e:  # the search is best effort
                log('search failed: %r' % (e,))
        if found:
            for v in found:
                if any(re.fullmatch(k['match'], v['key']) for k in known):
                    continue
                rp = replay_path(prop, 'seed%d-search-%s' % (seed, re.sub(r'\W+', '_', v['key'])[:60]))
                json.dump(dict(property=prop, kind='violation', **v), open(rp, 'w'), indent=1, default=str)
                lines.append('VIOLATION property=%s replay=%s' % (prop, rp))
                status = 1
                break
        if status == 0:
            rp = replay_path(prop, 'seed%d-unproved' % seed)
            json.dump(dict(property=prop, kind='no-failing-input-found', no_longer_checks=broken),
                      open(rp, 'w'), indent=1, default=str)
            lines.append('VIOLATION property=%s replay=%s no-failing-input-found' % (prop, rp))
            status = 1
    for l in lines:
        print(l, flush=True)
    ev = dict(
        property_id=prop, tier=tier, seed=seed, level=meta.get('level', 'proof'),
        coverage=dict(
            obligations=max(1, len(proof['theorems'])), discharged=proof['discharged'],
            checker_cmd=proof['checker_cmd'], trusted_base=TRUSTED_BASE + meta.get('trusted_extra', []),
            theorems=proof['theorems'], assumptions=proof['assumptions'],
            failed_theorem=proof['failed'], coqchk=proof.get('coqchk'),
            evaluations=result.evaluations, distinct_nontrivial=len(result.nontrivial),
            rule=result.rule, samples=result.samples[:6],
            traces_validated_against_impl=result.traces,
            disagreements_checked=len(result.disagreements),
            distribution=result.distribution, notes=result.notes,
            known_findings_seen=sorted(known_hits.keys()),
            **result.extra),
        assumptions=meta.get('assumptions', []),
        wall_s=round(time.time() - t0, 2),
        violations=len(seen) + (1 if (status == 1 and not seen) else 0),
    )
    os.makedirs(os.path.join(ROOT, 'evidence'), exist_ok=True)
    json.dump(ev, open(os.path.join(ROOT, 'evidence', prop + '.json'), 'w'), indent=1, default=str)
    return status
