"""C12 - errors are located, counted and never yield a partial report.
Correspondence: generated journals (declarations, transactions, directives, include files up to
three levels deep, one to three -f files) with 0-512 injected faults are read by ledger and by
the extracted Coq model (Model/Errors.v).  The model is handed only the *shape* of the input
(per line: empty / blanks / indented / unindented head / include, and which error class parsing
that line would throw whatever the options, which undeclared names it uses, whether it carries
a balance assertion that is off; every -f file is read, error counts are summed) and the set of
checking options (--strict --pedantic --permissive --check-payees, every subset, given on the
command line, in an init file or through the environment); it predicts the journal's checking
style, every located message (include chain, file, line, class, `lines A-B`), the error count,
the exit status and whether a report is written.
Oracle: the property text and the documented meaning of the options (--pedantic: undeclared names
are errors, and wins over --strict; --strict: warnings; --permissive: quiet) evaluated on ledger's
real output from the harness's list of injected faults (item extents), independently of the model."""
import os, re, shutil, time
from concurrent.futures import ThreadPoolExecutor
import lib
from translators import c12_name_checks, c12_line_reader

META = dict(
    id='C12',
    level='proof',
    technique='Coq proof (the per-line reader state machine with error_flag, include counters, the exit-status mapping regenerated from main.cc and the option precedence regenerated from session.cc, proved to report exactly one located message per invalid item) + differential correspondence of the extracted model against ledger',
    level_text='Theorems in coq/Properties/Properties_C12.v state, for all files of any length and include nesting, that the model of instance_t::parse / read_next_directive / the block loops / include_directive writes exactly the concatenation, in file order, of one located message per invalid item (none for a valid item; an invalid item never hides a later one), that the location lies inside the item, that the error count equals the number of messages with include counts added to the parent, that a report is written iff the count is zero, that valid input is silent with status 0, that with several -f files every file is read and every invalid item of every file gets its message (counts summed), that the exit status (main.cc mapping regenerated on every run into coq/Gen/StatusOfCount.v) is non-zero iff the count is positive, and that under --pedantic without --permissive (precedence chain regenerated from session.cc into coq/Gen/CheckingStyle.v) every undeclared account, commodity, tag and (with --check-payees) payee is a counted error whatever else is set, a warning under --strict alone, quiet otherwise; and (Model/ErrorsReader.v, facts regenerated from read_line / comment_directive / parse into coq/Gen/LineReader.v) that a `comment` / `test` block moves the line counter by exactly the number of its physical lines - empty ones included - and changes nothing else, so that a file with comment blocks writes what the same file with the blocks replaced by a valid one-line item and empty lines writes (all theorems carry over), that a byte-order mark is transparent iff it is tested against line 1 (refuted for the source as it stands: F1201) and that an over-long line is located at itself and hides nothing iff it is counted before the throw and skipped after it (refuted as it stands: F1202). The model is tied to the code by reading thousands of generated journals with 0-512 injected faults (unbalanced, bad date, bad amount, failed assertion, unknown account/commodity/tag/payee, stray and malformed directives; first/last/adjacent/inside includes) under every subset of --strict --pedantic --permissive --check-payees (command line, init file, environment) in both and comparing every message location, include chain, class, line range, count, status and stdout emptiness.',
    level_note='Trusted: Coq kernel; extraction + OCaml driver and the python harness for the correspondence; the translator pattern for the status expression in main.cc. The model receives the classification of each line (which error class parsing it throws) from the harness: that a given malformed date/amount/account is rejected by the date/amount/account code is observed through the correspondence check, not proved. Unknown payees are faults only with --check-payees (ledger documents payee checking as opt-in).',
    design_ref='DESIGN.md section 7 C12, section 3.2 (status table)',
    assumptions=['a declaration or posting written inside `apply account ROOT` (or under --master-account ROOT) names the account ROOT:NAME; commodity, tag and payee directives are not affected by the block',
                 'an unknown payee counts as invalid under --pedantic only together with --check-payees (documented opt-in)',
                 'indented lines that follow an invalid item without an intervening unindented line count as part of that item',
                 'files end with a newline or with a non-blank last line; a line longer than the reader\'s line buffer (MAX_LINE) is an invalid item of its own (ledger documents the limit by refusing it)',
                 'a UTF-8 byte-order mark at the start of a file is not part of its first line',
                 'nothing between `comment` / `test` and the next line starting with `end comment` / `end test` is an item'],
)

K_STRAY, K_UNBAL, K_DATE, K_AMOUNT, K_ASSERT, K_ACCOUNT, K_COMMODITY, K_PAYEE, K_OTHER, K_TAG, K_LONG = 0, 1, 2, 3, 4, 5, 6, 7, 8, 9, 10
KNAME = {0: 'stray-indented-line', 1: 'unbalanced', 2: 'bad-date', 3: 'bad-amount', 4: 'failed-assertion',
         5: 'unknown-account', 6: 'unknown-commodity', 7: 'unknown-payee', 8: 'bad-directive', 9: 'unknown-tag', 10: 'line-too-long'}
OPTS = ['strict', 'pedantic', 'permissive', 'check_payees']
FLAG = {'strict': '--strict', 'pedantic': '--pedantic', 'permissive': '--permissive', 'check_payees': '--check-payees'}
ENVV = {'strict': 'LEDGER_STRICT', 'pedantic': 'LEDGER_PEDANTIC', 'permissive': 'LEDGER_PERMISSIVE', 'check_payees': 'LEDGER_CHECK_PAYEES'}
# symbolic defects a transaction can carry -> (error class, annotation handed to the model)
DEFECTS = ['unbal', 'date', 'amount', 'balassert', 'assertline', 'account', 'commodity', 'payee', 'tag']
DCLASS = dict(unbal=K_UNBAL, date=K_DATE, amount=K_AMOUNT, balassert=K_ASSERT, assertline=K_ASSERT,
              account=K_ACCOUNT, commodity=K_COMMODITY, payee=K_PAYEE, tag=K_TAG)
A_ACCT, A_COMM, A_PAYEE, A_TAG, A_BAL = ['u', 'acct', K_ACCOUNT], ['u', 'comm', K_COMMODITY], ['u', 'payee', K_PAYEE], ['u', 'tag', K_TAG], ['b', K_ASSERT]
# undeclared: misspelt children below a declared parent, below a declared leaf, below an undeclared
# parent; the undeclared parents of declared children; other spellings
TYPO_ACCOUNTS = ['Expenses:Fod', 'Expenses:Fodo', 'Expenses:Rnet', 'Assets:Csh', 'Assets:Chequing', 'Assets:Cash:Till', 'Expenses:Food:Lunch',
                 'Liabilities:Crad', 'Income:Salery', 'Liabilities', 'Income', 'Liabilities:Card:Fees', 'Expences:Food', 'expenses:food', 'Equity']
TYPO_PAYEES = ['Shopp', 'Land lord', 'Employr', 'RailCo', 'shop']
TYPO_TAGS = ['Knwon', 'Knownn', 'Receipt', 'Project']
TYPO_COMMS = ['XYZ', 'EURO', 'USD', 'eur']


_FACTS = {}


def name_check_facts():
    """which commodity positions of a posting line the source under test hands to register_commodity
    (the same facts the translator writes into coq/Gen/NameChecks.v)"""
    if lib.REPO not in _FACTS:
        _FACTS[lib.REPO] = c12_name_checks.facts(lib.REPO)
    return _FACTS[lib.REPO]


def line_reader_facts():
    """what the source under test does with a byte-order mark and with an over-long line (the
    facts the translator writes into coq/Gen/LineReader.v); used only to decide which generated
    inputs are safe to build on, never by the oracle"""
    key = ('reader', lib.REPO)
    if key not in _FACTS:
        _FACTS[key] = c12_line_reader.facts(lib.REPO)
    return _FACTS[key]


def doc_style(o):
    """documented meaning of the options: --permissive quiets everything, else --pedantic makes
    undeclared names errors (and wins over --strict), else --strict makes them warnings"""
    if o['permissive']:
        return 'quiet'
    if o['pedantic']:
        return 'error'
    if o['strict']:
        return 'warning'
    return 'quiet'


def doc_reaction(o, defect):
    """'error' | 'warning' | 'quiet' for a symbolic defect under the options, by the documentation"""
    if defect in ('account', 'commodity', 'tag'):
        return doc_style(o)
    if defect == 'payee':
        return doc_style(o) if o['check_payees'] else 'quiet'
    if defect == 'balassert':
        return 'quiet' if o['permissive'] else 'error'
    return 'error'

# declared accounts; `Expenses` and `Assets` are non-leaf (summary) accounts that are declared and posted to
# themselves, `Liabilities` and `Income` are parents that stay undeclared although a child is declared
ACCOUNTS = ['Expenses:Food', 'Expenses:Rent', 'Expenses:Travel', 'Assets:Cash', 'Liabilities:Card', 'Income:Salary', 'Expenses', 'Assets']
BANK = 'Assets:Bank'
PAYEES = ['Shop', 'Landlord', 'Employer', 'Rail Co']
BAD_DATES = ['2020/13/45', '2020/02/30', '2021/02/29', '20x0/01/01', '2020/00/10', '2020/01/00', '2020/01/32',
             '2020/04/31', '2020.01.40', '1/2/3/4', '2020/01/01=2020/13/01', '99999/01/01']
BAD_AMOUNTS = ['$10.0.0', '$1x0.00', '$', '$abc', '$10.00 $5', '$-', '$1..2', '$1 @ $x', '($1 +)', '1 AAA {$1']
COMMANDS = [['bal'], ['reg'], ['print'], ['csv'], ['xml'], ['accounts'], ['payees'], ['bal', '--flat'], ['reg', '-M']]


def classify(text):
    """ledger's message text -> error class"""
    if 'Unexpected whitespace at beginning of line' in text:
        return K_STRAY
    if 'does not balance' in text:
        return K_UNBAL
    if text.startswith('Invalid date') or 'Day of month is not valid' in text:
        return K_DATE
    if 'Balance assertion off' in text or 'ssertion failed' in text:
        return K_ASSERT
    if text.startswith('Unknown account'):
        return K_ACCOUNT
    if text.startswith('Unknown commodity'):
        return K_COMMODITY
    if text.startswith('Unknown payee'):
        return K_PAYEE
    if text.startswith('Unknown metadata tag'):
        return K_TAG
    if (' amount' in text or 'Unexpected char' in text or 'not followed by argument' in text
            or 'lacks closing brace' in text):
        return K_AMOUNT
    if 'requires an argument' in text or 'File to include was not found' in text:
        return K_OTHER
    if text.startswith('Line exceeds'):
        return K_LONG
    return 99


def money(c):
    s = '-' if c < 0 else ''
    c = abs(c)
    return '%s$%d.%02d' % (s, c // 100, c % 100)


class Entry:
    """a run of physical lines that the harness regards as one item (or filler)"""
    def __init__(self, lines, faults=(), child=None, filler=False, tag=''):
        self.lines = lines            # [(text, shape)]; shape: 'e' | 'w' | ['s', k] | ['i', t, b, f] | 'inc'
        self.faults = list(faults)    # injected fault classes that are errors under the options (empty = valid)
        self.warns = []               # classes of undeclared names that must be warned about
        self.child = child            # JFile for an include
        self.filler = filler          # blank lines: belong to no item
        self.tag = tag
        self.first = self.last = None
        self.merge_prev = False       # stray lines swallowed by the preceding invalid item
        self.fin_only = False
        self.form = None              # the written form exercised (form_xact)
        self.unchecked = None         # an undeclared commodity in a position ledger does not check
        self.comment = None           # a `comment` / `test` block: (closed, [kind of each swallowed line: 'e' | 'w' | 't'])


class JFile:
    def __init__(self, name):
        self.name = name              # file name inside the case directory
        self.entries = []
        self.final_newline = True
        self.bom = False              # the file starts with EF BB BF


class Builder:
    """Generates one case: a forest of files in reading order, tracking what a correct reader
    must know (the running balance of the asserted account over accepted transactions)."""

    def __init__(self, rng, opts, master=None):
        self.rng = rng
        self.opts = opts                      # dict option -> bool
        self.bank = {}                        # full name of an asserted account -> cents over accepted transactions
        # account names are written relative to the innermost `apply account` (below --master-account):
        # the full name a declaration or a posting resolves to is prefix:...:name
        self.prefix = [master] if master else []
        self.declared = set()                 # full names made known by `account` directives so far
        self.rel_names = list(ACCOUNTS)       # names (as written) that are declared under some prefix
        self.payees = list(PAYEES)            # declared payees / tags / extra commodities (global, whatever the block)
        self.tags = ['Known']
        self.extra_comms = []
        self.nfile = 0
        self.day = 0
        self.nuniq = 0
        self.files = []                       # every JFile
        self.valid_xacts = 0
        self.comment_rate = 0.0               # chance of a comment block in front of an item
        self.long_lines = False               # over-long lines among the items
        self.no_bank = False                  # transactions stay away from the asserted account

    def effective(self):
        """defects that are errors under these options"""
        return [d for d in DEFECTS if doc_reaction(self.opts, d) == 'error'
                and (d != 'balassert' or (self.full(BANK) in self.declared and not self.no_bank))]

    def harmless(self):
        return [d for d in DEFECTS if doc_reaction(self.opts, d) != 'error']

    def full(self, name):
        return ':'.join(self.prefix + [name])

    def valid_accounts(self):
        """names that, written here, resolve to a declared account"""
        return [a for a in self.rel_names if self.full(a) in self.declared]

    def undeclared_accounts(self):
        """names that, written here, resolve to an account nobody declared: misspellings, and names
        declared only under another prefix (outside / inside an `apply account` block)"""
        return ([t for t in TYPO_ACCOUNTS if self.full(t) not in self.declared]
                + [a for a in self.rel_names + [BANK] if self.full(a) not in self.declared] * 2
                + ['Expenses:Typo%d' % self.uniq()])

    def declare(self, names, shuffle=True):
        """`account NAME` directives written at the current prefix"""
        rng = self.rng
        es = []
        for a in names:
            lines = [('account ' + a, ['i', [], 1, []])]
            if rng.random() < 0.3:
                lines.append(('    note about %s' % a.replace(':', ' '), ['s']))
            if rng.random() < 0.1:
                lines.append(('   ', 'w'))
            es.append(Entry(lines, tag='decl'))
            self.declared.add(self.full(a))
        return es

    def open_block(self):
        """-> entries: [declarations by full name in front of the block,] `apply account ROOT`,
        declarations inside the block, and control directives (commodity / tag / payee are global:
        an enclosing `apply account` does not touch them)"""
        rng = self.rng
        root = rng.choice(['Personal', 'Business', 'Joint', 'Sub'])
        names = rng.sample(ACCOUNTS, rng.choice([4, 5, 6, 8]))
        if rng.random() < 0.6:
            names.append(BANK)
        if rng.random() < 0.5:
            extra = 'Extra:Thing%d' % self.uniq()      # declared in this block only
            names.append(extra)
            self.rel_names.append(extra)
        if rng.random() < 0.5:
            names = sorted(names)
        outside = [a for a in names if rng.random() < 0.25]
        inside = [a for a in names if a not in outside]
        es = self.declare(['%s:%s' % (root, a) for a in outside])
        es.append(Entry([('apply account ' + root, ['i', [], 0, []])], tag='apply'))
        self.prefix.append(root)
        es += self.declare(inside)
        if rng.random() < 0.5:
            p = 'Vendor %d' % self.uniq()
            self.payees.append(p)
            es.append(Entry([('payee ' + p, ['i', [], 1, []])], tag='decl'))
        if rng.random() < 0.5:
            t = 'Label%d' % self.uniq()
            self.tags.append(t)
            es.append(Entry([('tag ' + t, ['i', [], 1, []])], tag='decl'))
        if rng.random() < 0.4:
            c = rng.choice(['CHF', 'GBP', 'SEK'])
            if c not in self.extra_comms:
                self.extra_comms.append(c)
                es.append(Entry([('commodity ' + c, ['i', [], 1, []])], tag='decl'))
        return es

    def close_block(self):
        self.prefix.pop()
        return [Entry([(self.rng.choice(['end apply account', 'end apply account', 'end apply']), ['i', [], 0, []])], tag='apply')]

    def new_file(self):
        self.nfile += 1
        f = JFile('j%d.dat' % self.nfile)
        self.files.append(f)
        return f

    def date(self):
        self.day += 1
        return '2020/%02d/%02d' % (1 + (self.day // 28) % 12, 1 + self.day % 28)

    def uniq(self):
        self.nuniq += 1
        return self.nuniq

    def declarations(self):
        rng = self.rng
        es = []
        order = ACCOUNTS + [BANK]
        if rng.random() < 0.5:
            order = sorted(order)              # parents before their children
        elif rng.random() < 0.5:
            order = list(order)
            rng.shuffle(order)
        es += self.declare(order)
        lines = [('commodity $', ['i', [], 1, []])]
        if rng.random() < 0.5:
            lines.append(('    format $1,000.00', ['s']))
        es.append(Entry(lines, tag='decl'))
        es.append(Entry([('commodity EUR', ['i', [], 1, []])], tag='decl'))
        es.append(Entry([('tag Known', ['i', [], 1, []])], tag='decl'))
        es.append(Entry([('tag Payee', ['i', [], 1, []])], tag='decl'))
        es.append(Entry([('commodity "MF A"', ['i', [], 1, []])], tag='decl'))
        for p in PAYEES:
            lines = [('payee ' + p, ['i', [], 1, []])]
            if rng.random() < 0.2:
                lines.append(('    alias %s-alias' % p.replace(' ', ''), ['s']))
            es.append(Entry(lines, tag='decl'))
        return es

    # -- transactions ------------------------------------------------------------------------
    def xact(self, defects):
        """a transaction carrying the symbolic defects (subset of DEFECTS).  Which of them are
        errors, warnings or nothing depends on the options (doc_reaction); the model gets the raw
        annotations and decides for itself."""
        rng = self.rng
        d = set(defects)
        if 'commodity' in d or 'tag' in d:
            d.discard('balassert')             # (those transactions stay away from the asserted account)
        valid = self.valid_accounts()
        npost = min(rng.choice([2, 2, 2, 3, 3, 4]), len(valid))
        accts = rng.sample(valid, npost - 1)
        altcomm = None
        if self.extra_comms and 'commodity' not in d and 'balassert' not in d and rng.random() < 0.12:
            altcomm = rng.choice(self.extra_comms)     # a commodity declared inside some `apply account` block
        bank_name = self.full(BANK)
        can_bank = 'commodity' not in d and 'tag' not in d and bank_name in self.declared and not altcomm and not self.no_bank
        if not can_bank:
            d.discard('balassert')
        use_bank = can_bank and (rng.random() < 0.6 or 'balassert' in d)
        last_acct = BANK if use_bank else rng.choice([a for a in valid if a not in accts])
        cents = [rng.choice([1, 5, 99, 100, 250, 1000, 1234, 99999, rng.randrange(1, 500000)]) * rng.choice([1, 1, 1, -1])
                 for _ in range(npost - 1)]
        last = -sum(cents)
        if last == 0:
            cents[0] += 100
            last = -sum(cents)
        elide = rng.random() < 0.4 and 'unbal' not in d and 'balassert' not in d
        asserted = use_bank and not elide and ('balassert' in d or rng.random() < 0.6)
        comm = rng.choice(TYPO_COMMS) if 'commodity' in d else altcomm

        def amount_text(c):
            if comm:
                return '%s%d.%02d %s' % ('-' if c < 0 else '', abs(c) // 100, abs(c) % 100, comm)
            return money(c)
        # head: the date is parsed first, then the payee; a tag in its note is checked when the
        # whole transaction is added to the journal
        date = self.date()
        hann = []
        payee = rng.choice(self.payees)
        if 'date' in d:
            date = rng.choice(BAD_DATES)
            hann.append(K_DATE)
        if 'payee' in d:
            payee = rng.choice(TYPO_PAYEES + ['Stranger %d' % self.uniq()])
            hann.append(A_PAYEE)
        state = rng.choice(['', '', '* ', '! '])
        code = rng.choice(['', '', '(%d) ' % rng.randrange(1000)])
        head = '%s %s%s%s' % (date, state, code, payee)
        tagname = (rng.choice(TYPO_TAGS) + rng.choice(['', str(self.uniq())])) if 'tag' in d else None
        tagtext = None
        if tagname:
            tagtext = rng.choice(['; :%s:' % tagname, '; %s: some value' % tagname, '; :Known:%s:' % tagname])
        tag_at = rng.choice(['head', 'headnote', 'post', 'postnote']) if tagname else None
        if tag_at == 'head':
            head += '  ' + tagtext
        elif rng.random() < 0.15:
            head += '  ; head note'
        elif rng.random() < 0.05:
            head += '  ; :%s:' % rng.choice(self.tags)
        fin = ([K_UNBAL] if 'unbal' in d else []) + ([A_TAG] if tagname else [])
        lines = [(head, ['i', hann, 1, fin])]
        if tag_at == 'headnote':
            lines.append(('    ' + tagtext, ['s']))
        elif rng.random() < 0.15:
            lines.append(('    ; a note under the head', ['s']))
        # which posting carries the unknown account / the malformed amount
        slot = {}
        for k in ('account', 'amount'):
            if k in d:
                j = rng.choice([0, npost - 1, rng.randrange(npost)])
                if elide and j == npost - 1 and k == 'amount':
                    j = 0
                if use_bank and j == npost - 1 and k == 'account':
                    j = 0                      # (the asserted account keeps its name)
                slot[k] = j
        tag_post = rng.randrange(npost) if tag_at in ('post', 'postnote') else None
        for j in range(npost):
            acct = accts[j] if j < npost - 1 else last_acct
            amt = cents[j] if j < npost - 1 else last
            if 'unbal' in d and j == npost - 1:
                amt += rng.choice([1, -1, 100, 12345, -99999])
            elided = (j == npost - 1 and elide)
            # the order in which parse_post meets the problems: account, amount (its commodity is
            # registered once the amount is parsed), then the balance assertion
            ann = []
            atext = amount_text(amt)
            if slot.get('account') == j:
                acct = rng.choice(self.undeclared_accounts())
                ann.append(A_ACCT)
            if slot.get('amount') == j:
                atext = rng.choice(BAD_AMOUNTS)
                ann.append(K_AMOUNT)
            elif comm and not elided and not altcomm:
                ann.append(A_COMM)
            tail = ''
            if j == npost - 1 and asserted:
                want = self.bank.get(bank_name, 0) + amt
                if 'balassert' in d:
                    want += rng.choice([1, -1, 700, -123456])
                    ann.append(A_BAL)
                tail = ' = ' + money(want)
            if elided:
                text = '    ' + acct
            else:
                text = '    %s%s%s%s' % (acct, rng.choice(['  ', '    ', '\t']), atext, tail)
            if tag_post == j and tag_at == 'post':
                text += '  ' + tagtext
            elif rng.random() < 0.1 and not ann:
                text += '  ; posting note'
            lines.append((text, ['s'] + ann))
            if tag_post == j and tag_at == 'postnote':
                lines.append(('    ' + tagtext, ['s']))
            elif rng.random() < 0.12:
                lines.append(('    ; note after posting %d' % j, ['s']))
        if 'assertline' in d:
            lines.insert(rng.randrange(1, len(lines) + 1), ('    assert 2 + 2 == %d' % rng.choice([3, 5, 22]), ['s', K_ASSERT]))
        elif rng.random() < 0.08:
            lines.insert(rng.randrange(1, len(lines) + 1), ('    assert 2 + 2 == 4', ['s']))
        if rng.random() < 0.12:
            lines.append((rng.choice(['   ', ' ', '\t', '    \t ']), 'w'))
        if rng.random() < 0.12:
            # peek_whitespace_line and read_next_directive accept a tab as well as a blank
            lines = [(('\t' + t[4:]) if (sh != 'w' and t.startswith('    ')) else t, sh) for t, sh in lines]
        faults = sorted({DCLASS[k] for k in d if doc_reaction(self.opts, k) == 'error'})
        e = Entry(lines, faults=faults, tag='xact')
        e.warns = sorted({DCLASS[k] for k in d if doc_reaction(self.opts, k) == 'warning'})
        e.defects = sorted(d)
        e.prefix = ':'.join(self.prefix)
        # rejected only as a whole (finalize / metadata): its block is still open at its last line
        e.fin_only = bool(faults) and all(k in ('unbal', 'tag') for k in d if doc_reaction(self.opts, k) == 'error')
        if not faults:
            self.valid_xacts += 1
            if use_bank:
                self.bank[bank_name] = self.bank.get(bank_name, 0) + last
        return e

    # -- names in every written form ----------------------------------------------------------
    FORMS_COMM = ['lot', 'cost', 'valexpr', 'quoted']            # the posting's own commodity: checked
    FORMS_ACCT = ['virtual', 'vpair']                            # accounts of virtual postings: checked
    FORMS_UNCHECKED = ['costcomm', 'lotprice', 'assign', 'assert0']   # commodities ledger does not look at (findings F130 / F131)

    def form_xact(self, want_fault):
        """a small transaction that uses a (declared or undeclared) commodity / account / payee in
        one of the written forms other than `ACCOUNT  AMOUNT`.  -> Entry, or None when the options in
        force make no such use an error although one is wanted."""
        rng = self.rng
        rc, ra, rp = (doc_reaction(self.opts, k) for k in ('commodity', 'account', 'payee'))
        valid = [a for a in self.valid_accounts() if a != BANK]
        a1, a2 = rng.sample(valid, 2)
        if want_fault:
            forms = ((self.FORMS_COMM if rc == 'error' else []) + (self.FORMS_ACCT if ra == 'error' else [])
                     + (['payeetag'] if rp == 'error' else []))
            if not forms:
                return None
            form = rng.choice(forms)
            undeclared = True
        else:
            form = rng.choice(self.FORMS_COMM + self.FORMS_ACCT + self.FORMS_UNCHECKED + ['payeetag', 'bare'])
            react = {'payeetag': rp, 'virtual': ra, 'vpair': ra}.get(form, rc)
            undeclared = rng.random() < 0.5 and (react != 'error' or form in self.FORMS_UNCHECKED)
        q = rng.choice([1, 2, 5, 10, 25])
        pr = rng.choice([1, 2, 5, 120])
        good = rng.choice(['EUR'] + self.extra_comms)
        bad = rng.choice(TYPO_COMMS + ['UND'])
        C = bad if undeclared else good
        head = '%s %s' % (self.date(), rng.choice(self.payees))
        l1, l2 = ['s'], ['s']
        extra = []
        classes, unchecked = [], None
        p2 = '    ' + a2
        if form == 'lot':
            anns = ['{$%d}' % pr, '{{$%d}}' % (pr * q), '{=$%d}' % pr, '[2021/03/01]', '(a note)', '((2 + %d))' % pr]
            k = rng.randrange(len(anns))
            ann = anns[k]
            if rng.random() < 0.3:
                ann = ' '.join([anns[j] for j in sorted(rng.sample([0, 3, 4], 2))])     # price, date, note together
            amt = '%d %s %s' % (q, C, ann)
            if rng.random() < 0.2:
                amt += ' @ $%d' % (pr + 1)
            p1 = '    %s  %s' % (a1, amt)
            if undeclared:
                l1.append(A_COMM); classes.append('commodity')
        elif form == 'cost':
            p1 = '    %s  %d %s %s' % (a1, q, C, rng.choice(['@ $%d' % pr, '@@ $%d' % (pr * q), '(@) $%d' % pr, '(@@) $%d' % (pr * q)]))
            if undeclared:
                l1.append(A_COMM); classes.append('commodity')
        elif form == 'valexpr':
            p1 = '    %s  (%d * %d %s)' % (a1, rng.choice([2, 3]), q, C)
            if undeclared:
                l1.append(A_COMM); classes.append('commodity')
        elif form == 'quoted':
            sym = '"MF B"' if undeclared else '"MF A"'
            p1 = '    %s  %s' % (a1, rng.choice(['%d %s' % (q, sym), '%s %d' % (sym, q), '%d %s {$%d}' % (q, sym, pr)]))
            if undeclared:
                l1.append(A_COMM); classes.append('commodity')
        elif form == 'bare':
            p1 = '    %s  %d' % (a1, q)
        elif form == 'costcomm':
            # (a cost must be in another commodity than the amount)
            cost = ('%d ' + C) if undeclared else '$%d'
            p1 = '    %s  %d %s %s' % (a1, q, good, rng.choice(['@ ' + cost % pr, '@@ ' + cost % (pr * q), '(@) ' + cost % pr]))
            unchecked = 'cost' if undeclared else None
            pos = ('cost', 'cost')
        elif form == 'lotprice':
            p1 = '    %s  %d %s {%s}' % (a1, q, good, ('%d %s' % (pr, C)) if undeclared else '$%d' % pr)
            unchecked = 'lot-price' if undeclared else None
            pos = ('lotprice', 'lot_price')
        elif form == 'assign':
            p1 = '    %s  = %d %s' % (a1, q, C)
            unchecked = 'assignment' if undeclared else None
            pos = ('assigned', 'assigned')
        elif form == 'assert0':
            # the account holds nothing in that commodity: the assertion is true
            n = self.uniq()
            fresh = 'UN' + ''.join(chr(65 + (n // 26 ** i) % 26) for i in range(3))    # used nowhere else
            p1 = '    %s  $%d.00 = 0 %s' % (a1, q, fresh)
            if not undeclared:
                p1 = '    %s  $%d.00' % (a1, q)
            unchecked = 'assertion' if undeclared else None
            pos = ('assigned', 'assigned')
        elif form in ('virtual', 'vpair'):
            acct = rng.choice(self.undeclared_accounts()) if undeclared else rng.choice(valid)
            br = '(%s)' if form == 'virtual' else '[%s]'
            if form == 'virtual':
                p1 = '    %s  $%d.00' % (a1, q)
                extra = [('    %s  $%d.00' % (br % acct, pr), ['s', A_ACCT] if undeclared else ['s'])]
            else:
                p1 = '    %s  $%d.00' % (br % acct, q)
                p2 = '    [%s]  $-%d.00' % (a2, q)
                if undeclared:
                    l1.append(A_ACCT)
            if undeclared:
                classes.append('account')
        else:   # payeetag: `; Payee: NAME` on the posting line or on the next line
            name = rng.choice(TYPO_PAYEES + ['Stranger %d' % self.uniq()]) if undeclared else rng.choice(self.payees)
            p1 = '    %s  $%d.00' % (a1, q)
            if rng.random() < 0.5:
                p1 += '  ; Payee: ' + name
                if undeclared:
                    l1.append(A_PAYEE)
            else:
                extra = [('    ; Payee: ' + name, ['s', A_PAYEE] if undeclared else ['s'])]
            if undeclared:
                classes.append('payee')
        if unchecked:
            # the model is told where the undeclared commodity stands; whether that position is
            # checked it takes from Gen/NameChecks.v.  By the documentation it is an undeclared
            # commodity like any other: where the source under test checks the position the item is an
            # ordinary fault, where it does not the oracle reports it under its own key
            l1.append(['uc', pos[0], K_COMMODITY])
            if name_check_facts()[pos[1]]:
                classes.append('commodity')
                unchecked = None
        lines = [(head, ['i', [], 1, []]), (p1, l1)]
        if extra and form == 'payeetag':
            lines += extra
            extra = []
        lines.append((p2, l2))
        if extra:
            lines.insert(rng.randrange(1, len(lines) + 1), extra[0])
        if rng.random() < 0.1:
            lines = [(('\t' + t[4:]) if t.startswith('    ') else t, sh) for t, sh in lines]
        faults = sorted({DCLASS[k] for k in classes if doc_reaction(self.opts, k) == 'error'})
        e = Entry(lines, faults=faults, tag='xact')
        e.warns = sorted({DCLASS[k] for k in classes if doc_reaction(self.opts, k) == 'warning'})
        e.defects = ['form:' + form] + classes
        e.prefix = ':'.join(self.prefix)
        e.form = form
        e.unchecked = unchecked if rc in ('error', 'warning') else None
        if form in ('virtual', 'vpair'):
            self.used_virtual = True
        if not faults:
            self.valid_xacts += 1
        return e

    # -- other items ---------------------------------------------------------------------------
    def filler(self):
        n = self.rng.choice([1, 1, 1, 2])
        return Entry([('', 'e')] * n, filler=True, tag='blank')

    def ws_filler(self):
        return Entry([(self.rng.choice(['  ', '\t', '     ']), 'w')], filler=True, tag='blank')

    def valid_directive(self):
        rng = self.rng
        k = rng.randrange(8)
        if k == 7:
            return Entry([('assert 1 + 1 == 2', ['i', [], 0, []])], tag='dir')
        if k == 0:
            return Entry([('; a comment line', ['i', [], 0, []])], tag='dir')
        if k == 1:
            return Entry([(rng.choice(['# another comment', '* a starred comment', '| a bar comment', ';; x']), ['i', [], 0, []])], tag='dir')
        if k == 2:
            return Entry([('P %s EUR $1.%02d' % (self.date(), rng.randrange(100)), ['i', [], 0, []])], tag='dir')
        if k == 3:
            # (`Y` pushes an 'apply year' that nothing closes: inside an `apply account` block the
            # block's `end apply account` would then be refused, a bare `end apply` would close the year)
            if len(self.prefix) > getattr(self, 'base_depth', 0):
                return Entry([('; Y2020', ['i', [], 0, []])], tag='dir')
            return Entry([('Y2020', ['i', [], 0, []])], tag='dir')
        if k == 4:
            a = 'Expenses:Extra%d' % self.uniq()
            lines = [('account ' + a, ['i', [], 1, []])]
            for _ in range(rng.choice([0, 1, 2])):
                lines.append((rng.choice(['    note something', '    alias x%d' % self.uniq()]), ['s']))
            return Entry(lines, tag='dir')
        if k == 5:
            lines = [('payee Vendor %d' % self.uniq(), ['i', [], 1, []])]
            if rng.random() < 0.5:
                lines.append(('    alias vend%d' % self.uniq(), ['s']))
            return Entry(lines, tag='dir')
        return Entry([('tag label%d' % self.uniq(), ['i', [], 1, []])], tag='dir')

    def bad_directive(self):
        rng = self.rng
        k = rng.randrange(7)
        if k == 6:
            return Entry([('assert 1 + 1 == %d' % rng.choice([1, 3]), ['i', [K_ASSERT], 0, []])], faults=[K_ASSERT], tag='dir')
        if k == 0:
            return Entry([('P %s EUR $1.10' % rng.choice(BAD_DATES[:10]), ['i', [K_DATE], 0, []])], faults=[K_DATE], tag='dir')
        if k == 1:
            return Entry([('P %s EUR $1.0.0' % self.date(), ['i', [K_AMOUNT], 0, []])], faults=[K_AMOUNT], tag='dir')
        if k == 2:
            return Entry([('Y', ['i', [K_OTHER], 0, []])], faults=[K_OTHER], tag='dir')
        if k == 3:
            return Entry([('include missing%d.dat' % self.uniq(), ['i', [K_OTHER], 0, []])], faults=[K_OTHER], tag='dir')
        if k == 4:
            a = 'Expenses:Extra%d' % self.uniq()
            lines = [('account ' + a, ['i', [], 1, []])]
            if rng.random() < 0.5:
                lines.append(('    note fine', ['s']))
            lines.append(('    note', ['s', K_OTHER]))
            for _ in range(rng.choice([0, 1, 2])):
                lines.append(('    alias y%d' % self.uniq(), ['s']))
            return Entry(lines, faults=[K_OTHER], tag='dir')
        lines = [('payee Vendor %d' % self.uniq(), ['i', [], 1, []]), ('    alias', ['s', K_OTHER])]
        return Entry(lines, faults=[K_OTHER], tag='dir')

    COMMENT_HEADS = ['comment', 'comment', 'test', 'test reg --columns=80', '!comment', '@test bal', 'comment   ']
    COMMENT_ENDS = ['end comment', 'end comment', 'end test', 'end comment and more words', 'end commentary', 'end test  ']
    COMMENT_TEXT = ['; a note inside', 'free text, not a directive', '    Expenses:Food  $10.00', '2020/13/45 Not a date',
                    '2020/01/01 Never balanced', '    Assets:Cash  $1.00', 'include nowhere.dat', 'end', ' end comment', '\tend test',
                    'End comment', 'endcomment', 'end  comment', 'end apply account', 'account Some:Thing', 'Y', '= /x/', 'P 2020/99/99 EUR $1',
                    'comment', 'test nested']

    def comment_block(self, closed=True, blanks=None):
        """a `comment` / `test` block.  Nothing inside it is an item, whatever it looks like; it
        ends at the first line that STARTS with `end comment` or `end test` (either closes either),
        or with the file.  Its lines are physical lines of the file like any other."""
        rng = self.rng
        n = rng.choice([0, 1, 2, 3, 5, 8])
        kinds = [rng.choice('eeeewtttt') for _ in range(n)]
        if blanks:
            for _ in range(blanks):
                kinds.insert(rng.randrange(len(kinds) + 1), 'e')
        lines = [(rng.choice(self.COMMENT_HEADS), ['i', [], 0, []])]
        for k in kinds:
            if k == 'e':
                lines.append(('', 'e'))
            elif k == 'w':
                lines.append((rng.choice(['  ', '\t', '    ']), 'w'))
            else:
                lines.append((rng.choice(self.COMMENT_TEXT), ['ct']))
        if closed:
            lines.append((rng.choice(self.COMMENT_ENDS), ['ct']))
        e = Entry(lines, tag='comment')
        e.comment = (closed, kinds)
        return e

    def long_line(self):
        """an unindented line that does not fit the reader's line buffer (MAX_LINE = 4096): ledger
        refuses it (documented limit), so it is an invalid item of its own, one physical line long"""
        rng = self.rng
        n = rng.choice([4200, 5000, 8191, 8192, 9000, 20000])
        text = rng.choice(['; ', '2020/01/01 ', 'account X', '# ']) + 'x' * n
        return Entry([(text, 'long')], faults=[K_LONG], tag='long')

    def stray(self):
        n = self.rng.choice([1, 1, 2, 3])
        ind = self.rng.choice(['    ', '    ', ' ', '\t'])
        lines = [('%sExpenses:Food  $%d.00' % (ind, i + 1), ['s']) for i in range(n)]
        return Entry(lines, faults=[K_STRAY], tag='stray')


def faulty_item(b, rng):
    """one invalid item: at least one defect that is an error under the options"""
    r = rng.random()
    if r < 0.08:
        return b.bad_directive()
    if r < 0.3:
        e = b.form_xact(True)
        if e is not None:
            return e
    eff = b.effective()
    ds = [rng.choice(eff)]
    if rng.random() < 0.25:
        ds.append(rng.choice(DEFECTS))         # a second defect, error or not: still one message
    if ds[0] == 'balassert' and len(ds) > 1 and ds[1] in ('commodity', 'tag'):
        ds.pop()
    return b.xact(ds)


def valid_item(b, rng):
    """a valid item; now and then with defects that the options in force do not make errors"""
    r = rng.random()
    if r < 0.2:
        return b.valid_directive()
    if r < 0.4:
        return b.form_xact(False)
    h = b.harmless()
    if r < 0.6 and h:
        return b.xact(rng.sample(h, min(len(h), rng.choice([1, 1, 2, 3]))))
    return b.xact([])


def fill_file(b, rng, f, plan, depth, decls=False):
    """plan: list of 'v' (valid item) / 'f' (invalid item) / 'i' (include) in order"""
    if decls:
        f.entries += b.declarations()
    plan = wrap_blocks(rng, plan, 2 - (len(b.prefix) - b.base_depth))
    if b.comment_rate:
        # comment blocks anywhere: first, last, adjacent, between and in front of invalid items
        for _ in range(sum(1 for _ in range(3) if rng.random() < b.comment_rate)):
            plan.insert(rng.randrange(len(plan) + 1), 'c')
    if b.long_lines and rng.random() < 0.7:
        plan.insert(rng.randrange(len(plan) + 1), 'L')
    open_comment = bool(b.comment_rate) and rng.random() < b.comment_rate / 4
    prev_faulty = False        # error_flag may still be set (no unindented line since an invalid item)
    if rng.random() < 0.06:
        # an indented line before any head
        if decls or rng.random() < 0.5:
            f.entries.append(b.filler())       # (directly under a block directive they would be its sub-lines)
        f.entries.append(b.stray())
        prev_faulty = True
    for what in plan:
        sep = rng.random()
        if sep < 0.6:
            f.entries.append(b.filler())
        elif sep < 0.65:
            f.entries.append(b.ws_filler())
        # else: adjacent, no blank line
        if what in ('A', 'Z'):
            f.entries += b.open_block() if what == 'A' else b.close_block()
            prev_faulty = False
            continue
        if what == 'L':
            if not f.entries or not f.entries[-1].filler or f.entries[-1].lines[-1][1] != 'e':
                f.entries.append(b.filler())   # (an item of its own: not glued to the one before)
            f.entries.append(b.long_line())
            prev_faulty = True
            continue
        if what == 'c':
            f.entries.append(b.comment_block(blanks=rng.choice([0, 1, 1, 2, 4])))
            prev_faulty = False
        elif what == 'i':
            child = b.new_file()
            sub = plan_for(rng, rng.choice([0, 1, 2, 3, 5]), rng.choice([0, 0, 1, 1, 2, 3]), depth + 1)
            if rng.random() < 0.1:
                sub = []                       # an empty included file
            fill_file(b, rng, child, sub, depth + 1)
            e = Entry([('include ' + child.name, 'inc')], child=child, tag='include')
            f.entries.append(e)
            prev_faulty = False
        elif what == 'f':
            f.entries.append(faulty_item(b, rng))
            prev_faulty = bool(f.entries[-1].faults)
        else:
            f.entries.append(valid_item(b, rng))
            prev_faulty = bool(f.entries[-1].faults)
        # indented lines that belong to no block
        if rng.random() < 0.07:
            last = f.entries[-1]
            gap = rng.random() < 0.7
            head = last.lines[0][1]
            # directly under a block that is still open they would be read as part of it
            block_open = (what != 'i' and head[2] == 1 and last.lines[-1][1] != 'w'
                          and not (prev_faulty and not last.fin_only))
            if block_open:
                gap = True
            if gap:
                f.entries.append(b.filler())
            s = b.stray()
            if prev_faulty:
                s.merge_prev = True        # swallowed: error_flag is still set
                s.faults = []
            f.entries.append(s)
            prev_faulty = True
    if open_comment:
        # a block that nothing closes swallows the rest of the file
        f.entries.append(b.comment_block(closed=False, blanks=rng.choice([0, 1, 2])))
    elif rng.random() < 0.3:
        f.entries.append(b.filler())
    if rng.random() < 0.08 and f.entries and f.entries[-1].lines[-1][1] not in ('e', 'w'):
        f.final_newline = False


def wrap_blocks(rng, plan, levels):
    """put an `apply account` ... `end apply account` pair ('A' / 'Z') around a slice of the plan,
    and once more inside it"""
    if levels <= 0 or rng.random() > (0.3 if levels == 2 else 0.35):
        return plan
    i = rng.randrange(len(plan) + 1)
    j = rng.randrange(i, len(plan) + 1)
    inner = wrap_blocks(rng, plan[i:j], levels - 1)
    return plan[:i] + ['A'] + inner + ['Z'] + plan[j:]


def plan_for(rng, nvalid, nfault, depth):
    plan = ['v'] * nvalid + ['f'] * nfault
    rng.shuffle(plan)
    pos = rng.random()
    if nfault and pos < 0.25:
        plan.remove('f')
        plan.insert(0, 'f')                    # a fault in the first item
    elif nfault and pos < 0.5:
        plan.remove('f')
        plan.append('f')                       # in the last item
    elif nfault >= 2 and pos < 0.7:
        plan = [p for p in plan if p != 'f']
        at = rng.randrange(len(plan) + 1)
        plan[at:at] = ['f'] * nfault           # adjacent faults
    if depth < 3:
        for _ in range(rng.choice([0, 0, 0, 1, 1, 2] if depth == 0 else [0, 0, 0, 1])):
            plan.insert(rng.randrange(len(plan) + 1), 'i')
    return plan


def big_plan(rng, nfault):
    """exactly nfault invalid items, spread over the root and (maybe) includes by fill_file"""
    nvalid = rng.choice([0, 3, 20])
    plan = ['v'] * nvalid + ['f'] * nfault
    if rng.random() < 0.5:
        rng.shuffle(plan)
    return plan


class Case:
    pass


def gen_opts(rng):
    """a subset of the four checking options, each coming from the command line, an init file or
    the environment"""
    r = rng.random()
    if r < 0.2:
        o = dict(strict=True, pedantic=True, permissive=False, check_payees=rng.random() < 0.6)
    elif r < 0.4:
        o = dict(strict=False, pedantic=True, permissive=False, check_payees=rng.random() < 0.7)
    else:
        o = dict(strict=rng.random() < 0.4, pedantic=rng.random() < 0.5, permissive=rng.random() < 0.15,
                 check_payees=rng.random() < 0.5)
    src = {k: rng.choice(['cmd', 'cmd', 'cmd', 'init', 'init', 'env']) for k in OPTS if o[k]}
    return o, src


def build_case(rng, idx, nfault=None, opts=None, multi=None, comments=None, long_lines=False, bom=False):
    c = Case()
    c.idx = idx
    if opts is None:
        c.opts, c.src = gen_opts(rng)
    else:
        c.opts = dict(opts)
        c.src = {k: 'cmd' for k in OPTS if c.opts[k]}
    c.mode = '+'.join(k for k in OPTS if c.opts[k]) or 'none'
    c.master = rng.choice(['Main', 'Household']) if (nfault is None and rng.random() < 0.1) else None
    b = Builder(rng, c.opts, c.master)
    b.base_depth = len(b.prefix)
    b.comment_rate = comments if comments is not None else rng.choice([0, 0, 0, 0.15, 0.4])
    b.long_lines = long_lines
    # (what ledger skips after an over-long line, or with a first line it does not recognise, must not be
    # something later items depend on: no running balance to keep track of in those journals)
    b.no_bank = long_lines or bom
    nroots = multi if multi is not None else (rng.choice([2, 2, 3]) if rng.random() < 0.06 else 1)
    c.roots = []
    for r in range(nroots):
        root = b.new_file()
        # (the running account totals that balance assertions consult continue across the -f
        # files of one session, in option order, included files inline: b.bank is not reset)
        if nfault is not None:
            if r == 0:
                # split a large count between the root and one included file now and then
                if rng.random() < 0.4 and nfault > 10:
                    k = rng.randrange(1, nfault)
                    child_plan = ['f'] * k + ['v'] * rng.choice([0, 2])
                    rng.shuffle(child_plan)
                    plan = big_plan(rng, nfault - k)
                    root.entries += b.declarations()
                    child = b.new_file()
                    at = rng.randrange(len(plan) + 1)
                    pre, post = plan[:at], plan[at:]
                    fill_plain(b, rng, root, pre)
                    fill_plain(b, rng, child, child_plan)
                    root.entries.append(Entry([('include ' + child.name, 'inc')], child=child, tag='include'))
                    fill_plain(b, rng, root, post)
                else:
                    root.entries += b.declarations()
                    fill_plain(b, rng, root, big_plan(rng, nfault))
            else:
                fill_plain(b, rng, root, ['v', 'f', 'v'])
        else:
            r2 = rng.random()
            if r2 < 0.18:
                nf = 0
            elif r2 < 0.55:
                nf = 1
            else:
                nf = rng.choice([2, 2, 3, 4, 6, 9])
            nv = rng.choice([0, 1, 2, 3, 5, 8])
            if nv + nf == 0:
                nv = 1
            fill_file(b, rng, root, plan_for(rng, nv, nf, 0), 0, decls=(r == 0))
        c.roots.append(root)
    c.files = b.files
    c.valid_xacts = b.valid_xacts
    if bom:
        mark_bom(rng, c)
    c.cmd = list(rng.choice(COMMANDS))
    if getattr(b, 'used_virtual', False) and c.cmd == ['reg', '-M']:
        c.cmd = ['reg']        # (subtotalled reports refuse real and virtual postings to one account: filters.cc:931)
    finish_case(c)
    return c


def bom_eligible(f):
    """the first line may be lost to a reader that does not know the mark without changing what
    any OTHER item means: a directive or the head of a valid plain transaction.  (Lines of two
    words or more: a first line of one word, with the mark glued to it, is refused by name as a
    directive lacking its argument - another path, which the model does not describe.)"""
    if not f.entries:
        return False
    e = f.entries[0]
    if e.filler or len(e.lines[0][0].split()) < 2:
        return False
    if e.faults or e.warns or e.unchecked or e.form or e.comment or e.child is not None:
        return False
    nxt = [x for x in f.entries[1:] if not x.filler]
    if nxt and nxt[0].tag == 'stray':
        return False               # (it would be swallowed by the error the lost head line causes)
    return e.tag in ('dir', 'xact') and not any(BANK in t for t, _ in e.lines)


def mark_bom(rng, c):
    """put a UTF-8 byte-order mark in front of some of the files (the journal files of a text
    editor on Windows start with one; it is no part of the first line)"""
    ok = [f for f in c.files if bom_eligible(f)]
    for f in ok:
        if rng.random() < 0.85:
            f.bom = True


def fill_plain(b, rng, f, plan):
    """items separated by blank lines or adjacent; no extra strays/includes (exact fault count)"""
    for what in plan:
        if rng.random() < 0.5:
            f.entries.append(b.filler())
        if rng.random() < b.comment_rate / 3:
            f.entries.append(b.comment_block(blanks=rng.choice([0, 1, 2, 4])))
        f.entries.append(faulty_item(b, rng) if what == 'f' else valid_item(b, rng))


def finish_case(c):
    """number the lines, derive the model's shape and the oracle's item list"""
    c.items = []         # dict(file, first, last, faults) - what the oracle knows

    c.bom_first = {}     # file with a byte-order mark -> (first, last) line of its first entry
    c.comment_lines = {} # file -> set of the physical lines inside comment blocks (head and end marker included)

    def walk(f, hidden):
        n = 0
        shapes = ['bom'] if f.bom else []
        last_item = None       # the item the previous physical line belongs to
        prev_faulty = None     # the invalid item whose error_flag may still be set
        blank_in_comments = 0  # empty lines inside the comment blocks read so far in this file
        for e in f.entries:
            e.first = n + 1
            if e.comment is not None:
                closed, kinds = e.comment
                n += len(e.lines)
                shapes.append(['cmt', 1 if closed else 0] + list(kinds))
                c.comment_lines.setdefault(f.name, set()).update(range(e.first, n + 1))
                blank_in_comments += sum(1 for k in kinds if k == 'e')
            else:
                for text, shape in e.lines:
                    n += 1
                    if shape == 'inc':
                        shapes.append(['inc', file_id(c, e.child)] + walk(e.child, hidden))
                    else:
                        shapes.append(shape)
            e.last = n
            if f.bom and e.first == 1:
                c.bom_first[f.name] = (e.first, e.last)
            if e.filler:
                # a whitespace-only line directly under an item is how ledger delimits the item:
                # it is read as the item's last line
                if e.lines[0][1] == 'w' and last_item is not None:
                    last_item['last'] = e.first
                last_item = None
                continue
            if e.merge_prev and prev_faulty is not None:
                prev_faulty['last'] = e.last
                last_item = prev_faulty
                continue
            it = dict(file=f.name, first=e.first, last=e.last, faults=list(e.faults), warns=list(e.warns), tag=e.tag,
                      prefix=getattr(e, 'prefix', ''), form=e.form, unchecked=e.unchecked,
                      after_long=hidden, blank_comment_lines_above=blank_in_comments)
            c.items.append(it)
            last_item = it
            prev_faulty = it if e.faults else None
            if e.tag == 'long':
                hidden = True          # what follows an over-long line in this file (and in files included from there)
        return shapes

    c.shapes = [['file', file_id(c, r)] + walk(r, False) for r in c.roots]
    c.texts = {}
    for f in c.files:
        lines = [text for e in f.entries for text, _ in e.lines]
        t = '\n'.join(lines)
        if lines and f.final_newline:
            t += '\n'
        c.texts[f.name] = ('\ufeff' if f.bom else '') + t
    c.nfaults = sum(1 for it in c.items if it['faults'])
    order = [k for k in OPTS if c.src.get(k) == 'cmd']
    c.args = [FLAG[k] for k in order] + (['--master-account', c.master] if c.master else []) + c.cmd
    c.init = [FLAG[k] for k in OPTS if c.src.get(k) == 'init']
    c.env = {ENVV[k]: '1' for k in OPTS if c.src.get(k) == 'env'}


def file_id(c, f):
    return int(f.name[1:-4])


# ---- running the implementation --------------------------------------------------------------
RE_INC = re.compile(r'In file included from "(.*)", line (\d+):$')
RE_FILE = re.compile(r'While parsing file "(.*)", line (\d+):$')
RE_BAL = re.compile(r'While balancing transaction from "(.*)", lines? (\d+)(?:-(\d+))?:$')


RE_WARN = re.compile(r'Warning: "(.*)", line (\d+): (.*)$')


def parse_stderr(err, cdir):
    """-> (messages, error_count, leftovers, warnings).  message = dict(chain, file, line, kind,
    range, text); warning = dict(file, line, kind, text)"""
    msgs = []
    warns = []
    chain, cur, rng = [], None, None
    nerr = 0
    junk = []

    def rel(p):
        p = os.path.normpath(p)
        return os.path.relpath(p, cdir) if p.startswith(cdir) else p

    for l in err.split('\n'):
        m = RE_INC.match(l)
        if m:
            chain.append((rel(m.group(1)), int(m.group(2))))
            continue
        m = RE_FILE.match(l)
        if m:
            cur = (rel(m.group(1)), int(m.group(2)))
            continue
        m = RE_BAL.match(l)
        if m:
            rng = (int(m.group(2)), int(m.group(3) or m.group(2)))
            continue
        if l.startswith('Error: '):
            nerr += 1
            text = l[7:]
            msgs.append(dict(chain=chain, file=cur[0] if cur else None, line=cur[1] if cur else None,
                             kind=classify(text), range=rng, text=text))
            chain, cur, rng = [], None, None
            continue
        if l.startswith('Warning: '):
            m = RE_WARN.match(l)
            if m:
                warns.append(dict(file=rel(m.group(1)), line=int(m.group(2)), kind=classify(m.group(3)), text=m.group(3)))
            else:
                warns.append(dict(file=None, line=None, kind=99, text=l))
            continue
        if cur is None and l.strip() and not l.startswith('>'):
            junk.append(l)
    return msgs, nerr, junk, warns


def fid(name):
    m = re.fullmatch(r'j(\d+)\.dat', name or '')
    return m.group(1) if m else '?(%s)' % name


def canon_impl(status, out, msgs, nerr):
    ms = []
    for m in msgs:
        chain = ','.join('%s:%d' % (fid(f), l) for f, l in m['chain'])
        r = '%d-%d' % m['range'] if m['range'] else '-'
        ms.append('%s>%s:%s:%d:%s' % (chain, fid(m['file']), m['line'], m['kind'], r))
    return 'status=%s errors=%d report=%d msgs=%s' % (status, nerr, 1 if len(out) > 0 else 0, ';'.join(ms))


def invoke(cdir, files, roots, args, init, env):
    """write the case into cdir and run ledger on it -> (status, stdout, stderr text)"""
    shutil.rmtree(cdir, ignore_errors=True)
    os.makedirs(cdir)
    for name, text in files.items():
        with open(os.path.join(cdir, name), 'wb') as fh:
            fh.write(text.encode('utf-8'))
    pre = []
    if init:
        ip = os.path.join(cdir, 'init.rc')
        with open(ip, 'w') as fh:
            fh.write('\n'.join(init) + '\n')
        pre = ['--init-file', ip]          # (overrides the harness's --init-file /dev/null)
    fargs = []
    for r in roots:
        fargs += ['-f', os.path.join(cdir, r)]
    for attempt in range(60):
        st, out, err = lib.run_ledger(pre + fargs + list(args), timeout=120, env=lib.ledger_env(env) if env else None)
        if st == 127 and b'error while loading shared libraries' in err:
            time.sleep(2)          # the binary is being re-linked by a concurrent build: not an observation of ledger
            continue
        break
    return st, out, err.decode('utf-8', 'replace')


def run_case(ctx, c):
    cdir = ctx.path('case%d' % c.idx)
    roots = [r.name for r in c.roots]
    st, out, err = invoke(cdir, c.texts, roots, c.args, c.init, c.env)
    base = None
    if c.nfaults == 0 and c.mode != 'none':
        # the same journal without any checking option: a valid journal's report must not depend on them
        base = invoke(cdir, c.texts, roots, (['--master-account', c.master] if c.master else []) + c.cmd, [], {})
    shutil.rmtree(cdir, ignore_errors=True)
    return st, out, err, cdir, base


# ---- oracle: the property text on ledger's real output ------------------------------------------
def oracle(items, roots, status, out, msgs, nerr, stderr_text, opts, warns=(), base=None, extra=None):
    """items: what was injected (file, first, last, faults = classes that are errors under the
    options by their documented meaning, warns = classes that must be warned about).
    Returns [(key, desc, observed, required)]."""
    v = []
    mode = '+'.join(k for k in OPTS if opts.get(k)) or 'none'
    style = doc_style(opts)
    faulty = [it for it in items if it['faults']]
    NAMEK = (K_ACCOUNT, K_COMMODITY, K_PAYEE, K_TAG)

    def inside(w, it):
        return w['file'] == it['file'] and w['line'] is not None and it['first'] <= w['line'] <= it['last']

    extra = extra or {}
    bom_first = extra.get('bom_first') or {}
    comment_lines = extra.get('comment_lines') or {}
    # a byte-order mark is no part of the first line: a valid first item stays valid.  Messages
    # located in the valid first item of a file that starts with a mark are reported under one key
    bom_msgs = []
    for m in msgs:
        r = bom_first.get(m['file'])
        if r and m['line'] is not None and r[0] <= m['line'] <= r[1] and not any(inside(m, it) for it in faulty):
            bom_msgs.append(m)
    if bom_msgs:
        m = bom_msgs[0]
        v.append(('utf8-bom:error-on-valid-first-item',
                  'the file %s starts with a UTF-8 byte-order mark and its first item (lines %d-%d) is valid, but ledger reports %r at line %s'
                  % (m['file'], bom_first[m['file']][0], bom_first[m['file']][1], m['text'], m['line']),
                  '%s:%s' % (m['file'], m['line']), 'no message: the mark is not part of the first line'))
    # nothing inside a comment / test block is an item
    for m in msgs:
        if m['line'] in set(comment_lines.get(m['file']) or ()) and m not in bom_msgs:
            v.append(('message-located-inside-comment-block', 'message %r at %s line %s points into a comment / test block'
                      % (m['text'], m['file'], m['line']), '%s:%s' % (m['file'], m['line']), 'no message for the lines of a comment block'))
    # warnings: only --strict (without --pedantic / --permissive) warns, and then about every
    # undeclared name
    if style != 'warning' and warns:
        w = warns[0]
        if not (style == 'error' and any(inside(w, it) for it in faulty)):     # (reported below, more precisely)
            v.append(('warning-without-strict:' + mode, 'a Warning: line although the options in force do not ask for warnings: %r' % w['text'],
                      w['text'], 'no warning'))
    if style == 'warning':
        for it in items:
            if it.get('warns') and not it['faults']:
                if any(inside(w, it) and w['kind'] in it['warns'] for w in warns):
                    continue
                names = '+'.join(KNAME[k] for k in it['warns'])
                if it['file'] not in roots and any(w['kind'] in it['warns'] and w['file'] in roots for w in warns):
                    v.append(('strict-warning-located-at-include-directive',
                              'under --strict the undeclared name (%s) in the included file %s lines %d-%d is warned about, but the '
                              'warning names the including file and the line of its include directive' % (names, it['file'], it['first'], it['last']),
                              [w['text'] for w in warns][:5], 'a Warning: naming the file and a line of the item'))
                else:
                    v.append(('strict-warning-missing:' + names,
                              'under --strict the undeclared name in %s lines %d-%d got no located warning' % (it['file'], it['first'], it['last']),
                              [w['text'] for w in warns][:5], 'a Warning: naming the file and a line of the item'))
    # undeclared commodities in positions ledger does not look at (documentation: "commodities not
    # previously declared will cause errors" / "warnings")
    for it in items:
        if it.get('unchecked') and not it['faults']:
            if style == 'error' and not any(inside(m, it) for m in msgs):
                v.append(('undeclared-commodity-unchecked:' + it['unchecked'],
                          'under --pedantic the undeclared commodity used as %s in %s lines %d-%d is accepted without a message'
                          % (it['unchecked'], it['file'], it['first'], it['last']), 'no message', 'an Error: located in the item'))
            elif style == 'warning' and not any(inside(w, it) for w in warns):
                v.append(('undeclared-commodity-unwarned:' + it['unchecked'],
                          'under --strict the undeclared commodity used as %s in %s lines %d-%d is accepted without a warning'
                          % (it['unchecked'], it['file'], it['first'], it['last']), 'no warning', 'a Warning: located in the item'))
    if not faulty:
        only_bom = bool(bom_msgs) and len(bom_msgs) == len(msgs) == nerr
        if only_bom:
            pass        # (reported above; the status follows from it)
        elif nerr or 'While parsing file' in stderr_text:
            v.append(('clean-journal:error-message', 'a journal in which every item is valid (options: %s) produced an error message' % mode,
                      stderr_text[:300], 'no error message'))
        if not warns and stderr_text.strip() and not nerr:
            v.append(('clean-journal:stderr-output', 'a valid journal produced output on stderr', stderr_text[:300], 'empty stderr'))
        if status != 0 and not only_bom:
            v.append(('clean-journal:nonzero-status', 'a journal in which every item is valid exits non-zero', 'status=%s' % status, 'status 0'))
        if base is not None and base[0] == 0 and status == 0 and base[1] != out and not out.startswith(b'<?xml'):   # (xml lists commodity flags, incl. 'known')
            v.append(('report-depends-on-checking-options:' + mode, 'the report of a valid journal differs from the report without checking options',
                      out[:300].decode('utf-8', 'replace'), base[1][:300].decode('utf-8', 'replace')))
        return v
    n = len(faulty)
    if status == 0:
        v.append(('status-zero-with-faults:%s' % ('multiple-of-256' if n % 256 == 0 else 'count-not-multiple-of-256'),
                  '%d invalid items (options: %s), exit status 0' % (n, mode), 'status=0', 'non-zero status'))
    elif not isinstance(status, int) or status < 0:
        v.append(('abnormal-termination', 'ledger died reading a journal with %d invalid items' % n, 'status=%s' % status, 'an orderly non-zero exit'))
    if len(out) > 0:
        v.append(('report-written-despite-faults', '%d invalid items (options: %s) but %d bytes on stdout' % (n, mode, len(out)),
                  out[:200].decode('utf-8', 'replace'), 'empty stdout'))
    # one located message per invalid item
    hits = {}
    stray_msgs = []
    for m in msgs:
        owner = None
        for k, it in enumerate(faulty):
            if inside(m, it):
                owner = k
                break
        if owner is None:
            if m not in bom_msgs:
                stray_msgs.append(m)
        else:
            hits.setdefault(owner, []).append(m)
    # an over-long line is refused: the message must name that line
    early = []
    for k, it in enumerate(faulty):
        if it['faults'] == [K_LONG] and not hits.get(k):
            for m in stray_msgs:
                if m['kind'] == K_LONG and m['file'] == it['file'] and m['line'] == it['first'] - 1:
                    early.append((k, m))
                    break
    for k, m in early:
        it = faulty[k]
        stray_msgs.remove(m)
        hits[k] = [dict(m, line=it['first'])]          # (reported here, not twice)
        v.append(('overlong-line:located-one-line-early', 'the over-long line %d of %s is refused with a message that names line %d'
                  % (it['first'], it['file'], m['line']), '%s:%s' % (m['file'], m['line']), 'line %d' % it['first']))
    for k, it in enumerate(faulty):
        got = hits.get(k, [])
        names = '+'.join(KNAME[f] for f in it['faults'])
        if not got:
            key = 'fault-unreported:in-later-f-file' if it.get('root_index', 0) > 0 else 'fault-unreported:' + names
            if it.get('after_long'):
                key = 'fault-unreported:after-overlong-line'
            elif it.get('blank_comment_lines_above'):
                key = 'fault-unreported:below-comment-block-with-empty-lines'
            if all(f in NAMEK for f in it['faults']) and any(inside(w, it) for w in warns):
                key = 'undeclared-name-only-warned-under-pedantic:' + mode
            v.append((key, 'the invalid item at %s lines %d-%d (%s; options: %s) got no Error: message naming that file and a line of the item'
                      % (it['file'], it['first'], it['last'], names, mode), 'messages: %d, warnings: %d' % (len(msgs), len(warns)), 'one located message'))
        elif len(got) > 1:
            v.append(('several-messages-for-one-item:' + names, 'the invalid item at %s lines %d-%d got %d messages'
                      % (it['file'], it['first'], it['last'], len(got)), [g['text'] for g in got], 'one message'))
        else:
            g = got[0]
            if g['range'] and not (it['first'] <= g['range'][0] <= g['range'][1] <= it['last']):
                v.append(('line-range-outside-item:' + names, 'line range %s is not inside the item %d-%d' % (g['range'], it['first'], it['last']),
                          str(g['range']), 'a range inside the item'))
    for m in stray_msgs:
        key = 'message-not-located-in-an-invalid-item'
        below = [it['blank_comment_lines_above'] for it in faulty if it['file'] == m['file'] and it.get('blank_comment_lines_above')]
        if below and m['line'] is not None and any(inside(dict(m, line=m['line'] + k), it) for it in faulty for k in set(below)):
            key += ':line-number-short-by-the-empty-lines-of-comment-blocks-above'
        v.append((key, 'message %r at %s line %s is not inside any invalid item (options: %s)'
                  % (m['text'], m['file'], m['line'], mode), '%s:%s' % (m['file'], m['line']), 'messages only for invalid items'))
    if nerr != len(msgs):
        v.append(('unlocated-error', 'an Error: line without a file/line location', 'errors=%d located=%d' % (nerr, len(msgs)), 'every error located'))
    return v


def root_index_of(c):
    """which -f file (by position) each file belongs to"""
    idx = {}

    def walk(f, r):
        idx[f.name] = r
        for e in f.entries:
            if e.child is not None:
                walk(e.child, r)
    for r, root in enumerate(c.roots):
        walk(root, r)
    return idx


def case_record(c):
    return dict(files=c.texts, roots=[r.name for r in c.roots], args=c.args, cmd=(['--master-account', c.master] if c.master else []) + c.cmd, init=c.init, env=c.env,
                opts=c.opts, items=c.items, mode=c.mode, extra=case_extra(c))


def case_extra(c):
    return dict(bom_first={k: list(v) for k, v in c.bom_first.items()}, comment_lines={k: sorted(v) for k, v in c.comment_lines.items()})


def strip_ranges(ms):
    """`lines A-B` is printed by ledger for a transaction that does not balance only; the model
    carries the item's range on every whole-item rejection"""
    return re.sub(r'(:(?!1:)\d+):\d+-\d+(?=;|$)', r'\1:-', ms)


def evaluate(ctx, res, cases, tagname):
    """run ledger (in parallel) and the model on the cases; compare; judge"""
    with ThreadPoolExecutor(max_workers=min(8, lib.NCPU)) as ex:
        outs = list(ex.map(lambda c: run_case(ctx, c), cases))
    lines = [lib.sx(['case', '%s%d' % (tagname, c.idx), ['opts'] + [c.opts[k] for k in OPTS]] + c.shapes) for c in cases]
    model = lib.run_model('C12', lines)
    for c, (st, out, err, cdir, base), ml in zip(cases, outs, model):
        res.evaluations += 1
        res.traces += 1
        msgs, nerr, junk, warns = parse_stderr(err, cdir)
        impl = canon_impl(st, out, msgs, nerr)
        mid, _, mrest = ml.partition(' ')
        mclean = re.search(r' clean=(\d)', mrest)
        mstyle = re.search(r' style=(\w+)', mrest)
        mcmp = re.sub(r' clean=\d', '', mrest)
        mcmp = re.sub(r' style=\w+', '', mcmp)
        head, sep, ms = mcmp.partition('msgs=')
        mcmp = head + sep + strip_ranges(ms)
        if c.nfaults == 0 and c.valid_xacts == 0:
            # nothing to report on: stdout may legitimately be empty; compare the rest
            impl = re.sub(r'report=\d', 'report=*', impl)
            mcmp = re.sub(r'report=\d', 'report=*', mcmp)
        rec = None
        if impl != mcmp:
            rec = case_record(c)
            res.disagreements.append(dict(name='C12/messages-count-status', case=rec, impl=impl[:2000], model=mcmp[:2000]))
        if mclean and (mclean.group(1) == '1') != (c.nfaults == 0):
            res.disagreements.append(dict(name='C12/clean-spec', case=rec or case_record(c),
                                          impl='injected faults: %d' % c.nfaults, model='file_clean=%s' % mclean.group(1)))
        # the model's checking style (chain regenerated from session.cc) against the documented one
        want = {'error': 'error', 'warning': 'warning', 'quiet': 'permissive' if c.opts['permissive'] else 'normal'}[doc_style(c.opts)]
        if mstyle and mstyle.group(1) != want:
            res.disagreements.append(dict(name='C12/checking-style-vs-documentation', case=c.mode,
                                          impl='documented: %s' % want, model=mstyle.group(1)))
        # what the implementation's checking style must have been: warnings only in warning style
        if junk:
            res.disagreements.append(dict(name='C12/unparsed-stderr', case=rec or case_record(c), impl=junk[:5], model=''))
        ridx = root_index_of(c)
        for it in c.items:
            it['root_index'] = ridx[it['file']]
        for key, desc, obs, req in oracle(c.items, [r.name for r in c.roots], st, out, msgs, nerr, err, c.opts, warns, base, case_extra(c)):
            res.violations.append(dict(key=key, desc=desc, case=case_record(c), observed=obs, required=req))
        # bookkeeping
        res.count('options:' + c.mode)
        for k, v in c.src.items():
            res.count('option-source:' + v)
        res.count('faults:%s' % bucket(c.nfaults))
        nblk = sum(1 for f in c.files for e in f.entries if e.tag == 'apply' and e.lines[0][0].startswith('apply account'))
        res.count('apply-account-blocks:%s' % (nblk if nblk < 3 else '3+'))
        if c.master:
            res.count('master-account')
        for it in c.items:
            if it.get('prefix') and it['tag'] == 'xact':
                res.count('transaction-inside-apply-account:%s' % ('invalid' if it['faults'] else 'valid'))
        res.count('files:%d' % len(c.files))
        ncb = sum(1 for f in c.files for e in f.entries if e.comment is not None)
        res.count('comment-blocks:%s' % (ncb if ncb < 3 else '3+'))
        if any(e.comment is not None and 'e' in e.comment[1] for f in c.files for e in f.entries) and c.nfaults:
            res.count('comment-block-with-empty-lines-and-faults')
        if any(e.comment is not None and not e.comment[0] for f in c.files for e in f.entries):
            res.count('comment-block-unclosed')
        if c.bom_first:
            res.count('files-with-byte-order-mark:%d' % len(c.bom_first))
        if any(it['tag'] == 'long' for it in c.items):
            res.count('over-long-line:%s' % ('items-after-it' if any(it.get('after_long') for it in c.items) else 'last'))
        res.count('roots:%d' % len(c.roots))
        for it in c.items:
            for k in it['faults']:
                res.count('fault:' + KNAME[k])
            for k in it['warns']:
                res.count('expected-warning:' + KNAME[k])
            if it.get('form'):
                res.count('written-form:%s:%s' % (it['form'], 'error' if it['faults'] else ('warning' if it['warns'] else ('unchecked' if it.get('unchecked') else 'accepted'))))
        for m in msgs:
            res.count('impl-message:' + KNAME.get(m['kind'], 'unclassified'))
            if m['chain']:
                res.count('impl-message-in-include:depth%d' % len(m['chain']))
        for w in warns:
            res.count('impl-warning:' + KNAME.get(w['kind'], 'unclassified'))
        if c.nfaults > 0 or len(c.files) > 1 or any(it['warns'] for it in c.items):
            res.nontrivial.add(c.mode + ' ' + lib.sx(c.shapes))
        if len(res.samples) < 4 and 0 < c.nfaults < 4 and len(c.files) <= 2:
            res.samples.append(dict(args=c.args, init_file=c.init, env=c.env, files=c.texts, impl=impl, model=mcmp))


def bucket(n):
    if n == 0:
        return '0'
    if n <= 3:
        return '1-3'
    if n <= 10:
        return '4-10'
    if n < 255:
        return '11-254'
    return str(n) if n in (255, 256, 257, 300, 512) else '255+'


def status_table(ctx, res):
    """the status mapping alone: model's status for boundary counts (the implementation's
    status for 255/256/257/300/512 errors is observed by the large cases)"""
    ns = [1, 2, 127, 128, 254, 255, 256, 257, 300, 511, 512, 513, 768, 1024, 65535, 65536, 2 ** 32]
    out = lib.run_model('C12', [lib.sx(['status', n]) for n in ns])
    for n, l in zip(ns, out):
        s = int(l.split()[2])
        if s == 0:
            res.disagreements.append(dict(name='C12/status-table', case=n, impl='(non-zero required)', model='status %d' % s))


def run(ctx, n_override=None):
    rng = ctx.rng
    res = lib.Result()
    res.rule = ('journals of 1-3 -f files with include files up to 3 levels deep, 0-30 items each (declarations, transactions of 2-4 '
                'postings with notes / elided amounts / correct balance assertions, one-line and block directives, blank and '
                'whitespace-only lines) with faults injected first / last / adjacent / inside includes: unbalanced, 12 malformed dates, '
                '10 malformed amounts, failed balance assertion / assert line, undeclared (misspelt) account / commodity / tag / payee, '
                'malformed directives, stray indented lines, two faults in one transaction; plus journals with exactly 255, 256, 257, '
                '300, 512 and random 100-300 faults; `apply account ROOT` blocks (nested, around declarations and transactions, with includes inside) '
                'and --master-account, with accounts declared inside the block, by full name outside it, or only under another prefix, and '
                'commodity / tag / payee directives inside blocks as controls; names in every written form (lot annotations {P} {{T}} {=P} [DATE] (NOTE) ((EXPR)), '
                'costs @ @@ (@), value-expression amounts, commodity-less and quoted amounts, balance assignments and assertions, virtual ( ) and [ ] postings, '
                '`; Payee:` tags on the posting line or the next) with declared and undeclared names; each journal is read under a subset of --strict --pedantic --permissive --check-payees '
                '(all 16 occur), each option given on the command line, in an init file or through LEDGER_* in the environment; '
                '`comment` / `test` blocks (0-12 swallowed lines: empty, blanks, text that looks like transactions / directives / indented end markers; closed by `end comment` / `end test` or by the end of the file) '
                'in -f files and included files, in front of / between / behind invalid items; unindented lines of 4200-20000 bytes with items after them; files starting with a UTF-8 byte-order mark; '
                'non-trivial = at least one injected fault, expected warning or include; distinct by options + shape')
    n = n_override or ctx.scale(2500, 20000)
    cases = []
    for i in range(n):
        cases.append(build_case(rng, i))
    bigs = [255, 256, 257, 300, 512] + [rng.randrange(100, 301) for _ in range(ctx.scale(2, 12))]
    if ctx.tier == 'thorough':
        bigs += [255, 256, 257, 300, 512, 511, 513, 768, 1024]
    for k, nf in enumerate(bigs):
        cases.append(build_case(rng, n + k, nfault=nf, multi=1, opts=rng.choice([
            dict(strict=False, pedantic=True, permissive=False, check_payees=True), dict(strict=True, pedantic=True, permissive=False, check_payees=True),
            dict(strict=False, pedantic=True, permissive=False, check_payees=False), dict(strict=False, pedantic=False, permissive=False, check_payees=False)])))
    # directed: every subset of the four options on small journals with undeclared names
    for k in range(16 * ctx.scale(2, 10)):
        o = {name: bool((k >> i) & 1) for i, name in enumerate(OPTS)}
        cases.append(build_case(rng, 100000 + k, opts=o))
    # directed: several -f files with faults in a later one
    for k in range(ctx.scale(6, 40)):
        cases.append(build_case(rng, n + len(bigs) + k, multi=rng.choice([2, 3])))
    # directed: comment / test blocks (empty, blank and text lines inside; closed by either marker or by the end of the
    # file; in -f files and in included files) in front of, between and behind invalid items
    for k in range(ctx.scale(120, 1200)):
        cases.append(build_case(rng, 200000 + k, comments=rng.choice([0.5, 0.9])))
    none = dict(strict=False, pedantic=False, permissive=False, check_payees=False)
    # directed: lines that do not fit the line buffer, with items after them
    for k in range(ctx.scale(40, 400)):
        cases.append(build_case(rng, 210000 + k, opts=none, long_lines=True, comments=rng.choice([0, 0.4])))
    # directed: files that start with a UTF-8 byte-order mark
    for k in range(ctx.scale(80, 600)):
        cases.append(build_case(rng, 220000 + k, bom=True, multi=rng.choice([None, 2, 3, 3]), comments=rng.choice([0, 0.3])))
    step = 400
    for a in range(0, len(cases), step):
        evaluate(ctx, res, cases[a:a + step], 'c')
    status_table(ctx, res)
    res.extra['refuted_theorems'] = []
    try:
        gen = open(os.path.join(lib.COQ, 'Gen', 'StatusOfCount.v')).read()
        res.extra['generated_tables'] = {'Gen/StatusOfCount.v': [l for l in gen.split('\n') if l.startswith('Definition') or 'shape' in l]}
        gen = open(os.path.join(lib.COQ, 'Gen', 'CheckingStyle.v')).read()
        res.extra['generated_tables']['Gen/CheckingStyle.v'] = [l for l in gen.split('\n') if l.startswith('Definition') or 'precedence' in l]
        gen = open(os.path.join(lib.COQ, 'Gen', 'NameChecks.v')).read()
        res.extra['generated_tables']['Gen/NameChecks.v'] = [l for l in gen.split('\n') if l.startswith('Definition')]
        gen = open(os.path.join(lib.COQ, 'Gen', 'LineReader.v')).read()
        res.extra['generated_tables']['Gen/LineReader.v'] = [l for l in gen.split('\n') if l.startswith('Definition')]
    except OSError:
        pass
    return res


def search(ctx, broken):
    import random
    for s in range(4):
        ctx.rng = random.Random('C12-search-%d-%d' % (ctx.seed, s))
        r = run(ctx, n_override=1500)
        known = [k for k in lib.load_known_findings() if k['prop'] == 'C12']
        new = [v for v in r.violations if not any(re.fullmatch(k['match'], v['key']) for k in known)]
        if new:
            return new
    return []


def replay(ctx, obj):
    res = lib.Result()
    case = obj.get('case') or {}
    if not isinstance(case, dict) or 'files' not in case:
        print('replay: nothing to run (%s)' % obj.get('kind'))
        return res
    cdir = ctx.path('replay')
    st, out, err = invoke(cdir, case['files'], case['roots'], case['args'], case.get('init') or [], case.get('env') or {})
    opts = case.get('opts') or {k: False for k in OPTS}
    base = None
    if not any(it['faults'] for it in case['items']) and any(opts.values()):
        base = invoke(cdir, case['files'], case['roots'], case.get('cmd') or case['args'], [], {})
    msgs, nerr, junk, warns = parse_stderr(err, cdir)
    print('replay: ledger %s (init file: %s; environment: %s) -> status %s, %d Error: lines, %d Warning: lines, %d bytes on stdout'
          % (' '.join(case['args']), ' '.join(case.get('init') or []) or '-', case.get('env') or '-', st, nerr, len(warns), len(out)))
    for key, desc, obs, req in oracle(case['items'], case['roots'], st, out, msgs, nerr, err, opts, warns, base, case.get('extra')):
        print('replay: %s: %s' % (key, desc))
        if key == obj.get('key'):
            res.violations.append(dict(key=key, desc=desc))
    return res
