"""C03 - amount arithmetic is exact rational arithmetic.
Correspondence: random operator trees evaluated by ledger's REPL (`eval verif_rational(E)`)
and by the extracted Coq model (Model/Amount.v: aeval); long sums through register totals.
Oracle: exact Fractions evaluation under the per-commodity denotation, written from the
property text (no precision counters, no display-zero tests, no type lattice)."""
import os, re
from fractions import Fraction as F
import lib

META = dict(
    id='C03',
    level='proof',
    technique='Coq proof (refinement of the amount/balance/value model to per-commodity exact rationals) + differential correspondence of the extracted model against ledger',
    level_text='Theorems in coq/Properties/Properties_C03.v state, for all amounts/balances/values and all operator trees, that the model of amount_t/balance_t/value_t arithmetic computes the exact per-commodity rational result (precision counter and keep flag never influence a quantity; laws of + - * /; comparisons on exact values). The model is tied to the code by evaluating thousands of generated expression trees and long posting sums both in freshly built ledger (exact num/den through the verif_rational hook) and in the extracted model, comparing every result including precision counters and error classes.',
    level_note='Trusted: Coq kernel; extraction + OCaml driver and the python harness for the correspondence; GMP modelled as Q; the display-zero test of division uses the MPFR model Base/Round.v. C long overflow of INTEGER values is excluded (undefined behaviour in the code).',
    design_ref='DESIGN.md section 7 C03, section 6.2',
    assumptions=['expression literals avoid the predefined time commodities s/m/h and reserved words',
                 'INTEGER values stay within C long'],
)

SYMS = [('$', 'pre'), ('EUR', 'suf'), ('AAA', 'suf'), ('BTC', 'suf'), ('CAD', 'suf')]
BINOPS = ['+', '-', '*', '/']
CMPOPS = ['==', '<', '>', '<=', '>=', '!=']


class Lit:
    """A decimal literal.  braced = written `{...}` in an expression: parsed PARSE_NO_MIGRATE, so it
    keeps its precision and teaches the pool nothing; a bare literal (and a posting amount) has
    keep = 0 and raises its commodity's display precision to its own number of decimals."""
    def __init__(self, digits, decimals, sym, braced=False, marks=False):
        self.digits, self.decimals, self.sym, self.braced = digits, decimals, sym, braced
        self.marks = marks          # written with thousands marks (1,250 / 1,234,567.50): the same decimal number
        self.keep = braced
        self.value = F(int(digits), 10 ** decimals)

    def text(self):
        s = self.digits
        if self.decimals:
            s = s.rjust(self.decimals + 1, '0')
            s = s[:-self.decimals] + '.' + s[-self.decimals:]
        if self.marks:
            ip, dot, fp = s.partition('.')
            s = re.sub(r'(?<=\d)(?=(\d{3})+$)', ',', ip) + dot + fp
        if self.sym is not None:
            name, side = self.sym
            s = (name + s) if side == 'pre' else (s + ' ' + name)
        return '{' + s + '}' if self.braced else s

    def sx(self):
        return ['lit', self.value.numerator, self.value.denominator, self.decimals, self.keep,
                self.sym[0].encode() if self.sym else b'']


def gen_lit(rng, syms, big=False):
    nd = rng.choice([1, 1, 2, 3, 5, 8, 17, 40]) if big else rng.choice([1, 1, 2, 3, 4, 6])
    dec = rng.choice([0, 0, 1, 2, 2, 3, 5, 9, 20]) if big else rng.choice([0, 0, 1, 2, 2, 3, 4])
    digits = str(rng.randrange(1, 10)) + ''.join(rng.choice('0123456789') for _ in range(nd - 1))
    if rng.random() < 0.03:
        digits = '0'
    sym = rng.choice(syms) if rng.random() < 0.6 else None
    marks = False
    if rng.random() < 0.12:
        # thousands marks, with and without a decimal part: four or more integer digits
        digits = str(rng.randrange(1, 10)) + ''.join(rng.choice('0123456789') for _ in range(dec + rng.choice([3, 3, 4, 6, 8])))
        marks = True
    return ('lit', Lit(digits, dec, sym, braced=rng.random() < 0.25, marks=marks))


def gen_directed(rng, syms):
    """shapes aimed at the model's case splits: a divisor that displays as zero without being
    zero, products whose precision exceeds the cap, INTEGER cells on either side"""
    sym = rng.choice(syms)
    a = ('lit', Lit(str(rng.randrange(1, 999)), rng.choice([0, 2]), sym))
    tiny = ('bin', '/', ('lit', Lit(str(rng.randrange(1, 9)), 2, sym)), ('lit', Lit(str(rng.randrange(300, 99999)), 0, None)))
    k = rng.randrange(17)
    if k >= 14:
        return gen_balcmp(rng)
    other = ('lit', Lit(str(rng.randrange(1, 99)), 0, rng.choice([s for s in syms if s != sym] or syms)))
    grown = ('bin', '*', a, ('lit', Lit('1001', 3, None)))           # a * 1.001: more decimals than displayed
    if k == 6:
        # a balance minus an amount leaves a residue below display precision, which must survive
        return ('bin', '*', ('bin', '-', ('bin', '+', other, grown), a), ('lit', Lit('1000', 0, None)))
    if k == 7:
        b = ('bin', '+', other, grown)
        return ('bin', '==', ('bin', '+', ('bin', '-', b, a), a), b)
    if k == 8:
        return ('bin', '+', ('bin', '+', other, a), ('bin', '/', ('lit', Lit(str(rng.randrange(1, 9)), 2, sym)), ('lit', Lit('700', 0, None))))
    if k == 13:
        # a commodity that cancels inside a balance: by `+ (-a)` (the slot stays behind, exactly zero) or by `- a` (erased)
        lhs = ('bin', '+', ('bin', '+', a, other), ('neg', a)) if rng.random() < 0.6 else ('bin', '-', ('bin', '+', a, other), a)
        rhs = other if rng.random() < 0.7 else ('bin', '+', other, ('bin', '-', a, a))
        return ('bin', rng.choice(['==', '!=']), lhs, rhs) if rng.random() < 0.7 else ('bin', rng.choice(['==', '!=']), rhs, lhs)
    if k in (9, 10, 11, 12):
        # ordering at the boundary: a BALANCE-typed value (an amount plus a plain zero, or two commodities) against an
        # amount or plain number that equals one of its components exactly, or lies just beside it
        la = a[1]
        same = ('lit', Lit(la.digits, la.decimals, la.sym if k == 9 else None, braced=rng.random() < 0.3))
        near = ('lit', Lit(str(int(la.digits) + rng.choice([-1, 1])), la.decimals, la.sym if k == 9 else None))
        rhs = same if rng.random() < 0.6 else near
        if k in (9, 10):
            lhs = ('bin', '+', a, rng.choice([('int', 0), ('lit', Lit('0', 0, None)), ('bin', '-', other, other)]))
        elif k == 11:
            lhs = ('bin', '+', a, other)
        else:
            lo = other[1]
            lhs = ('bin', '+', a, other)
            rhs = ('lit', Lit(lo.digits, lo.decimals, None)) if rng.random() < 0.5 else rhs
        op = rng.choice(CMPOPS)
        return ('bin', op, lhs, rhs) if rng.random() < 0.7 else ('bin', op, rhs, lhs)
    if k == 0:
        return ('bin', '/', a, tiny)
    if k == 1:
        return ('bin', '*', ('bin', '*', a, ('lit', Lit('1' + str(rng.randrange(10 ** 8, 10 ** 9)), 9, None))), ('lit', Lit('3333', 4, None)))
    if k == 2:
        return ('bin', '-', ('int', rng.choice([0, 2, -5])), a)
    if k == 3:
        return ('bin', '-', ('bin', '-', a, a), ('lit', Lit('3', 0, rng.choice(syms))))
    if k == 4:
        return ('bin', rng.choice(['<', '>', '==', '<=', '>=']), ('bin', '+', a, tiny), a)
    return ('bin', '/', ('bin', '+', a, ('lit', Lit('7', 0, rng.choice(syms)))), ('int', rng.choice([2, 3, 7, -4])))


def gen_balcmp(rng):
    """a balance of 2-5 commodities (written in a random order, so the table's insertion order is not the commodity
    order; now and then with a plain-number entry, a negative entry, an entry that cancelled to an exact zero) ordered
    against a COMMODITIZED amount - in the balance's first / a middle / its last commodity by name, or in a commodity it
    does not hold -, against a plain number or an integer; all four operators, either side.  value_t::is_less_than walks
    the balance in commodity order and stops at the first entry that decides: `false`, or the error "different
    commodities" (since /repo 55e6d28; before, in hash-table order - finding F190)."""
    n = rng.choice([2, 2, 3, 3, 4, 5])
    held = rng.sample(SYMS, n)
    parts = []
    for sym in held:
        dec = rng.choice([0, 0, 1, 2])
        lit = ('lit', Lit(str(rng.randrange(1, 60)), dec, sym))
        parts.append(('neg', lit) if rng.random() < 0.12 else lit)
    if rng.random() < 0.15:
        parts.append(rng.choice([('int', rng.randrange(1, 9)), ('lit', Lit(str(rng.randrange(1, 60)), rng.choice([0, 1]), None))]))
    rng.shuffle(parts)
    bal = parts[0]
    for q in parts[1:]:
        bal = ('bin', '+', bal, q)
    if rng.random() < 0.12:
        z = ('lit', Lit(str(rng.randrange(1, 60)), 0, rng.choice(SYMS)))
        bal = ('bin', '+', ('bin', '+', bal, z), ('neg', z))      # a slot that stays behind, exactly zero (or none)
    names = sorted(h[0] for h in held)
    r = rng.random()
    if r < 0.62:
        pick = rng.choice([names[0], names[0], names[-1], rng.choice(names)])
        sym = next(h for h in held if h[0] == pick)
    elif r < 0.77:
        sym = rng.choice([x for x in SYMS if x not in held] or held)
    else:
        sym = None
    comp = rng.choice([q for q in parts if q[0] == 'lit'] or [('lit', Lit('5', 0, None))])[1]
    shape = rng.randrange(5)
    if shape == 0:
        digits, dec = comp.digits, comp.decimals                              # equal to a component
    elif shape == 1:
        digits, dec = str(max(0, int(comp.digits) + rng.choice([-1, 1]))), comp.decimals      # next to it
    elif shape == 2:
        digits, dec = str(rng.randrange(100, 999)), 0                         # above every component
    elif shape == 3:
        digits, dec = '0', 0                                                  # below every positive component
    else:
        digits, dec = str(rng.randrange(1, 60)), rng.choice([0, 1, 2])
    if sym is None and rng.random() < 0.3:
        rhs = ('int', int(digits) if dec == 0 else rng.randrange(0, 60))
    else:
        rhs = ('lit', Lit(digits, dec, sym, braced=rng.random() < 0.2))
    if rng.random() < 0.08:
        rhs = ('neg', rhs)
    op = rng.choice(['<', '>', '<=', '>='])
    return ('bin', op, bal, rhs) if rng.random() < 0.65 else ('bin', op, rhs, bal)


def is_balcmp(t):
    """an ordering one side of which writes two or more commodities (a balance-typed operand)"""
    return t[0] == 'bin' and t[1] in ('<', '>', '<=', '>=') and max(len(comms(t[2]) - {None}), len(comms(t[3]) - {None})) >= 2


def error_free(t):
    """sums, differences and negations of literals never raise an error (two commodities make a balance)"""
    if t[0] in ('lit', 'int'):
        return True
    if t[0] == 'neg':
        return error_free(t[1])
    return t[0] == 'bin' and t[1] in ('+', '-') and error_free(t[2]) and error_free(t[3])


def gen_tree(rng, depth, syms, big):
    if depth == 0 or rng.random() < 0.25:
        r = rng.random()
        if r < 0.15:
            return ('int', rng.choice([0, 1, 2, 3, 6, 7, 10, 100, -3, -7, 12345]))
        t = gen_lit(rng, syms, big)
        if rng.random() < 0.15:
            return ('neg', t)
        return t
    r = rng.random()
    if r < 0.07:
        return ('neg', gen_tree(rng, depth - 1, syms, big))
    if r < 0.12:
        return ('abs', gen_tree(rng, depth - 1, syms, big))
    if r < 0.22 and depth <= 3:
        # mostly each side over ONE commodity (or plain numbers only), so that most comparisons have a value; one in five
        # over all the tree's commodities: a multi-entry balance is walked in commodity order (value_t::is_less_than
        # since /repo 55e6d28), which the model follows (Amount.v bal_lt_scalar) - value or error, both are compared
        if rng.random() < 0.2:
            return ('bin', rng.choice(CMPOPS), gen_tree(rng, depth - 1, syms, big), gen_tree(rng, depth - 1, syms, big))
        ls = [rng.choice(syms + [None])]
        rs = [rng.choice(syms + [None])]
        l = gen_tree(rng, depth - 1, [x for x in ls if x] or syms[:1], big)
        r_ = gen_tree(rng, depth - 1, [x for x in rs if x] or syms[:1], big)
        if len(comms(l)) == 1 and len(comms(r_)) == 1:
            return ('bin', rng.choice(CMPOPS), l, r_)
        return ('bin', '+', l, r_)
    op = rng.choice(['+', '+', '-', '-', '*', '/'])
    return ('bin', op, gen_tree(rng, depth - 1, syms, big), gen_tree(rng, depth - 1, syms, big))


def render(t):
    k = t[0]
    if k == 'lit':
        return t[1].text()
    if k == 'int':
        return 'to_int(%d)' % t[1] if t[1] >= 0 else 'to_int(-%d)' % -t[1]
    if k == 'neg':
        return '(- %s)' % render(t[1])
    if k == 'abs':
        return 'abs(%s)' % render(t[1])
    return '(%s %s %s)' % (render(t[2]), t[1], render(t[3]))


def to_sx(t):
    k = t[0]
    if k == 'lit':
        return t[1].sx()
    if k == 'int':
        return ['int', t[1]]
    if k in ('neg', 'abs'):
        return [k, to_sx(t[1])]
    return ['bin', t[1], to_sx(t[2]), to_sx(t[3])]


def subtrees(t):
    yield t
    if t[0] in ('neg', 'abs'):
        yield from subtrees(t[1])
    elif t[0] == 'bin':
        yield from subtrees(t[2])
        yield from subtrees(t[3])


def size(t):
    return sum(1 for _ in subtrees(t))


def comms(t):
    """commodities written in a subtree (None = a plain number)"""
    k = t[0]
    if k == 'lit':
        return {t[1].sym[0] if t[1].sym else None}
    if k == 'int':
        return {None}
    if k in ('neg', 'abs'):
        return comms(t[1])
    return comms(t[2]) | comms(t[3])


# ---- oracle: per-commodity exact rationals -------------------------------------------------
class Skip(Exception):
    pass


def ostrip(d):
    return {c: q for c, q in d.items() if q != 0}


def oeval(t):
    """-> ('num', {commodity or None: Fraction}) | ('bool', b); raises Skip where the property
    text does not determine the result, ZeroDivisionError for an exact zero divisor."""
    k = t[0]
    if k == 'lit':
        return ('num', ostrip({(t[1].sym[0] if t[1].sym else None): t[1].value}), 'amt')
    if k == 'int':
        return ('num', ostrip({None: F(t[1])}), 'int')
    if k in ('neg', 'abs'):
        v = oeval(t[1])
        if v[0] != 'num':
            raise Skip()
        f = (lambda q: -q) if k == 'neg' else abs
        return ('num', {c: f(q) for c, q in v[1].items()}, v[2])
    op = t[1]
    a, b = oeval(t[2]), oeval(t[3])
    if a[0] != 'num' or b[0] != 'num':
        raise Skip()
    da, db = a[1], b[1]
    if op in ('+', '-'):
        r = dict(da)
        for c, q in db.items():
            r[c] = r.get(c, 0) + (q if op == '+' else -q)
        return ('num', ostrip(r), 'amt' if 'amt' in (a[2], b[2]) else 'int')
    if op in ('*', '/'):
        if a[2] == 'int' and b[2] == 'int':
            raise Skip()              # C long arithmetic (truncating division): not C03's subject
        if len(da) > 1 or len(db) > 1:
            if len(db) <= 1 and (not db or None in db):
                pass                   # balance by a plain number: pointwise
            else:
                raise Skip()
        if len(db) == 0:
            if op == '/':
                raise ZeroDivisionError()
            return ('num', {}, 'amt')
        (cb, qb), = db.items()
        if len(da) == 0:
            return ('num', {}, 'amt')
        if len(da) > 1:
            return ('num', ostrip({c: (q * qb if op == '*' else q / qb) for c, q in da.items()}), 'amt')
        (ca, qa), = da.items()
        if ca is not None and cb is not None and ca != cb:
            raise Skip()
        c = ca if ca is not None else cb
        return ('num', ostrip({c: (qa * qb if op == '*' else qa / qb)}), 'amt')
    # (in)equality where two or more commodities are involved on a side (a balance-typed operand): the exact values decide
    ca_s, cb_s = comms(t[2]), comms(t[3])
    if op in ('==', '!=') and da and db and None not in (ca_s | cb_s) and max(len(ca_s), len(cb_s)) >= 2:
        return ('bool', (da == db) if op == '==' else (da != db))
    # comparisons: only single-commodity, commodity-compatible operands are determined ...
    if len(da) > 1 or len(db) > 1:
        # ... and a multi-commodity balance against a plain number, where every component stands on the same side of it
        flip = {'<': '>', '>': '<', '<=': '>=', '>=': '<='}
        if len(db) > 1 and len(da) <= 1 and op in flip:
            da, db, op = db, da, flip[op]
        if op in flip and len(db) <= 1 and (not db or None in db):
            n = next(iter(db.values()), F(0))
            qs = list(da.values())
            for name, f in (('<', lambda q: q < n), ('>', lambda q: q > n), ('<=', lambda q: q <= n), ('>=', lambda q: q >= n)):
                if all(f(q) for q in qs) and op == name:
                    return ('bool', True)
                if all(f(q) for q in qs) and op == {'<': '>=', '>=': '<', '>': '<=', '<=': '>'}[name]:
                    return ('bool', False)
        raise Skip()
    ca_s, cb_s = comms(t[2]), comms(t[3])
    if len((ca_s | cb_s) - {None}) > 1:
        raise Skip()
    if op in ('==', '!=') and ca_s != cb_s:
        # the written commodities differ; where a commodity has cancelled on a side that involved two or more, the exact
        # values decide (equality "on exact values ... for multi-commodity balances alike")
        raise Skip()
    ca = next(iter(da), None) if da else 'zero'
    cb = next(iter(db), None) if db else 'zero'
    qa = next(iter(da.values()), F(0))
    qb = next(iter(db.values()), F(0))
    if op in ('==', '!='):
        if 'zero' in (ca, cb):
            eq = (qa == qb)
        else:
            eq = (ca == cb and qa == qb)
        if ca != cb and 'zero' not in (ca, cb) and (ca is None or cb is None):
            raise Skip()              # `$5 == 5`: ledger compares commodities too; text is silent
        if 'zero' in (ca, cb) and ca != cb:
            raise Skip()
        return ('bool', eq if op == '==' else not eq)
    if 'zero' not in (ca, cb) and ca != cb and ca is not None and cb is not None:
        raise Skip()
    return ('bool', {'<': qa < qb, '>': qa > qb, '<=': qa <= qb, '>=': qa >= qb}[op])


# ---- parsing results ------------------------------------------------------------------------
def canon_impl(block):
    s = block.strip()
    if s.startswith('CRASH('):
        return 'E:CRASH' + s[5:s.index(')') + 1]
    if 'Error:' in s:
        m = re.search(r'Error: (.*)', s)
        msg = m.group(1) if m else s
        if 'Divide by zero' in msg:
            return 'E:DivZero'
        if 'different commodities' in msg:
            return 'E:DiffComm'
        if msg.startswith('Cannot') or 'multi-commodity' in msg or 'balance' in msg:
            return 'E:BadOp'
        return 'E:Other'
    if s.startswith('B:'):
        parts = sorted(s[2:].split(';')) if s[2:] else []
        return 'B:' + ';'.join(parts)
    return s


def kcanon(r):
    """for the impl/model comparison: which error surfaces first depends on the (unspecified)
    evaluation order of the two operands in C++, so all error classes but a crash are one class"""
    if r.startswith('E:') and not r.startswith('E:CRASH'):
        return 'E'
    return r


def denote(res):
    """result line -> ('num', dict) | ('bool', b) | ('err', name) | None"""
    if res.startswith('E:'):
        return ('err', res[2:])
    if res.startswith('L:'):
        return ('bool', res[2:] == '1')
    if res.startswith('I:'):
        return ('num', ostrip({None: F(int(res[2:]))}))
    if res.startswith('V:'):
        return ('num', {})
    if res.startswith('A:') or res.startswith('B:'):
        d = {}
        body = res[2:] if res.startswith('B:') else res
        for part in (body.split(';') if body else []):
            m = re.fullmatch(r'A:([0-9a-f~]*):(-?\d+)/(\d+):(\d+):([01])', part)
            if not m:
                return None
            sym = bytes.fromhex(m.group(1).split('~')[0]).decode('utf-8', 'replace') if m.group(1) else None
            d[sym] = d.get(sym, 0) + F(int(m.group(2)), int(m.group(3)))
        return ('num', ostrip(d))
    return None


def types_of(res):
    return {'I': 'INTEGER', 'A': 'AMOUNT', 'B': 'BALANCE', 'L': 'BOOLEAN', 'V': 'VOID', 'E': 'ERROR'}.get(res[:1], '?')


# ---- the run --------------------------------------------------------------------------------
def make_journal(ctx, rng, name):
    """A journal that teaches each commodity a display precision; returns (path, pool)."""
    pool = {}
    lines = ['2020/01/01 teach']
    for sym, side in SYMS:
        p = rng.choice([0, 2, 2, 3, 4])
        pool[sym] = p
        lit = Lit('1' + '0' * p, p, (sym, side))
        lines.append('    Assets:T    %s' % lit.text())
    lines.append('    Equity')
    path = ctx.path(name)
    open(path, 'w').write('\n'.join(lines) + '\n')
    return path, pool


def pool_sx(pool):
    return ['pool'] + [[s.encode(), p] for s, p in sorted(pool.items())]


def learn(pool, t):
    """the REPL parses a whole expression before evaluating it; every bare commoditized literal
    raises its commodity's precision (amount.cc:1190-1195) for this and all later commands"""
    for s in subtrees(t):
        if s[0] == 'lit' and s[1].sym and not s[1].braced:
            pool[s[1].sym[0]] = max(pool.get(s[1].sym[0], 0), s[1].decimals)


def eval_batch(ctx, journal, pool, trees, tag):
    """Evaluate trees in one REPL session on ledger and on the model -> (impl results, model
    results).  `pool` is the precision table after reading the journal; it is not modified."""
    cmds = ["eval 'verif_rational(%s)'" % render(t) for t in trees]
    impl = [canon_impl(b) for b in lib.run_repl(journal, cmds)]
    base = dict(pool)
    pool = dict(base)
    lines = []
    for i, t in enumerate(trees):
        learn(pool, t)
        lines.append(lib.sx(['case', '%s%d' % (tag, i), pool_sx(pool), to_sx(t)]))
        if impl[i].startswith('E:CRASH'):
            pool = dict(base)     # the remaining commands ran in a fresh process
    out = lib.run_model('C03', lines)
    model = []
    for i, l in enumerate(out):
        model.append(l.split(' ', 1)[1] if ' ' in l else l)
    return impl, model


def judge(t, impl):
    """Oracle on one implementation result -> None or (symptom, required)."""
    try:
        want = oeval(t)
    except Skip:
        return None
    except ZeroDivisionError:
        if impl.startswith('E:'):
            return None
        return ('zero-divisor-accepted', 'an error')
    got = denote(impl)
    if got is None:
        return ('unreadable-result', str(want[:2]))
    if got[0] == 'err':
        if got[1] in ('BadOp', 'DiffComm'):
            return None      # an operand-type combination ledger does not support: no value is altered
        return ('impl=%s' % got[1], str(want[:2]))
    if got[0] != want[0] or got[1] != want[1]:
        if t[0] == 'bin' and t[1] in ('==', '!=') and cancelled_slot(t):
            return ('wrong-value:cancelled-commodity-slot', str(want[:2]))
        return ('wrong-value', str(want[:2]))
    return None


def cancelled_slot(t):
    """an (in)equality one side of which mentions a commodity that has cancelled exactly (its slot may stay in the balance)"""
    for side in (t[2], t[3]):
        try:
            v = oeval(side)
        except (Skip, ZeroDivisionError):
            continue
        if v[0] == 'num' and len(comms(side) - {None}) > len([c for c in v[1] if c is not None]):
            return True
    return False


def minimal_failure(ctx, journal, pool, t):
    subs = sorted(set(subtrees(t)), key=size)
    impl, _ = eval_batch(ctx, journal, pool, subs, 'm')
    for s, r in zip(subs, impl):
        j = judge(s, r)
        if j:
            # operand types as the implementation sees them
            if s[0] == 'bin':
                oi, _ = eval_batch(ctx, journal, pool, [s[2], s[3]], 'o')
                sig = '%s:%s,%s' % (s[1], types_of(oi[0]), types_of(oi[1]))
            else:
                sig = s[0]
            return s, r, j, sig
    return t, None, ('wrong-value', ''), 'whole'


def run(ctx, n_override=None):
    rng = ctx.rng
    res = lib.Result()
    res.rule = ('random operator trees (depth<=6, + - * / neg abs comparisons, to_int leaves) over decimal literals '
                'of up to 40 digits / 0-20 decimals in 5 commodities or none (orderings of multi-commodity balances against commoditized '
                'amounts included: value or error, compared with the model), plus left-nested sums of 200-3000 posting '
                'amounts through register totals; non-trivial = contains a binary operator and the exact-rational '
                'oracle determines its value; distinct by rendered text')
    n = n_override or ctx.scale(6000, 120000)
    batch = 1500
    done = 0
    bi = 0
    while done < n:
        journal, pool = make_journal(ctx, rng, 'teach%d.dat' % (bi % 4))
        big = (bi % 3 == 2)
        trees = []
        for _ in range(min(batch, n - done)):
            # mostly one or two commodities per tree, so that most trees evaluate to a value
            k = rng.choice([1, 1, 1, 1, 2, 2, 2, 3, 5])
            if rng.random() < 0.06:
                trees.append(gen_directed(rng, rng.sample(SYMS, k)))
                continue
            if rng.random() < 0.03:
                trees.append(gen_balcmp(rng))
                continue
            trees.append(gen_tree(rng, rng.choice([1, 2, 2, 3, 3, 4, 5, 6]), rng.sample(SYMS, k), big))
        impl, model = eval_batch(ctx, journal, pool, trees, 'c')
        for t, ri, rm in zip(trees, impl, model):
            res.evaluations += 1
            res.traces += 1
            txt = render(t)
            res.count('impl:' + types_of(ri))
            j = judge(t, ri)
            try:
                oeval(t)
                determined = True
            except (Skip, ZeroDivisionError):
                determined = False
            if determined and any(s[0] == 'bin' for s in subtrees(t)):
                res.nontrivial.add(txt)
            if len(res.samples) < 4 and size(t) > 4:
                res.samples.append(dict(expr=txt, impl=ri, model=rm))
            if rm.startswith('ORDER-DEPENDENT'):
                # the model's two insertion orders of the balance table give different results: nothing the model
                # computes may depend on that any more (Properties_C03.v balance_comparison_order_free, tree_addsub_order_free)
                res.count('model:order-dependent')
                res.disagreements.append(dict(name='C03/eval-order-dependent-model', case=txt, pool=pool, impl=ri, model=rm))
            elif kcanon(ri) != kcanon(rm):
                res.disagreements.append(dict(name='C03/eval', case=txt, pool=pool, impl=ri, model=rm))
            elif is_balcmp(t) and error_free(t[2]) and error_free(t[3]) and ri != rm:
                # both operands evaluate without error, so the error (if any) is raised by the comparison itself:
                # the error CLASS must agree too ("different commodities" from the walk / "cannot convert" from to_amount)
                res.disagreements.append(dict(name='C03/balance-ordering-error-class', case=txt, pool=pool, impl=ri, model=rm))
            if is_balcmp(t):
                res.count('balance-ordering:%s' % ('error' if ri.startswith('E:') else 'value'))
                if any(c is not None for c in (comms(t[2]) if len(comms(t[2]) - {None}) < 2 else comms(t[3]))):
                    res.count('balance-ordering:against-commoditized:%s' % ('error' if ri.startswith('E:') else 'value'))
            if j:
                s, r, jj, sig = minimal_failure(ctx, journal, pool, t)
                res.violations.append(dict(key='eval:%s:%s' % (sig, jj[0]), desc='%s evaluates to %s, exact arithmetic requires %s' % (render(s), r, jj[1]),
                                           case=dict(expr=render(s), pool=pool, journal=open(journal).read()),
                                           observed=r, required=jj[1]))
        done += len(trees)
        bi += 1
    sums(ctx, rng, res)
    exchange_lists(ctx, rng, res)
    return res


def sums(ctx, rng, res):
    """Report totals over many postings equal the exact sum (register running total)."""
    nj = ctx.scale(3, 20)
    for j in range(nj):
        npost = rng.choice([200, 500, 1000, 3000])
        syms = rng.sample(SYMS, rng.choice([1, 2, 3]))
        lits, lines, pool = [], [], {}
        for i in range(npost):
            l = gen_lit(rng, syms)[1]
            l = Lit(l.digits, l.decimals, l.sym or syms[0], braced=False)
            neg = rng.random() < 0.4
            lits.append((neg, l))
            pool[l.sym[0]] = max(pool.get(l.sym[0], 0), l.decimals)
            amt = ('-' if neg else '') + l.text()
            lines += ['2020/01/%02d p%d' % (1 + i % 28, i), '    Assets:Sum    %s' % amt, '    Equity:Open', '']
        path = ctx.path('sum%d.dat' % j)
        open(path, 'w').write('\n'.join(lines))
        st, out, err = lib.run_ledger(['-f', path, 'reg', '^Assets:Sum', '--format', '%(verif_rational(total))\\n'])
        rows = out.decode().strip().split('\n')
        ri = canon_impl(rows[-1]) if rows and st == 0 else 'E:Other'
        tree = None
        total = {}
        for neg, l in lits:
            leaf = ('lit', l)
            if neg:
                leaf = ('neg', leaf)
            tree = leaf if tree is None else ('bin', '+', tree, leaf)
            total[l.sym[0]] = total.get(l.sym[0], 0) + (-l.value if neg else l.value)
        out_m = lib.run_model('C03', [lib.sx(['case', 's%d' % j, pool_sx(pool), to_sx(tree)])])
        rm = out_m[0].split(' ', 1)[1]
        res.evaluations += 1
        res.traces += 1
        res.count('sum:%d' % npost)
        res.nontrivial.add('sum%d:%d' % (j, npost))
        if ri != rm:
            res.disagreements.append(dict(name='C03/sum', case=path, impl=ri[:300], model=rm[:300]))
        got = denote(ri)
        if got is None or got[0] != 'num' or got[1] != ostrip(total):
            res.violations.append(dict(key='sum:register-total', desc='register total of %d postings is not the exact sum' % npost,
                                       case=dict(journal=open(path).read()[:20000]), observed=ri, required=str(ostrip(total))))


def exchange_lists(ctx, rng, res):
    """Report totals under `-X LIST` (a comma list of target commodities, and a single target): every component of the total
    is either repriced into a target by an exact product with the one price on file, or - being a target itself, or having
    no price - carried over unchanged; nothing is dropped, whatever the other components do."""
    nj = ctx.scale(12, 80)
    for j in range(nj):
        priced = rng.sample(['AAA', 'BTC'], rng.choice([1, 2]))
        prices = {c: F(rng.randrange(1, 99999), 10 ** rng.choice([0, 2, 3])) for c in priced}
        held = ['$', 'EUR'] + priced + rng.sample(['CAD', 'XAU'], rng.choice([0, 1, 1, 2]))
        lines = ['P 2019/12/31 00:00:00 %s $%s' % (c, ('%f' % float(v)).rstrip('0').rstrip('.')) for c, v in prices.items()]
        # the price as ledger reads it: re-parse the decimal text exactly
        prices = {c: F(l.split('$')[1]) for c, l in zip(prices, lines)}
        total = {}
        for i in range(rng.randrange(3, 14)):
            c = rng.choice(held)
            dec = rng.choice([0, 1, 2, 3])
            q = F(rng.randrange(-9999, 9999), 10 ** dec)
            if q == 0:
                continue
            lit = Lit(str(abs(q.numerator * 10 ** dec // q.denominator)), dec, (c, 'pre' if c == '$' else 'suf'))
            lines += ['2020/01/%02d p%d' % (1 + i % 28, i), '    Assets:Sum    %s%s' % ('-' if q < 0 else '', lit.text()) if c != '$' else
                      '    Assets:Sum    %s%s' % ('-' if q < 0 else '', lit.text()), '    Equity:Open', '']
            total[c] = total.get(c, 0) + q
        path = ctx.path('xl%d.dat' % (j % 4))
        open(path, 'w').write('\n'.join(lines) + '\n')
        for targets in (['$', 'EUR'], ['$'], ['EUR', '$']):
            want = {}
            for c, q in total.items():
                if c in targets or c not in prices or '$' not in targets:
                    want[c] = want.get(c, 0) + q
                else:
                    want['$'] = want.get('$', 0) + q * prices[c]
            st, out, err = lib.run_ledger(['-f', path, 'reg', '^Assets:Sum', '-X', ','.join(targets), '--no-rounding', '--format', '%(verif_rational(display_total))\\n'])
            rows = out.decode().strip().split('\n')
            ri = canon_impl(rows[-1]) if rows and rows[-1] and st == 0 else 'E:Other'
            got = denote(ri)
            res.evaluations += 1
            res.count('exchange-list:%d-targets' % len(targets))
            res.nontrivial.add('xl%d:%s:%s' % (j, ','.join(targets), open(path).read()[:200]))
            if got is None or got[0] != 'num' or got[1] != ostrip(want):
                res.violations.append(dict(key='sum:exchange-list:%s' % ('component-dropped' if got and got[0] == 'num' and set(got[1]) < set(ostrip(want)) else 'wrong-total'),
                                           desc='reg -X %s: the final total is %s, the exact repriced sum is %s' % (','.join(targets), ri, ostrip(want)),
                                           case=dict(journal=open(path).read(), targets=targets), observed=ri, required=str(ostrip(want))))


def search(ctx, broken):
    """A theorem or the correspondence no longer checks: widen the exploration (other seeds,
    10x the cases) with the oracle only."""
    import random
    for s in range(5):
        ctx.rng = random.Random('C03-search-%d-%d' % (ctx.seed, s))
        r = run(ctx, n_override=12000)
        if r.violations:
            return r.violations
    return []


def replay(ctx, obj):
    res = lib.Result()
    case = obj.get('case') or {}
    if 'expr' in case:
        path = ctx.path('replay.dat')
        open(path, 'w').write(case.get('journal', ''))
        out = lib.run_repl(path, ["eval 'verif_rational(%s)'" % case['expr']])
        got = canon_impl(out[0])
        print('replay: %s -> %s (required %s)' % (case['expr'], got, obj.get('required')))
        if got == obj.get('observed'):
            res.violations.append(dict(key=obj['key'], desc=obj['desc']))
    return res
