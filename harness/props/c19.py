"""C19 - output is a function of the input alone (claimed PARTIAL).
Observation: every case (journals from the C01/C02/C04/C09 generators, a malformed stream, value
expressions) is run with a rotating command under 6-8 perturbed layouts: address-space randomisation
on/off (setarch -R), MALLOC_PERTURB_, MALLOC_ARENA_MAX, MALLOC_TOP_PAD_, MALLOC_MMAP_THRESHOLD_=0, glibc.malloc.tcache_count,
the environment padded by 0-4 KiB,
different working directories and journal path lengths, always with --now; stdout, stderr (with the
journal path normalised) and the exit status must coincide (xml object ids removed, as documented).
Correspondence: for the transaction journals the first layout's result is also compared with the
extracted finalize model, whose independence from hash-table order is what Properties_C19.v proves."""
import time
import hashlib, importlib, os, re, shutil, subprocess
import lib
from fractions import Fraction as F
import xactlib as X

META = dict(
    id='C19',
    level='proof',
    technique='Coq proof that no observer of the balance/value/finalize model depends on hash-table iteration order (Permutation-invariance) + observation of the binary under perturbed address space, allocator, environment and paths',
    level_text='PARTIAL. Proved (coq/Properties/Properties_C19.v): every function of the model that iterates over a balance (quantities, is_zero, is_realzero, + and -, sorted_amounts and the postings generated for an elided amount, the balance a transaction is judged on, account balances, expression values) gives the same result for every permutation / insertion order of the hash table; the one place where the model used to depend on it (a first posting in a cancelled commodity orienting the implied rate) was repaired in /repo (F65) and is kept as an Example. Observed, not proved: the binary gives byte-identical stdout, stderr and exit status for the same input under address-space randomisation on/off, allocator perturbation, 0-4 KiB of extra environment, other working directories and journal path lengths.',
    level_note='Determinism of the compiled program (uninitialised reads, address-dependent ordering, locale/time dependence) is a fact about the binary: it is sampled by the perturbed runs, never proved. The documented exceptions are removed before comparing: xml `id`/`ref` attributes. Trusted: Coq kernel; the harness.',
    design_ref='DESIGN.md section 7 C19, section 12',
    assumptions=['--now is always given; TZ=UTC, LC_ALL=C; no --download, no python, no pager/colour'],
)

COMMANDS = [
    ['bal'], ['bal', '--flat', '-B'], ['reg'], ['reg', '--sort', 'amount'], ['print'], ['csv'], ['xml'], ['emacs'],
    ['equity'], ['stats'], ['accounts'], ['payees'], ['commodities'], ['prices'], ['reg', '-M'], ['bal', '-X', '$'],
    ['reg', '--subtotal'], ['reg', '--by-payee'], ['cleared'], ['budget'], ['reg', '-p', 'weekly'],
    ['bal', '--time-report'], ['bal', '--time-report', '--flat'], ['reg', '--dow'], ['reg', '--lots'], ['bal', '--lots', '-V'],
    ['reg', '--collapse'], ['reg', '--average'], ['bal', '--depth', '1'], ['print', '--raw'], ['reg', '--wide', '--related-all'],
    ['pricedb'], ['reg', '--deviation'], ['bal', '--percent'], ['reg', '--unround', '-B'], ['bal', '--pivot', 'tag'],
    ['reg', '--collapse', '--depth', '1'], ['reg', '--collapse', '--depth', '2'], ['reg', '-n', '--depth', '1', '-B'],
    ['reg', '--depth', '1'], ['reg', '--by-payee', '--depth', '1'], ['reg', '--subtotal', '--depth', '2'],
]


def layouts(ctx, k):
    """k perturbed ways of running the same command on the same file content"""
    outs = []
    have_setarch = shutil.which('setarch') is not None
    for i in range(k):
        env = {'PADDING_%d' % i: 'x' * (i * 683)}
        if i > 0:
            env['MALLOC_PERTURB_'] = str((37 * i + 1) % 255)     # layout 0 runs with the allocator's default (zeroed fresh pages)
        if i % 3 == 1:
            env['MALLOC_ARENA_MAX'] = '1'
        if i % 3 == 2:
            env['MALLOC_TOP_PAD_'] = str(4096 * i)
        if i % 4 == 3:
            env['MALLOC_MMAP_THRESHOLD_'] = '0'            # every allocation its own mapping: other relative addresses
        if i in (2, 4, 7):
            env['GLIBC_TUNABLES'] = 'glibc.malloc.tcache_count=%d' % (i - 2)
        pre = ['setarch', os.uname().machine, '-R'] if (have_setarch and i % 2 == 1) else []
        sub = 'd%d' % i + ('_' + 'p' * (13 * i) if i % 2 else '')
        outs.append((pre, env, sub))
    return outs


def normalise(data, path, cmd):
    s = data.replace(path.encode(), b'<JOURNAL>')
    if 'xml' in cmd:
        s = re.sub(rb'\b(id|ref)="[0-9a-fA-F]+"', b'\\1="<ID>"', s)
    return s


def run_case(ctx, res, tag, text, cmd, nlay, stdin_cmds=None):
    outs = {}
    first = None
    for li, (pre, env, sub) in enumerate(layouts(ctx, nlay)):
        if tag.startswith('c20') and li == nlay - 1:
            time.sleep(1.3)          # a session left open is closed at --now, not at the moment of the run: let the clock move on
        d = ctx.path(os.path.join('lay', sub))
        os.makedirs(d, exist_ok=True)
        path = os.path.join(d, 'j%s.dat' % ('x' * (li * 7)))
        with open(path, 'wb') as f:
            f.write(text if isinstance(text, bytes) else text.encode('utf-8', 'surrogateescape'))
        argv = pre + [lib.ledger_bin(), '--init-file', '/dev/null', '-f', path, '--now', '2021/06/15'] + cmd
        st = 'timeout'
        for limit in (60, 300):          # a run that exceeds the limit on a loaded machine is repeated once with a longer one
            try:
                p = subprocess.run(argv, cwd=d, env=lib.ledger_env(env), input=stdin_cmds, timeout=limit,
                                   stdout=subprocess.PIPE, stderr=subprocess.PIPE)
                st, so, se = p.returncode, p.stdout, p.stderr
                break
            except subprocess.TimeoutExpired:
                st, so, se = 'timeout', b'', b''
        if st == 'timeout':
            # how long a run takes is not part of its output: a layout that never finished says nothing about determinism
            res.count('layout-timed-out')
            res.notes.append('timed out twice (60 s, 300 s): %s %s layout %d' % (tag, ' '.join(cmd)[:40], li))
            continue
        if pre and st != 'timeout' and b'setarch' in se and st != 0 and li % 2 == 1 and b'Operation not permitted' in se:
            continue                     # setarch not allowed here: layout skipped
        key = (st, hashlib.sha256(normalise(so, path, cmd)).hexdigest(), hashlib.sha256(normalise(se, path, cmd)).hexdigest())
        outs.setdefault(key, []).append(li)
        if first is None:
            first = (st, so, se, path)
        res.evaluations += 1
    res.count('cmd:' + ' '.join(cmd)[:20])
    if len(outs) > 1:
        # show where they differ
        keys = list(outs)
        res.violations.append(dict(key='nondeterministic:%s:%s' % (tag, cmd[0]),
                                   desc='the same input gave %d different results over %d layouts (status/stdout/stderr hashes %s)' % (len(outs), nlay, keys[:2]),
                                   case=dict(journal=text.decode('latin1') if isinstance(text, bytes) else text, cmd=cmd), observed=str(outs)[:500], required='identical output'))
    return first


def decorate(rng, text):
    """posting-level dates and notes on some posting lines (a primary date, an auxiliary date, both), a transaction-level
    auxiliary date, a code and a state mark on some transactions: fields that only some reports (xml, csv, emacs, print) show"""
    out = []
    for l in text.split('\n'):
        if re.match(r'^    \S.*\S  +\S', l) and ';' not in l and rng.random() < 0.3:
            k = rng.randrange(4)
            d1 = '2020/%02d/%02d' % (rng.randrange(1, 13), rng.randrange(1, 29))
            d2 = '2020/%02d/%02d' % (rng.randrange(1, 13), rng.randrange(1, 29))
            l += '  ; ' + ['[%s]' % d1, '[=%s]' % d2, '[%s=%s]' % (d1, d2), 'note :tag%d:' % rng.randrange(3)][k]
        elif re.match(r'^\d{4}/\d\d/\d\d x\d+$', l) and rng.random() < 0.3:
            d, p = l.split(' ')
            l = d + rng.choice(['', '=2020/%02d/%02d' % (rng.randrange(1, 13), rng.randrange(1, 29))]) + rng.choice([' ', ' * ', ' ! ']) + rng.choice(['', '(c%d) ' % rng.randrange(99)]) + p
        out.append(l)
    text = '\n'.join(out)
    # a transaction repeated under the same `; UUID:` tag (ledger keeps one copy if the postings are equivalent), the copy's
    # postings in another order
    blocks = [b for b in text.split('\n\n') if re.match(r'^\d{4}/', b) and b.count('\n') >= 2]
    if blocks and rng.random() < 0.5:
        b = rng.choice(blocks)
        ls = b.split('\n')
        tag = '    ; UUID: u%d' % rng.randrange(10 ** 6)
        orig = '\n'.join([ls[0], tag] + ls[1:])
        posts = [l for l in ls[1:] if l.strip() and not l.strip().startswith(';')]
        if rng.random() < 0.7:
            posts = posts[::-1]
        text = text.replace(b, orig, 1) + '\n\n' + '\n'.join([ls[0], tag] + posts) + '\n'
    return text


def auto_rules(rng):
    """automated transactions whose lines carry notes, `Tag: value` and `:tag:` metadata of every length (1-70 bytes) - under
    the rule's header (applied to the matching posting) and under its lines (applied to the posting made) - and whose
    accounts may be templates (`$account`)"""
    words = ['monthly', 'food', 'budget', 'envelope', 'rent', 'x', 'carry-over', 'q3', 'shared', 'with', 'the', 'household']

    def meta():
        k = rng.random()
        body = ' '.join(rng.choice(words) for _ in range(rng.randrange(1, 9)))[:rng.randrange(1, 70)].strip() or 'x'
        if k < 0.5:
            return '    ; %s: %s' % (rng.choice(['Envelope', 'T0', 'Plan', 'Who']), body)
        if k < 0.7:
            return '    ; :%s:' % ':'.join(rng.sample(['ta', 'tb', 'long-tag-name-here', 'q'], rng.randrange(1, 4)))
        return '    ; ' + body
    out = []
    for _ in range(rng.randrange(1, 4)):
        pat = rng.choice(['/^Expenses/', '/Food/', '/^Assets:Bank/', 'Income'])
        ls = ['= ' + pat]
        for _ in range(rng.randrange(0, 3)):
            ls.append(meta())
        for acct, m in [(rng.choice(['[Budget:$account]', '[Budget:Spent]', '(Track:$account)']), '-1'), ('[Budget:Pool]', '1')][:rng.choice([1, 2, 2])]:
            if acct.startswith('('):
                m = rng.choice(['1', '0.5', '-1'])
            ls.append('    %s    %s' % (acct, m))
            for _ in range(rng.randrange(0, 3)):
                ls.append(meta())
        if '[Budget:Pool]' not in ''.join(ls) and any(l.strip().startswith('[') for l in ls):
            ls.append('    [Budget:Pool]    1')
        out.append('\n'.join(ls))
    return '\n\n'.join(out) + '\n\n'


def gen_lots(rng, vary_lots):
    """3-8 lots of one commodity on one account, told apart by their notes; vary_lots: they differ in lot date and price as
    well - what a report merges them into (--average-lot-prices: the earliest date, the averaged price) must come from
    the lots, not from the order the hash table yields them in"""
    lots = []
    notes = rng.sample(['alpha', 'bravo', 'charlie', 'delta', 'echo', 'foxtrot', 'golf', 'hotel', 'ira', 'taxable'], rng.randrange(3, 9))
    for k_, note in enumerate(notes):
        x_ = X.gen_lot_notes(rng)
        p_ = next(q for q in x_.posts if q.lot is not None)
        p_.acct, p_.lot, p_.lot_date, p_.lot_note = 'Assets:Broker:X', X.Amt(F(10), 2, '$'), '2020/01/05', note
        if vary_lots:
            p_.lot_date = '2019/%02d/%02d' % (rng.randrange(1, 13), rng.randrange(1, 29))
            p_.lot = X.Amt(F(rng.randrange(500, 2000), 100), 2, '$')
            if rng.random() < 0.3:
                p_.lot_note = None
        c_ = next(q for q in x_.posts if q.lot is None)
        c_.amt = X.Amt(-p_.lot.value * p_.amt.value, 2, '$')
        x_.date = '2020/01/%02d' % (6 + k_)
        lots.append(x_)
    return lots


def mutate(rng, text):
    b = bytearray(text.encode('utf-8'))
    for _ in range(rng.randrange(1, 6)):
        k = rng.random()
        if not b:
            break
        pos = rng.randrange(len(b))
        if k < 0.3:
            b[pos] = rng.randrange(256)
        elif k < 0.5:
            del b[pos:pos + rng.randrange(1, 8)]
        elif k < 0.7:
            b[pos:pos] = bytes(rng.choice([b'-', b'--', b'=', b';', b'@', b'(', b'[', b'"', b'\t', b'i 2020/01/01 00:00:00', b'P 2020/01/01 "X']))
        elif k < 0.85:
            b[pos:pos] = b'\n' + bytes(rng.choice([b'-', b'--x', b'~', b'=', b'A', b'Y', b'N $', b'D $1,000.00', b'apply', b'end', b'include', b'o 2020/01/01 00:00:01']))+ b'\n'
        else:
            b[pos:pos] = bytes([b[pos]]) * rng.randrange(1, 40)
    return bytes(b)


def run(ctx, n_override=None):
    rng = ctx.rng
    res = lib.Result()
    res.rule = ('cases: transaction journals from the C01, C02 and C09 generators, amount-style journals from the C04 generator, '
                'byte/line mutations of those (malformed stream), each with one of %d commands, under 6 (quick) / 8 (thorough) layouts '
                '(ASLR on/off, MALLOC_PERTURB_/ARENA_MAX/TOP_PAD_/MMAP_THRESHOLD_, tcache_count, 0-4 KiB extra environment, other cwd and journal path length); '
                'non-trivial = ledger produced output or a located error for it; distinct by (text, command)' % len(COMMANDS))
    n = n_override or ctx.scale(150, 1500)
    nlay = 6 if ctx.tier == 'quick' else 8
    c01 = importlib.import_module('props.c01')
    c02 = importlib.import_module('props.c02')
    c09 = importlib.import_module('props.c09')
    c04 = importlib.import_module('props.c04')
    c20 = importlib.import_module('props.c20')
    shutil.rmtree(ctx.path('lay'), ignore_errors=True)
    for j in range(n):
        r = rng.random()
        xs = None
        if r < 0.3:
            xs = c01.gen_journal(rng)
            text = X.render_journal(xs)
            tag = 'c01'
        elif r < 0.45:
            xs = [c02.gen_null_xact(rng) for _ in range(rng.randrange(2, 8))]
            text = X.render_journal(xs)
            tag = 'c02'
        elif r < 0.6:
            hs = c09.gen_history(rng)[0]     # (xacts, expected, eof)
            text = X.render_journal(hs)
            tag = 'c09'
        elif r < 0.7:
            text = c04.render(c04.gen_journal(rng, rng.randrange(5, 30)))
            tag = 'c04'
        elif r < 0.8:
            # time-clock files (the C20 generator), alone or followed by ordinary transactions
            case = c20.dress(rng, c20.gen_case(rng), plain=True)     # one file, no directives around the clock lines
            files, main_name = c20.render(case)
            text = files[main_name]
            if rng.random() < 0.4:
                text += '\n' + X.render_journal(c01.gen_journal(rng))
            tag = 'c20'
        elif r < 0.86:
            # several lots of one commodity with the same price and lot date, told apart by their notes only: the order the
            # reports list them in must come from the lots, not from where they happen to sit in memory
            lots = gen_lots(rng, rng.random() < 0.5)
            text = X.render_journal(lots)
            tag = 'lots'
        elif r < 0.91:
            # transactions whose balance holds three or more commodity entries, some cancelling exactly, no elided amount and
            # no cost: whether (and how) a conversion rate is implied must not depend on where the commodities sit in memory
            xs_ = []
            for _ in range(rng.randrange(3, 8)):
                x_ = X.gen_implied_rate_with_cancel(rng) if rng.random() < 0.7 else X.gen_implied_rate_with_virtual(rng)
                if rng.random() < 0.4:
                    extra = X.Amt.rand(rng, rng.choice(list(X.COMMS)))
                    x_.posts += [X.Post('Assets:Bank', 'R', extra), X.Post('Liabilities:Card', 'R', extra.neg())]
                    rng.shuffle(x_.posts)
                x_.date = '2020/%02d/%02d' % (rng.randrange(1, 13), rng.randrange(1, 29))
                xs_.append(x_)
            text = X.render_journal(xs_)
            tag = 'rate'
        else:
            base = X.render_journal(c01.gen_journal(rng)) if rng.random() < 0.6 else X.render_journal(c09.gen_history(rng)[0])
            text = mutate(rng, base)
            tag = 'mut'
        if tag in ('c01', 'c02', 'c09') and rng.random() < 0.35:
            text = decorate(rng, text)
            tag += '+dates'
        cmd = list(rng.choice(COMMANDS))
        if tag.endswith('+dates') and rng.random() < 0.5:
            cmd = list(rng.choice([['xml'], ['csv'], ['emacs'], ['print'], ['reg', '--aux-date'], ['xml', '--aux-date'], ['print', '--raw']]))
        if tag == 'rate':
            cmd = list(rng.choice([['bal'], ['reg'], ['bal', '-B'], ['reg', '-B'], ['print'], ['prices'], ['bal', '--lots']]))
        if tag == 'lots':
            cmd = list(rng.choice([['bal', '--lots'], ['reg', '--lots'], ['bal', '--lots', '--flat'], ['bal', '--lot-notes'], ['print'], ['xml'], ['bal', '--lots', '-B'],
                                   ['bal', '--average-lot-prices', '--lot-dates'], ['bal', '--average-lot-prices', '--lots'], ['reg', '--average-lot-prices', '--lot-dates'],
                                   ['bal', '--average-lot-prices', '--lot-dates', '--flat'], ['bal', '--lot-dates'], ['bal', '--lot-prices']]))
        if tag == 'c20' and rng.random() < 0.5:
            cmd = list(rng.choice([['bal', '--time-report'], ['bal', '--time-report', '--flat'], ['reg'], ['bal', '--day-break'],
                                   ['bal', '--base'], ['reg', '--base'], ['print', '--base'], ['reg', '--base', '--day-break']]))
        first = run_case(ctx, res, tag, text, cmd, nlay)
        res.count('kind:' + tag)
        if first and (first[1] or first[2]):
            res.nontrivial.add(hashlib.sha256((text if isinstance(text, bytes) else text.encode('utf-8', 'surrogateescape')) + ' '.join(cmd).encode()).hexdigest())
        if len(res.samples) < 4 and first:
            res.samples.append(dict(kind=tag, cmd=cmd, status=first[0], stdout=first[1][:120].decode('latin1'), stderr=first[2][:120].decode('latin1')))
        # the model where one exists: the finalize model on the untouched transaction journals
        if xs is not None and j % 3 == 0:
            X.compare_journal(ctx, res, 'C19', j, xs, None)
    # directed: every kind of optional field (posting dates of each form, notes, tags, codes, states, repeated UUIDs) under the
    # writers that show them - an optional that is read although empty shows as a difference between the unperturbed run and
    # the MALLOC_PERTURB_ ones
    for k_ in range(ctx.scale(12, 60)):
        base = X.render_journal(c02.gen_null_xact(rng) and [c02.gen_null_xact(rng) for _ in range(rng.randrange(3, 9))])
        text = decorate(rng, decorate(rng, base))
        cmd = list(rng.choice([['xml'], ['xml', '--aux-date'], ['csv'], ['emacs'], ['print'], ['reg', '--aux-date'], ['xml', '--lots']]))
        first = run_case(ctx, res, 'fields', text, cmd, nlay)
        res.count('kind:fields')
        if first and (first[1] or first[2]):
            res.nontrivial.add(hashlib.sha256(text.encode('utf-8', 'surrogateescape') + ' '.join(cmd).encode()).hexdigest())
    # directed: automated transactions with metadata of every length on their header and lines, template accounts; the
    # reports that show notes and tags
    for k_ in range(ctx.scale(14, 80)):
        text = auto_rules(rng) + X.render_journal([X.gen_balanced(rng, with_costs=False) for _ in range(rng.randrange(2, 7))])
        cmd = list(rng.choice([['xml'], ['print'], ['csv'], ['emacs'], ['reg', 'Budget', 'Track'], ['bal', '--pivot', 'Envelope'], ['bal', '%ta'],
                               ['reg', '--format', '%(date) %(account) %(amount) [%(note)] <%(tag("Envelope"))> <%(tag("T0"))>\n'],
                               ['reg', '%Envelope', '--format', '%(account)|%(note)\n'], ['tags'], ['tags', '--values']]))
        first = run_case(ctx, res, 'auto-notes', text, cmd, nlay)
        res.count('kind:auto-notes')
        if first and (first[1] or first[2]):
            res.nontrivial.add(hashlib.sha256(text.encode('utf-8', 'surrogateescape') + ' '.join(cmd).encode()).hexdigest())
    # directed: dated lots at different prices under the reports that merge them
    for k_ in range(ctx.scale(10, 60)):
        text = X.render_journal(gen_lots(rng, True) + (gen_lots(rng, True) if rng.random() < 0.5 else []))
        cmd = list(rng.choice([['bal', '--average-lot-prices', '--lot-dates'], ['bal', '--average-lot-prices', '--lots'],
                               ['reg', '--average-lot-prices', '--lot-dates'], ['bal', '--average-lot-prices', '--lot-dates', '--flat'],
                               ['bal', '--average-lot-prices'], ['bal', '--lot-dates'], ['bal', '--lots', '-B']]))
        first = run_case(ctx, res, 'lot-merge', text, cmd, nlay)
        res.count('kind:lot-merge')
        if first and (first[1] or first[2]):
            res.nontrivial.add(hashlib.sha256(text.encode('utf-8', 'surrogateescape') + ' '.join(cmd).encode()).hexdigest())
    # directed (the two sites that DID depend on the table order - findings F190 / F191, repaired in /repo 55e6d28 / 195dbe5): a
    # balance of 2-6 commodities compared with a commoditized amount (value.cc is_less_than: the entry met first decided
    # between `false` and the error naming the other commodity; the walk is in commodity order now), and top_amount of such
    # a balance (report.cc: amounts.begin() before, the first amount in commodity order now).  Oracle: one input, one result
    # over the layouts.  Correspondence: the first layout's result against the extracted model (Amount.v v_ltb / top_amount
    # through the C03 driver), value or error class.
    c03 = importlib.import_module('props.c03')
    syms = ['EUR', 'USD', 'GBP', 'CHF', 'AAA', 'Q', 'XAU', 'BTC', 'JPY']
    directed = []
    for k_ in range(ctx.scale(10, 60)):
        cs = rng.sample(syms, rng.randrange(2, 7))
        lits = [('lit', c03.Lit(str(rng.randrange(1, 9)), 0, (c, 'suf'))) for c in cs]
        bal = lits[0]
        for l in lits[1:]:
            bal = ('bin', '+', bal, l)
        if k_ % 2 == 0:
            rhs = ('lit', c03.Lit(str(rng.randrange(1, 9)), 0, (rng.choice([min(cs), max(cs), rng.choice(cs)]), 'suf')))
            op = rng.choice(['<', '>', '<=', '>='])
            tree = ('bin', op, bal, rhs) if rng.random() < 0.7 else ('bin', op, rhs, bal)
            expr, tag_ = c03.render(tree), 'bal-cmp-commoditized'
        else:
            tree = bal
            expr, tag_ = 'top_amount(%s)' % c03.render(bal), 'top-amount-of-balance'
        first = run_case(ctx, res, tag_, '', ['eval', expr], nlay)
        res.count('kind:' + tag_)
        if first and (first[1] or first[2]):
            res.nontrivial.add(hashlib.sha256(expr.encode()).hexdigest())
        if first:
            directed.append((tag_, expr, tree, first))
    if directed:
        pool = c03.pool_sx({c: 0 for c in syms})
        out = lib.run_model('C03', [lib.sx(['top' if tag_.startswith('top') else 'case', 'd%d' % i, pool, c03.to_sx(tree)])
                                    for i, (tag_, expr, tree, first) in enumerate(directed)])
        for (tag_, expr, tree, first), line in zip(directed, out):
            rm = line.split(' ', 1)[1] if ' ' in line else line
            st, so, se = first[0], first[1].decode('utf-8', 'replace').strip(), first[2].decode('utf-8', 'replace')
            if 'Error:' in se:
                ri = 'E:DiffComm' if 'different commodities' in se else ('E:BadOp' if re.search(r'Error: Cannot', se) else 'E:Other')
            elif tag_.startswith('top'):
                m = re.fullmatch(r'(-?\d+) (\w+)', so)
                ri = 'A:%s:%s/1' % (m.group(2).encode().hex(), m.group(1)) if m else 'unreadable:' + so[:60]
                rm = ':'.join(rm.split(':')[:3])            # commodity and quantity; precision and keep flag are not printed
            else:
                ri = {'true': 'L:1', 'false': 'L:0', '1': 'L:1', '0': 'L:0'}.get(so, 'unreadable:' + so[:60])      # eval prints a boolean as 1 / 0
            res.traces += 1
            res.count('model:%s:%s' % (tag_, 'error' if ri.startswith('E:') else 'value'))
            if ri != rm:
                res.disagreements.append(dict(name='C19/' + tag_, case=expr, impl=ri, model=rm))
    # value expressions through the REPL under the same layouts
    trees = [c03.gen_tree(rng, rng.choice([2, 3, 4]), rng.sample(c03.SYMS, 2), False) for _ in range(40)]
    cmds = ''.join("eval '%s'\n" % c03.render(t) for t in trees).encode()
    run_case(ctx, res, 'repl', X.render_journal(c01.gen_journal(rng)), [], nlay, stdin_cmds=cmds)
    return res


def search(ctx, broken):
    import random
    for s in range(2):
        ctx.rng = random.Random('C19-search-%d-%d' % (ctx.seed, s))
        r = run(ctx, n_override=200)
        if r.violations:
            return r.violations
    return []


def replay(ctx, obj):
    res = lib.Result()
    case = obj.get('case') or {}
    if 'journal' in case:
        run_case(ctx, res, 'replay', case['journal'].encode('latin1'), case.get('cmd', ['bal']), 8)
        for v in res.violations:
            print(v['desc'])
    return res
