"""C15 - value expressions evaluate as written and survive printing.
Correspondence: generated expressions (bounded-exhaustive small operator trees, random deep trees with
let-bindings, lambdas and function definitions, every operator spelling, redundant parentheses, white
space variations, a malformed stream, tokenizer-directed texts) go as TEXT to ledger (REPL `parse`,
`eval verif_rational(..)`, and `eval` of the text ledger printed) and as the SAME TEXT to the extracted Coq model,
which tokenizes it itself (Model/ExprLex.v: lex_prefix, parse_text; Model/Expr.v: parse, print, compile, calc).  Compared: the printed tree text, the value, the value of
the re-parsed printed text.
Oracle: a reference evaluator over the abstract syntax with Fractions, written from the documented
grammar (precedence by construction of the tree, short-circuit and/or, one-branch ?:, lexical
scoping); a reference fully-parenthesised printer for the tree shape; print -> re-parse must keep the
value."""
import re
from fractions import Fraction as F
import lib
from props import c03
from props.c03 import Lit, SYMS

META = dict(
    id='C15',
    level='proof',
    technique='Coq proof (recursive-descent parser model vs the precedence grammar; calc/compile/print model) + differential correspondence of the extracted model against ledger + reference evaluator',
    level_text='Theorems in coq/Properties/Properties_C15.v state, for all expressions of the operator grammar, that the model of parser.cc parses the minimally parenthesised text (and any more heavily parenthesised one) of an abstract expression to exactly its tree (precedence unary > * / > + - > comparisons > & > | > ?:, left associativity, parentheses override), that op_t::print output parses back to the same tree, conditionals included, that the tokenizer model reads every operator spelling, word operator and boolean back from its text whatever the number of blanks between tokens and skips white space in front of any token, that & | ?: evaluate only the operands the grammar says, that compiled identifiers keep the meaning they had at definition - in particular that a reference to a user-defined function is bound where it is written, whatever is defined later and whatever parameters its callers have (over the identifier-resolution lines of op.cc re-read on every run) -, and that constant folding and compilation preserve values. The model is tied to the code by running thousands of generated expressions through freshly built ledger (text as parsed, exact values through verif_rational, re-parse of the printed text) and through the extracted model.',
    level_note='Trusted: Coq kernel; extraction + OCaml driver and python harness for the correspondence; the tokenizer is modelled (Model/ExprLex.v) and the model is given the expression text; its round trip is proved for the fixed-spelling tokens only (identifiers and literals: computed examples + correspondence); value arithmetic is Model/Amount.v (C03). Not modelled: strings, dates, regex masks, member lookup (each a lexing failure in the model), sequences as values, per-SCOPE symbol tables (use-before-definition inside a body).',
    design_ref='DESIGN.md section 7 C15, section 9 F1, F35-F37, F216 (F6 and F34 repaired)',
    assumptions=['expressions avoid built-in function names, the predefined time commodities s/m/h and reserved words as identifiers',
                 'INTEGER values stay within C long',
                 'identifiers are defined before use; every binder name in an expression is distinct (except in the directed scoping cases)',
                 'in the REPL `!` is written `! ` or `!=` (libedit history expansion) and a comma is followed by a space'],
)

BIN = ['*', '/', '+', '-', '==', '!=', '<', '<=', '>', '>=', '&', '|']
PREC = {'*': 9, '/': 9, '+': 8, '-': 8, '==': 7, '!=': 7, '<': 7, '<=': 7, '>': 7, '>=': 7, '&': 6, '|': 5}
SX = {'*': 'st', '/': 'sl', '+': 'pl', '-': 'mi', '==': 'eq', '!=': 'ne', '<': 'lt', '<=': 'le', '>': 'gt', '>=': 'ge',
      '&': 'an', '|': 'or'}
SPELL = {'&': ['&', '&&', 'and'], '|': ['|', '||', 'or'], '/': ['/', '/', 'div']}
L_SEQ, L_ASSIGN, L_LAMBDA, L_COMMA, L_TERN, L_OR, L_UNARY, L_POST, L_ATOM = 0, 1, 2, 3, 4, 5, 10, 11, 12


def enc(i):
    s = ''
    i += 1
    while i:
        i, r = divmod(i - 1, 26)
        s = chr(97 + r) + s
    return s


# ---- tokens ------------------------------------------------------------------------------------
class Tk:
    __slots__ = ('sx', 'text', 'cls')

    def __init__(self, sx, text, cls):
        self.sx, self.text, self.cls = sx, text, cls   # cls: 'w' word-like, 'p' punctuation, 'l' literal


def tk_op(rng, op):
    t = rng.choice(SPELL[op]) if op in SPELL else op
    sx = SX[op]
    if t == 'div':
        sx = 'dv'
    return Tk(sx, t, 'w' if t.isalpha() else 'p')


def tk_lit(l):
    return Tk(l.sx(), l.text(), 'l')


LP = lambda: Tk('lp', '(', 'p')
RP = lambda: Tk('rp', ')', 'p')


def tk_id(name):
    return Tk(['id', name.encode()], name, 'w')


def prec_of(e):
    k = e[0]
    if k in ('lit', 'bool', 'id'):
        return L_ATOM
    if k in ('int', 'call', 'abs'):
        return L_POST
    if k in ('neg', 'not'):
        return L_UNARY
    if k == 'bin':
        return PREC[e[1]]
    if k in ('tern', 'ifonly'):
        return L_TERN
    if k == 'lam':
        return L_LAMBDA
    if k == 'seq':
        return L_SEQ
    raise ValueError(k)


def toks(rng, e, lvl, extra=0.0):
    """token list of e where a sub-expression of level >= lvl is expected; parentheses only where the
    documented precedence needs them, plus redundant ones with probability `extra`"""
    if prec_of(e) < lvl or (extra and rng.random() < extra):
        return [LP()] + toks(rng, e, L_SEQ, extra) + [RP()]
    k = e[0]
    if k == 'lit':
        return [tk_lit(e[1])]
    if k == 'bool':
        return [Tk(['b', e[1]], 'true' if e[1] else 'false', 'w')]
    if k == 'id':
        return [tk_id(e[1])]
    if k == 'int':
        n = e[1]
        inner = [tk_lit(Lit(str(abs(n)), 0, None))]
        if n < 0:
            inner = [Tk('mi', '-', 'p')] + inner
        return [tk_id('to_int'), LP()] + inner + [RP()]
    if k == 'abs':
        return [tk_id('abs'), LP()] + toks(rng, e[1], L_TERN, extra) + [RP()]
    if k == 'neg':
        return [Tk('mi', '-', 'p')] + toks(rng, e[1], L_POST, extra)
    if k == 'not':
        t = rng.choice(['!', 'not'])
        return [Tk('ex', t, 'w' if t == 'not' else 'p')] + toks(rng, e[1], L_POST, extra)
    if k == 'bin':
        p = PREC[e[1]]
        return toks(rng, e[2], p, extra) + [tk_op(rng, e[1])] + toks(rng, e[3], p + 1, extra)
    if k == 'tern':
        c, a, b = e[1], e[2], e[3]
        if e[4] == 'if':
            return (toks(rng, a, L_OR, extra) + [Tk('if', 'if', 'w')] + toks(rng, c, L_OR, extra)
                    + [Tk('el', 'else', 'w')] + toks(rng, b, L_OR, extra))
        return (toks(rng, c, L_OR, extra) + [Tk('qu', '?', 'p')] + toks(rng, a, L_OR, extra)
                + [Tk('co', ':', 'p')] + toks(rng, b, L_OR, extra))
    if k == 'ifonly':
        return toks(rng, e[2], L_OR, extra) + [Tk('if', 'if', 'w')] + toks(rng, e[1], L_OR, extra)
    if k == 'call':
        out = toks(rng, e[1], L_ATOM, extra) + [LP()]
        for i, a in enumerate(e[2]):
            if i:
                out.append(Tk('cm', ',', 'p'))
            out += toks(rng, a, L_TERN, extra)
        return out + [RP()]
    if k == 'lam':
        out = []
        for i, p in enumerate(e[1]):
            if i:
                out.append(Tk('cm', ',', 'p'))
            out.append(tk_id(p))
        return out + [Tk('ar', '->', 'p')] + toks(rng, e[2], L_TERN, extra)
    if k == 'seq':
        out = []
        for s in e[1]:
            out += stmt_toks(rng, s, extra)
            out.append(Tk('se', ';', 'p'))
        return out + toks(rng, e[2], L_ASSIGN, extra)
    raise ValueError(k)


def stmt_toks(rng, s, extra=0.0):
    """one statement of a sequence: `x = e`, `f(a, b) = e` or an expression"""
    if s[0] == 'def':
        return [tk_id(s[1]), Tk('as', '=', 'p')] + toks(rng, s[2], L_LAMBDA, extra)
    if s[0] == 'deffun':
        out = [tk_id(s[1]), LP()]
        for i, p in enumerate(s[2]):
            if i:
                out.append(Tk('cm', ',', 'p'))
            out.append(tk_id(p))
        return out + [RP(), Tk('as', '=', 'p')] + toks(rng, s[3], L_LAMBDA, extra)
    return toks(rng, s, L_ASSIGN, extra)


def spell(rng, tl, tight=0.3):
    """text of a token list.  White space is dropped only where ledger's tokenizer is known to split
    the same way: never between two word-like tokens, `!` keeps a following blank (libedit history
    expansion), a comma keeps a following blank (`2,1` is one number), and a `-` after an identifier is
    surrounded by blanks (`x -3` is the amount 3 of commodity x)."""
    out = []
    for i, t in enumerate(tl):
        out.append(t.text)
        if i + 1 == len(tl):
            break
        n = tl[i + 1]
        need = False
        if t.cls != 'p' and n.cls != 'p':
            need = True
        elif t.text == '!':
            need = True
        elif t.text == ',':
            need = True
        elif n.text == '-' and t.cls == 'w':
            need = True
        elif t.text == '-' and i > 0 and tl[i - 1].cls == 'w':
            need = True
        elif t.text in ('<', '>', '=', '!', '-', '&', '|') and n.text[:1] in ('=', '>', '&', '|', '~'):
            need = True
        elif t.text == '-' and n.text == '-':
            need = rng.random() < 0.5
        if need:
            out.append(' ' if rng.random() < 0.85 else '  ')
        elif rng.random() >= tight:
            out.append(' ')
    return ''.join(out)


# ---- reference printer (tree shape by the documented grammar) ------------------------------------
def canon_amt(q, sym):
    return '<%s/%s %s>' % (q.numerator, q.denominator, sym or '')


def oprint(e):
    k = e[0]
    if k == 'lit':
        return canon_amt(e[1].value, e[1].sym[0] if e[1].sym else None)
    if k == 'bool':
        return 'true' if e[1] else 'false'
    if k == 'id':
        return e[1]
    if k == 'int':
        return 'to_int(%s)' % canon_amt(F(e[1]), None)
    if k == 'abs':
        a = oprint(e[1])
        return None if a is None else 'abs(%s)' % a
    if k in ('neg', 'not'):
        inner = e[1]
        if inner[0] == 'lit':          # the parser folds a sign or a negation into a literal
            if k == 'neg':
                return canon_amt(-inner[1].value, inner[1].sym[0] if inner[1].sym else None)
            return 'true' if inner[1].value == 0 else 'false'
        if inner[0] == 'bool':
            return 'true' if not inner[1] else 'false'
        if inner[0] in ('neg', 'not') and inner[1][0] in ('lit', 'bool'):
            return None               # folds twice; compared through the model only
        a = oprint(inner)
        return None if a is None else '(%s %s)' % ('-' if k == 'neg' else '!', a)
    if k == 'bin':
        a, b = oprint(e[2]), oprint(e[3])
        if a is None or b is None:
            return None
        if e[1] == '!=':
            return '(! (%s == %s))' % (a, b)
        return '(%s %s %s)' % (a, e[1], b)
    if k == 'tern':
        c, a, b = oprint(e[1]), oprint(e[2]), oprint(e[3])
        if None in (c, a, b):
            return None
        return '(%s ? %s : %s)' % (c, a, b)
    if k == 'ifonly':
        c, a = oprint(e[1]), oprint(e[2])
        if None in (c, a):
            return None
        return '(%s ? %s : null)' % (c, a)
    if k == 'call':
        f = oprint(e[1])
        args = [oprint(a) for a in e[2]]
        if f is None or None in args:
            return None
        return '%s(%s)' % (f, ', '.join(args))
    if k == 'lam':
        b = oprint(e[2])
        if b is None:
            return None
        ps = e[1][0] if len(e[1]) == 1 else '(%s)' % ', '.join(e[1])
        return '(%s -> %s)' % (ps, b)
    if k == 'seq':
        parts = []
        stmts, body = list(e[1]), e[2]
        while body[0] == 'seq':            # a; (b; c) and a; b; c are the same chain
            stmts += list(body[1])
            body = body[2]
        e = ('seq', stmts, body)
        for s in e[1]:
            if s[0] == 'def':
                b = oprint(s[2])
                parts.append(None if b is None else '%s = %s' % (s[1], b))
            elif s[0] == 'deffun':
                b = oprint(s[3])
                parts.append(None if b is None else '%s(%s) = %s' % (s[1], ', '.join(s[2]), b))
            else:
                parts.append(oprint(s))
        parts.append(oprint(e[2]))
        if None in parts:
            return None
        return '(%s)' % '; '.join(parts)
    raise ValueError(k)


AMT_RE = re.compile(r'\{([^}]*)\}')


def canon_text(text):
    """ledger's printed text with every {amount} replaced by its exact value"""
    def amt(m):
        s = m.group(1).strip()
        sym = None
        mm = re.fullmatch(r'(\$)?\s*(-?[0-9.]+)\s*([A-Za-z]+)?', s)
        if not mm:
            return '{?%s}' % s
        sym = mm.group(1) or mm.group(3)
        return canon_amt(F(mm.group(2)), sym)
    return AMT_RE.sub(amt, text)


# ---- reference evaluator -------------------------------------------------------------------------
class Skip(Exception):
    pass


class WantError(Exception):
    pass


def ostrip(d):
    return {c: q for c, q in d.items() if q != 0}


def num(d, tag, comms):
    return ('num', ostrip(d), tag, frozenset(comms))


def truth(v, cells):
    if v[0] == 'bool':
        return v[1]
    if v[0] == 'null':
        return False
    if v[0] == 'fun':
        return True
    d = v[1]
    for c, q in d.items():
        if c is not None and abs(q) < 1:
            cells.add('small-truth')
            raise Skip()     # truth of a commoditized amount is decided at display precision
    return bool(d)


def arith(op, a, b, cells):
    if a[0] != 'num' or b[0] != 'num':
        raise Skip()
    da, db = a[1], b[1]
    cells.add((op, a[2], b[2]))
    if op == '/' and not da:
        cells.add(('/', 'int', 'amt'))      # a zero difference is an INTEGER 0 in ledger's lattice
    if op in ('+', '-'):
        r = dict(da)
        for c, q in db.items():
            r[c] = r.get(c, 0) + (q if op == '+' else -q)
        return num(r, 'amt' if 'amt' in (a[2], b[2]) else 'int', a[3] | b[3])
    if op in ('*', '/'):
        if a[2] == 'int' and b[2] == 'int':
            if op == '*':
                return num({None: da.get(None, 0) * db.get(None, 0)}, 'int', a[3] | b[3])
            if not db:
                raise WantError()
            raise Skip()          # C long division
        if len(da) > 1 or len(db) > 1:
            if not (len(db) <= 1 and (not db or None in db)):
                raise Skip()
        if len(db) == 0:
            if op == '/':
                raise WantError()
            return num({}, 'amt', a[3] | b[3])
        (cb, qb), = db.items()
        if len(da) == 0:
            return num({}, 'amt', a[3] | b[3])
        if len(da) > 1:
            return num({c: (q * qb if op == '*' else q / qb) for c, q in da.items()}, 'amt', a[3] | b[3])
        (ca, qa), = da.items()
        if ca is not None and cb is not None and ca != cb:
            raise Skip()
        c = ca if ca is not None else cb
        return num({c: (qa * qb if op == '*' else qa / qb)}, 'amt', a[3] | b[3])
    # comparisons
    if len(da) > 1 or len(db) > 1:
        raise Skip()
    if (not da and len(a[3]) > 1) or (not db and len(b[3]) > 1):
        raise Skip()      # a zero made from several commodities is an empty balance, which ledger orders with nothing
    if len((a[3] | b[3]) - {None}) > 1:
        raise Skip()
    if op in ('==', '!=') and a[3] != b[3]:
        raise Skip()
    ca = next(iter(da), None) if da else 'zero'
    cb = next(iter(db), None) if db else 'zero'
    qa = next(iter(da.values()), F(0))
    qb = next(iter(db.values()), F(0))
    if op in ('==', '!='):
        if 'zero' in (ca, cb):
            eq = (qa == qb)
        else:
            eq = (ca == cb and qa == qb)
        if ca != cb and 'zero' not in (ca, cb) and (ca is None or cb is None):
            raise Skip()
        if 'zero' in (ca, cb) and ca != cb:
            raise Skip()
        return ('bool', eq if op == '==' else not eq)
    if 'zero' not in (ca, cb) and ca != cb and ca is not None and cb is not None:
        raise Skip()
    return ('bool', {'<': qa < qb, '>': qa > qb, '<=': qa <= qb, '>=': qa >= qb}[op])


def oeval(e, env, cells, depth=0):
    if depth > 200:
        raise Skip()
    k = e[0]
    if k == 'lit':
        s = e[1].sym[0] if e[1].sym else None
        return num({s: e[1].value}, 'amt', {s})
    if k == 'bool':
        return ('bool', e[1])
    if k == 'int':
        return num({None: F(e[1])}, 'int', {None})
    if k == 'id':
        if e[1] not in env:
            raise WantError()
        b = env[e[1]]
        if b[0] == 'thunk':
            return oeval(b[1], b[2], cells, depth + 1)
        return b[1]
    if k == 'abs':
        v = oeval(e[1], env, cells, depth + 1)
        if v[0] != 'num':
            raise Skip()
        return num({c: abs(q) for c, q in v[1].items()}, v[2], v[3])
    if k == 'neg':
        v = oeval(e[1], env, cells, depth + 1)
        if v[0] != 'num':
            raise Skip()
        return num({c: -q for c, q in v[1].items()}, v[2], v[3])
    if k == 'not':
        v = oeval(e[1], env, cells, depth + 1)
        return ('bool', not truth(v, cells))
    if k == 'bin':
        op = e[1]
        if op == '&':
            a = oeval(e[2], env, cells, depth + 1)
            if not truth(a, cells):
                return ('bool', False)
            return oeval(e[3], env, cells, depth + 1)
        if op == '|':
            a = oeval(e[2], env, cells, depth + 1)
            if truth(a, cells):
                return a
            return oeval(e[3], env, cells, depth + 1)
        # both operands are evaluated; which failure surfaces first is unspecified
        fail = None
        vals = []
        for x in (e[2], e[3]):
            try:
                vals.append(oeval(x, env, cells, depth + 1))
            except (Skip, WantError) as ex:
                fail = fail if isinstance(fail, Skip) else ex
                vals.append(None)
        if fail is not None:
            raise fail
        return arith(op, vals[0], vals[1], cells)
    if k == 'tern':
        c = oeval(e[1], env, cells, depth + 1)
        return oeval(e[2] if truth(c, cells) else e[3], env, cells, depth + 1)
    if k == 'ifonly':
        c = oeval(e[1], env, cells, depth + 1)
        return oeval(e[2], env, cells, depth + 1) if truth(c, cells) else ('null',)
    if k == 'lam':
        return ('fun', e[1], e[2], env)
    if k == 'call':
        f = oeval(e[1], env, cells, depth + 1)
        if f[0] != 'fun':
            raise WantError()
        params, body, fenv = f[1], f[2], f[3]
        args = [oeval(a, env, cells, depth + 1) for a in e[2][:len(params)]]
        if len(e[2]) > len(params):
            raise WantError()
        nenv = dict(fenv)
        for i, p in enumerate(params):
            nenv[p] = ('val', args[i] if i < len(args) else ('null',))
        return oeval(body, nenv, cells, depth + 1)
    if k == 'seq':
        env = dict(env)
        for s in e[1]:
            if s[0] == 'def':
                env[s[1]] = ('thunk', s[2], dict(env))
            elif s[0] == 'deffun':
                env[s[1]] = ('val', ('fun', s[2], s[3], dict(env)))
            else:
                oeval(s, env, cells, depth + 1)
        return oeval(e[2], env, cells, depth + 1)
    raise ValueError(k)


# ---- generators ----------------------------------------------------------------------------------
def leaf_alphabet():
    d = ('$', 'pre')
    e = ('EUR', 'suf')
    return [('int', 2), ('int', -3), ('lit', Lit('3', 0, None)), ('lit', Lit('150', 2, None)),
            ('lit', Lit('200', 2, d)), ('lit', Lit('50', 2, d, braced=True)), ('lit', Lit('3', 0, e)),
            ('bool', True), ('bool', False), ('lit', Lit('0', 0, None))]


def small_trees(leaves, depth, ops=BIN, unary=True, tern=True):
    """all trees of exactly the given depth bound (depth 1 = leaves)"""
    if depth == 1:
        return list(leaves)
    sub = small_trees(leaves, depth - 1, ops, unary, tern)
    out = list(sub)
    if unary:
        for s in sub:
            out.append(('neg', s))
            out.append(('not', s))
    for op in ops:
        for a in sub:
            for b in sub:
                out.append(('bin', op, a, b))
    if tern:
        base = small_trees(leaves, 1)
        for c in sub:
            for a in base:
                for b in base:
                    out.append(('tern', c, a, b, '?'))
    return out


def gen_lit(rng, syms):
    """a decimal literal, bare or braced, of up to 6 digits and 4 decimals, in one of `syms` or
    without commodity; written without thousands marks (a commodity that has seen a mark prints with
    marks from then on - amount text is C04's subject, and `f(2,1)` would be one number)"""
    nd = rng.choice([1, 1, 2, 3, 4, 6])
    dec = rng.choice([0, 0, 1, 2, 2, 3, 4])
    digits = str(rng.randrange(1, 10)) + ''.join(rng.choice('0123456789') for _ in range(nd - 1))
    if rng.random() < 0.03:
        digits = '0'
    sym = rng.choice(syms) if rng.random() < 0.6 else None
    return ('lit', Lit(digits, dec, sym, braced=rng.random() < 0.25))


def gen_leaf(rng, syms, scope, want):
    """scope: [(name, type)]"""
    cands = [n for n, t in scope if t == want or rng.random() < 0.05]
    r = rng.random()
    if cands and r < 0.4:
        return ('id', rng.choice(cands))
    if want == 'bool' and rng.random() < 0.9:
        return ('bool', rng.random() < 0.5)
    if r < 0.5:
        return ('int', rng.choice([0, 1, 2, 3, 6, 7, 10, -3, -7, 100]))
    return gen_lit(rng, syms)


class Names:
    def __init__(self, tag):
        self.tag, self.n = tag, 0

    def fresh(self, role):
        self.n += 1
        return 'zq' + role + self.tag + enc(self.n)


def gen_tree(rng, depth, syms, scope, funs, names, want='num'):
    """scope: [(variable, type)] usable here; funs: [(name, [param types], result type)] callable here.
    Mostly well-typed (numbers under arithmetic and comparisons, booleans under & | ! ?:), with a
    small share of deliberate mixtures."""
    if rng.random() < 0.04:
        want = 'bool' if want == 'num' else 'num'
    if depth <= 0 or rng.random() < 0.15:
        return gen_leaf(rng, syms, scope, want)
    r = rng.random()
    sub = lambda w=want, d=1: gen_tree(rng, depth - d, syms, scope, funs, names, w)
    fs = [f for f in funs if f[2] == want]
    if fs and r < 0.12:
        f, pts, _ = rng.choice(fs)
        n = len(pts) if rng.random() < 0.93 else max(0, len(pts) - 1)
        return ('call', ('id', f), [sub(pts[i], 2) for i in range(n)])
    if r < 0.22:
        return ('tern', sub('bool'), sub(), sub(), rng.choice(['?', '?', 'if']))
    if r < 0.24 and want == 'num':
        return ('ifonly', ('bool', True) if rng.random() < 0.5 else sub('bool'), sub())
    if r < 0.31 and depth >= 2:
        pts = [rng.choice(['num', 'num', 'bool']) for _ in range(rng.choice([1, 1, 2]))]
        ps = [names.fresh('p') for _ in pts]
        body = gen_tree(rng, depth - 2, syms, scope + list(zip(ps, pts)), funs, names, want)
        return ('call', ('lam', ps, body), [sub(t, 2) for t in pts])
    if r < 0.42 and depth >= 2:
        stmts = []
        sc, fl = list(scope), list(funs)
        for _ in range(rng.choice([1, 1, 2, 3])):
            q = rng.random()
            t = rng.choice(['num', 'num', 'bool'])
            if q < 0.5:
                x = names.fresh('x')
                stmts.append(('def', x, gen_tree(rng, depth - 2, syms, sc, fl, names, t)))
                sc = sc + [(x, t)]
            else:
                pts = [rng.choice(['num', 'num', 'bool']) for _ in range(rng.choice([1, 1, 2]))]
                ps = [names.fresh('p') for _ in pts]
                body = gen_tree(rng, depth - 2, syms, sc + list(zip(ps, pts)), fl, names, t)
                if q < 0.85 or len(ps) > 1:
                    f = names.fresh('f')
                    stmts.append(('deffun', f, ps, body))
                else:
                    f = names.fresh('g')
                    stmts.append(('def', f, ('lam', ps, body)))
                fl = fl + [(f, pts, t)]
        return ('seq', stmts, gen_tree(rng, depth - 1, syms, sc, fl, names, want))
    if want == 'bool':
        if r < 0.5:
            return ('not', sub('bool'))
        if r < 0.75:
            return ('bin', rng.choice(['&', '|']), sub('bool' if rng.random() < 0.85 else 'num'), sub('bool'))
        return ('bin', rng.choice(['==', '!=', '<', '<=', '>', '>=']), sub('num'), sub('num'))
    if r < 0.48:
        return ('neg', sub())
    if r < 0.52:
        return ('abs', sub())
    if r < 0.57:
        return ('bin', rng.choice(['&', '|']), sub(), sub())
    return ('bin', rng.choice(['+', '+', '-', '-', '*', '*', '/', '/']), sub(), sub())


BUILTIN_NAMES = ['today', 'amount', 'total', 'now', 'account', 'payee']


def gen_scoping(rng, names):
    """The scoping family: lambdas / function definitions nested 2-4 deep.  Parameters re-use the
    names of (i) earlier let-bindings, (ii) earlier functions, (iii) built-in report functions,
    (iv) parameters of enclosing levels; every body refers to the parameters of all enclosing
    levels; each level is applied at once, or named with `g = (p -> ..)` or `g(p) = ..` and called in
    the body that defines it (never after the enclosing call has returned, never from a deeper
    level: those are the listed findings F36/F37).  -> (top-level statements, body)"""
    num = lambda v: ('lit', Lit(str(v), 0, None))
    stmts, lets, funs = [], [], []
    for _ in range(rng.choice([1, 2, 2, 3])):
        x = names.fresh('x')
        stmts.append(('def', x, num(rng.randrange(10, 60))))
        lets.append(x)
    for _ in range(rng.choice([0, 1, 1, 2])):
        f, p = names.fresh('f'), names.fresh('p')
        stmts.append(('deffun', f, [p], ('bin', rng.choice(['+', '*']), ('id', p), num(rng.randrange(2, 9)))))
        funs.append(f)
    rng.shuffle(stmts)
    shadowable = lets + funs + BUILTIN_NAMES
    depth = rng.choice([2, 2, 3, 3, 4])

    def visible_expr(params, unshadowed, must=()):
        """an arithmetic expression over the visible names; `must` are all referred to"""
        terms = [('id', n) for n in must]
        for n in unshadowed:
            if rng.random() < 0.3:
                terms.append(('id', n))
        for f in funs:
            if f not in params and rng.random() < 0.15:
                terms.append(('call', ('id', f), [num(rng.randrange(1, 9))]))
        if not terms or rng.random() < 0.5:
            terms.append(num(rng.randrange(1, 9)))
        rng.shuffle(terms)
        e = terms[0]
        for t in terms[1:]:
            e = ('bin', rng.choice(['+', '+', '*', '-']), e, t)
        return e

    def level(k, params):
        """the application of the level-k lambda, written where `params` (outermost first, names may
        repeat: the last one wins) are in scope"""
        own = []
        for _ in range(rng.choice([1, 1, 2])):
            r = rng.random()
            cands = [n for n in shadowable if n not in own]
            outer = [n for n in params if n not in own]
            if r < 0.6 and cands:
                own.append(rng.choice(cands))
            elif r < 0.75 and outer:
                own.append(rng.choice(outer))
            else:
                own.append(names.fresh('p'))
        inner_params = params + own
        vis = list(dict.fromkeys(inner_params))
        unshadowed = [x for x in lets if x not in vis]
        body = visible_expr(vis, unshadowed, must=vis)
        if k < depth:
            sub = level(k + 1, inner_params)
            if sub[0] == 'seq':
                body = ('seq', sub[1], ('bin', rng.choice(['+', '-', '*']), sub[2], body)) if rng.random() < 0.5 \
                    else ('seq', sub[1], ('bin', '+', body, sub[2]))
            else:
                body = ('bin', rng.choice(['+', '-', '*']), body, sub) if rng.random() < 0.5 else ('bin', '+', sub, body)
        outer_vis = list(dict.fromkeys(params))
        args = [visible_expr(outer_vis, [x for x in lets if x not in outer_vis], must=outer_vis[-1:] if outer_vis and rng.random() < 0.6 else ())
                for _ in own]
        style = rng.choice(['imm', 'imm', 'named', 'deffun'])
        if style == 'imm':
            return ('call', ('lam', own, body), args)
        g = names.fresh('g')
        if style == 'named':
            return ('seq', [('def', g, ('lam', own, body))], ('call', ('id', g), args))
        return ('seq', [('deffun', g, own, body)], ('call', ('id', g), args))

    top = level(1, [])
    if top[0] == 'seq':
        return stmts + list(top[1]), top[2]
    return stmts, top


def gen_funref(rng, names):
    """References to user-defined FUNCTIONS from inside other function / lambda bodies (property text: "user-defined
    variables and functions are lexically scoped").  A chain of 2-4 top-level functions, each written `f(a, b) = body` or
    `f = (a, b -> body)` and referring to the earlier ones; with
      (a) callers - top-level functions or lambdas applied on the spot, nested up to 3 deep - whose PARAMETERS carry the
          names of functions the callees refer to (a closed lambda or a number is passed for them; a function-valued
          parameter is also called by the body that owns it), and
      (b) a name defined AGAIN (either spelling) after a body that refers to it.
    All named definitions are top-level statements; only lambdas applied on the spot nest inside bodies, and the lambdas
    passed as arguments refer to their own parameter, constants and top-level functions only (so neither F36 - a closure
    that outlives its creator - nor F37 - a let-bound variable over a parameter - is involved).
    -> (top-level statements, body)"""
    num = lambda v: ('lit', Lit(str(v), 0, None))
    stmts, consts = [], []
    for _ in range(rng.choice([0, 1, 1, 2])):
        x = names.fresh('x')
        stmts.append(('def', x, num(rng.randrange(2, 40))))
        consts.append(x)
    shared = names.fresh('p') if rng.random() < 0.5 else None      # the same parameter name in every function

    def arith(terms):
        rng.shuffle(terms)
        e = terms[0]
        for t in terms[1:]:
            e = ('bin', rng.choice(['+', '+', '*', '-']), e, t)
        return e

    def small(nums, shadowed):
        r = rng.random()
        cs = [c for c in consts if c not in shadowed]
        if nums and r < 0.5:
            return ('id', rng.choice(nums))
        if cs and r < 0.65:
            return ('id', rng.choice(cs))
        return num(rng.randrange(1, 9))

    def call_of(f, ar, nums, shadowed):
        return ('call', ('id', f), [small(nums, shadowed) if rng.random() < 0.7
                                    else ('bin', rng.choice(['+', '*']), small(nums, shadowed), num(rng.randrange(2, 5)))
                                    for _ in range(ar)])

    def define(f, ps, body):
        if rng.random() < 0.7:
            stmts.append(('deffun', f, ps, body))
        else:
            stmts.append(('def', f, ('lam', ps, body)))

    funs = []          # (name, arity), in definition order; a redefinition keeps the name
    for i in range(rng.choice([2, 2, 3, 3, 4])):
        f = names.fresh('f')
        ar = rng.choice([1, 1, 2])
        ps = [shared] + [names.fresh('p') for _ in range(ar - 1)] if shared else [names.fresh('p') for _ in range(ar)]
        terms = [small(ps, ()) for _ in range(rng.choice([1, 2]))]
        used = []
        if funs:
            used = rng.sample(funs, min(len(funs), rng.choice([1, 1, 2])))
            terms += [call_of(g, a, ps, ()) for g, a in used]
        define(f, ps, arith(terms))
        funs.append((f, ar))
        if used and rng.random() < 0.4:
            g, a = rng.choice(used)                       # (b) g is defined again after f referred to it
            qs = [names.fresh('p') for _ in range(a)]
            define(g, qs, arith([('id', qs[0]), num(rng.randrange(50, 500))] + [('id', q) for q in qs[1:]]))
    last = funs[-1]
    callees = [g for g in funs[:-1]]
    depth = rng.choice([1, 1, 2, 2, 3])

    def level(k, nums, shadowed, nested):
        """the call of the level-k caller, written where `nums` (number-valued parameters of the enclosing on-the-spot
        lambdas) are visible and the names in `shadowed` are parameters, not top-level functions"""
        own = []                                           # (name, kind)
        for _ in range(rng.choice([1, 1, 2])):
            cands = [g for g, _ in callees if g not in [o for o, _ in own]]
            r = rng.random()
            if r < 0.65 and cands:
                nm = rng.choice(cands)
            elif r < 0.75 and consts:
                nm = rng.choice(consts)
                if nm in [o for o, _ in own]:
                    nm = names.fresh('p')
            else:
                nm = names.fresh('p')
            own.append((nm, rng.choice(['fun', 'fun', 'num'])))
        style = rng.choice(['imm', 'imm', 'deffun', 'deflam'])
        in_nums = (list(nums) if style == 'imm' else [])
        in_nums = [n for n in in_nums if n not in [o for o, _ in own]] + [o for o, kd in own if kd == 'num']
        in_shadow = (set(shadowed) if style == 'imm' else set()) | {o for o, _ in own}
        callable_in = [(g, a) for g, a in funs if g not in in_shadow]
        terms = [call_of(last[0], last[1], in_nums, in_shadow)]
        for g, a in callable_in:
            if rng.random() < 0.3:
                terms.append(call_of(g, a, in_nums, in_shadow))
        for o, kd in own:
            if kd == 'fun' and rng.random() < 0.7:
                terms.append(('call', ('id', o), [small(in_nums, in_shadow)]))
            elif kd == 'num' and rng.random() < 0.7:
                terms.append(('id', o))
        if k < depth:
            terms.append(level(k + 1, in_nums, in_shadow, nested or style == 'imm'))
        body = arith(terms)
        callable_out = [(g, a) for g, a in funs if g not in shadowed]
        args = []
        for o, kd in own:
            if kd == 'fun':
                z = names.fresh('p')
                t = [('id', z)] if rng.random() < 0.7 else []
                t.append(num(rng.randrange(100, 2000)))
                if callable_out and rng.random() < 0.25:
                    g, a = rng.choice(callable_out)
                    t.append(call_of(g, a, [z], set(shadowed) | {z}))
                args.append(('lam', [z], arith(t)))
            else:
                args.append(small(list(nums), shadowed) if rng.random() < 0.6 else call_of(last[0], last[1], list(nums), shadowed)
                            if last[0] not in shadowed else num(rng.randrange(1, 9)))
        ps = [o for o, _ in own]
        if style == 'imm':
            return ('call', ('lam', ps, body), args)
        h = names.fresh('h')
        if style == 'deffun':
            stmts.append(('deffun', h, ps, body))
        else:
            stmts.append(('def', h, ('lam', ps, body)))
        return ('call', ('id', h), args)

    top = level(1, [], set(), False)
    if rng.random() < 0.3:
        top = ('bin', rng.choice(['+', '-']), top, call_of(last[0], last[1], [], ()))
    return stmts, top


def gen_leak(rng, names):
    """Definitions INSIDE a function or lambda body (property text: variables and functions are lexically scoped - what a
    body defines is local to it).  One to three top-level constants; a function, in either spelling, whose body is a
    sequence that defines a variable (constant, so F37 is not involved) or an inner function, named like a top-level
    constant or freshly; the final expression uses the top-level names AFTER the function was defined, with or without
    calling it, or refers to the fresh inner name (lexically unknown there: an error is required).  -> expression"""
    num = lambda v: ('lit', Lit(str(v), 0, None))
    consts = [names.fresh('x') for _ in range(rng.choice([1, 2, 3]))]
    stmts = [('def', x, num(rng.randrange(2, 50))) for x in consts]
    f, a = names.fresh('f'), names.fresh('p')
    inner_fun = rng.random() < 0.3
    reuse = rng.random() < 0.6
    loc = rng.choice(consts) if reuse else names.fresh('y')
    if inner_fun:
        b = names.fresh('p')
        local = ('deffun', loc, [b], ('bin', rng.choice(['+', '*']), ('id', b), num(rng.randrange(100, 900))))
        use = ('call', ('id', loc), [('id', a)])
    else:
        local = ('def', loc, num(rng.randrange(100, 900)))
        use = ('bin', rng.choice(['+', '*', '-']), ('id', loc), ('id', a))
    locals_ = [local]
    if rng.random() < 0.3:
        y2 = names.fresh('y')
        locals_.insert(rng.choice([0, 1]), ('def', y2, num(rng.randrange(2, 9))))
        use = ('bin', '+', use, ('id', y2))
    body = ('seq', locals_, use)
    if rng.random() < 0.6:
        stmts.append(('deffun', f, [a], body))
    else:
        stmts.append(('def', f, ('lam', [a], body)))
    terms = []
    if rng.random() < 0.75:
        terms.append(('call', ('id', f), [num(rng.randrange(1, 9))]))
    outside = ('id', loc) if not (inner_fun and reuse) else ('id', rng.choice(consts))
    if inner_fun and not reuse:
        outside = ('call', ('id', loc), [num(rng.randrange(1, 9))])
    terms.append(outside)
    for x in consts:
        if rng.random() < 0.4:
            terms.append(('id', x))
    if rng.random() < 0.5:
        rng.shuffle(terms)
    e = terms[0]
    for t in terms[1:]:
        e = ('bin', rng.choice(['+', '+', '-', '*']), e, t)
    return ('seq', stmts, e)


def alpha_rename(e, names, m=None):
    """the same expression with every PARAMETER (of a lambda or of a function definition) renamed to a fresh name, by the
    rules of lexical scoping: a parameter is visible in the body it belongs to, nested bodies included, until a binder of
    the same name (an inner parameter, or a definition in a sequence, from that statement on) hides it"""
    m = m or {}
    k = e[0]
    if k == 'id':
        return ('id', m.get(e[1], e[1]))
    if k in ('lit', 'bool', 'int'):
        return e
    if k in ('neg', 'not', 'abs'):
        return (k, alpha_rename(e[1], names, m))
    if k == 'bin':
        return ('bin', e[1], alpha_rename(e[2], names, m), alpha_rename(e[3], names, m))
    if k == 'tern':
        return ('tern', alpha_rename(e[1], names, m), alpha_rename(e[2], names, m), alpha_rename(e[3], names, m), e[4])
    if k == 'ifonly':
        return ('ifonly', alpha_rename(e[1], names, m), alpha_rename(e[2], names, m))
    if k == 'call':
        return ('call', alpha_rename(e[1], names, m), [alpha_rename(a, names, m) for a in e[2]])
    if k == 'lam':
        m2 = dict(m)
        ps = []
        for p in e[1]:
            m2[p] = names.fresh('r')
            ps.append(m2[p])
        return ('lam', ps, alpha_rename(e[2], names, m2))
    if k == 'seq':
        m = dict(m)
        out = []
        for st in e[1]:
            if st[0] == 'def':
                b = alpha_rename(st[2], names, m)
                m.pop(st[1], None)
                out.append(('def', st[1], b))
            elif st[0] == 'deffun':
                m2 = dict(m)
                m.pop(st[1], None)
                ps = []
                for p in st[2]:
                    m2[p] = names.fresh('r')
                    ps.append(m2[p])
                out.append(('deffun', st[1], ps, alpha_rename(st[3], names, m2)))
            else:
                out.append(alpha_rename(st, names, m))
        return ('seq', out, alpha_rename(e[2], names, m))
    raise ValueError(k)


def subtrees(e):
    yield e
    k = e[0]
    if k in ('neg', 'not', 'abs'):
        yield from subtrees(e[1])
    elif k == 'bin':
        yield from subtrees(e[2])
        yield from subtrees(e[3])
    elif k == 'tern':
        for x in e[1:4]:
            yield from subtrees(x)
    elif k == 'ifonly':
        yield from subtrees(e[1])
        yield from subtrees(e[2])
    elif k == 'call':
        yield from subtrees(e[1])
        for a in e[2]:
            yield from subtrees(a)
    elif k == 'lam':
        yield from subtrees(e[2])
    elif k == 'seq':
        for s in e[1]:
            if s[0] == 'def':
                yield from subtrees(s[2])
            elif s[0] == 'deffun':
                yield from subtrees(s[3])
            else:
                yield from subtrees(s)
        yield from subtrees(e[2])


def kinds(e):
    return {(s[0] if s[0] != 'bin' else s[1]) for s in subtrees(e)}


def rename(e, tag):
    """make the binder names of a (hand-written) case unique to this case"""
    if isinstance(e, tuple):
        return tuple(rename(x, tag) for x in e)
    if isinstance(e, list):
        return [rename(x, tag) for x in e]
    if isinstance(e, str) and e.startswith('zq') and e.endswith('_'):
        return e[:-1] + tag
    return e


def directed(rng):
    """scoping shapes: a later redefinition, nested functions, shadowed parameters"""
    n = lambda v, d=0: ('lit', Lit(str(v), d, None))
    x, f, a, g, b, y = 'zqx_', 'zqf_', 'zqa_', 'zqg_', 'zqb_', 'zqy_'
    v1, v2, v3 = rng.randrange(1, 9), rng.randrange(10, 20), rng.randrange(2, 7)
    cases = [
        # redefinition after a function captured the variable
        ('redef', ('seq', [('def', x, n(v1)), ('deffun', f, [a], ('bin', '+', ('id', a), ('id', x))), ('def', x, n(v2))],
                   ('call', ('id', f), [n(v3)]))),
        ('redef', ('seq', [('def', x, n(v1)), ('def', g, ('lam', [a], ('bin', '*', ('id', a), ('id', x)))), ('def', x, n(v2))],
                   ('bin', '+', ('call', ('id', g), [n(v3)]), ('id', x)))),
        # a variable defined from another, which is then redefined
        ('redef', ('seq', [('def', x, n(v1)), ('def', y, ('bin', '*', ('id', x), n(2))), ('def', x, n(v2))], ('id', y))),
        # nested function definitions, inner parameter shadows the outer one
        ('shadow', ('seq', [('deffun', f, [a], ('seq', [('deffun', g, [a], ('bin', '*', ('id', a), n(2)))],
                                                ('bin', '+', ('call', ('id', g), [n(v2)]), ('id', a))))],
                    ('call', ('id', f), [n(v1)]))),
        # short-circuit protects an erroneous operand
        ('short', ('bin', '&', ('bool', False), ('bin', '/', n(v1), n(0)))),
        ('short', ('bin', '|', n(v1), ('bin', '/', n(v1), n(0)))),
        ('short', ('bin', '&', n(v1), ('bin', '/', n(v1), n(0)))),
        ('short', ('tern', ('bin', '<', n(v1), n(v2)), n(v3), ('bin', '/', n(1), n(0)), '?')),
        ('short', ('tern', ('bin', '>', n(v1), n(v2)), ('bin', '/', n(1), n(0)), n(v3), 'if')),
        ('short', ('tern', ('bin', '>', n(v1), n(v2)), n(v3), ('bin', '/', n(1), n(0)), '?')),
        # higher-order
        ('hof', ('call', ('lam', [f], ('call', ('id', f), [n(v1)])), [('lam', [a], ('bin', '+', ('id', a), n(v2)))])),
        # precedence ladders
        ('prec', ('bin', '|', ('bin', '&', ('bin', '<', ('bin', '+', n(v1), ('bin', '*', n(v2), n(v3))), n(100)), ('bool', True)), ('bool', False))),
        ('prec', ('bin', '-', ('bin', '-', n(v2), n(v1)), n(v3))),
        ('prec', ('bin', '/', ('bin', '/', n(v2 * 12), n(v3)), n(2))),
        ('prec', ('bin', '-', n(v2), ('bin', '-', n(v1), n(v3)))),
        ('prec', ('bin', '*', ('neg', ('id', x)), n(v3))),
        # every position of a conditional takes a whole | expression: c ? a : x | y is c ? a : (x | y)
        ('prec', ('tern', ('bool', v1 % 2 == 0), n(v2), ('bin', '|', n(0), n(v3)), '?')),
        ('prec', ('tern', ('bool', v1 % 2 == 1), ('bin', '|', n(0), n(v3)), ('bin', '|', ('bool', False), n(v2)), '?')),
        ('prec', ('tern', ('bin', '|', ('bool', False), ('bool', v1 % 2 == 0)), ('bin', '&', n(v1), n(v2)), ('bin', '&', n(v3), n(v2)), '?')),
        ('prec', ('tern', ('bin', '|', ('bool', v1 % 2 == 0), ('bool', False)), ('bin', '|', n(0), n(v2)), ('bin', '|', n(0), n(v3)), 'if')),
        # an amount that displays as zero without being zero, under a truth test: the printed
        # text re-lexes its literals with KEEP_PREC, which changes the display-zero test
        ('dispzero', ('bin', '&', ('bin', '*', ('bin', '*', ('lit', Lit(str(v1), 2, ('$', 'pre'))), ('lit', Lit(str(v3), 2, ('$', 'pre')))),
                                        ('lit', Lit('1', 2, ('$', 'pre')))), n(v2))),
        ('dispzero', ('bin', '|', ('bin', '*', ('bin', '*', ('lit', Lit(str(v1), 2, ('$', 'pre'))), ('lit', Lit(str(v3), 2, ('$', 'pre')))),
                                        ('lit', Lit('1', 2, ('$', 'pre')))), n(v2))),
        # a function that returns a closure over its parameter, called after the function returned
        ('escape', ('seq', [('deffun', f, [a], ('lam', [b], ('bin', '+', ('id', a), ('id', b))))],
                    ('call', ('call', ('id', f), [n(v1)]), [n(v2)]))),
        # a variable defined from a parameter, used inside a function whose parameter has the same name
        ('dynscope', ('seq', [('deffun', f, [a], ('seq', [('def', y, ('bin', '*', ('id', a), n(2))), ('deffun', g, [a], ('id', y))],
                                                  ('call', ('id', g), [n(v2)])))],
                      ('call', ('id', f), [n(v1)]))),
        # the same through a lambda applied on the spot: fn(vx) = (vt = vx * 2; (vx -> vt + vx)(100)); fn(3)
        ('dynscope', ('seq', [('deffun', f, [a], ('seq', [('def', y, ('bin', '*', ('id', a), n(2)))],
                                                  ('call', ('lam', [a], ('bin', '+', ('id', y), ('id', a))), [n(v2 * 10)])))],
                      ('call', ('id', f), [n(v1)]))),
        # a ternary whose branches become constants during compilation
        ('foldtern', ('tern', ('bool', v1 % 2 == 0), ('seq', [('def', x, n(v1))], n(v2)), n(v3), '?')),
    ]
    kind, e = rng.choice(cases)
    if kind == 'prec' and 'zqx_' in repr(e):
        e = ('seq', [('def', x, n(v1))], e)
    return kind, e


MALFORMED = ['1 +', '1 + * 2', '(1 + 2', '1 + 2)', '1 2', '()', '(1 +) 2', '- - 2', 'not not true', '1 ? 2', '1 ? 2 : ',
             '1 ? 2 : 3 ? 4 : 5', '0 ? 2 : 0 ? 4 : 5', '* 2', '1 < 2 < 3', '1 == 2 == false', '2 (3)', '1 , ', '(1, )',
             '1 if', '1 if 2 else', '1 else 2', '-(2)', '! (0)', 'not (3) * 2', '(1;)', '1; 2; 3', '; 1', '1 & | 2', '1 and or 2',
             '((1))', '(((1 + 2)) * (3))', '1 +  - 2', '2 * - 3', '2 - - 3', '2 * ! 0', '- 2 * 3', '! 1 == 2', '1 -> 2', 'true ? : 2']

MAL_TOK = {'(': 'lp', ')': 'rp', '!': 'ex', 'not': 'ex', '-': 'mi', '+': 'pl', '*': 'st', '/': 'sl', 'div': 'dv', '==': 'eq',
           '!=': 'ne', '<': 'lt', '<=': 'le', '>': 'gt', '>=': 'ge', '&': 'an', 'and': 'an', '|': 'or', 'or': 'or', '?': 'qu',
           ':': 'co', 'if': 'if', 'else': 'el', ',': 'cm', ';': 'se', '->': 'ar', '=': 'as'}


def mal_tokens(text):
    out = []
    for w in re.findall(r'[0-9]+|[a-z]+|->|==|!=|<=|>=|.', text):
        if w.isspace():
            continue
        if w.isdigit():
            out.append(Lit(w, 0, None).sx())
        elif w in ('true', 'false'):
            out.append(['b', w == 'true'])
        else:
            out.append(MAL_TOK[w])
    return out



# ---- tokenizer streams -----------------------------------------------------------------------------
LEX_OPERANDS = ['1', '25', '2.50', '0.5', '$3', '$4.25', '6 EUR', '7EUR', '{5}', '{$6.10}', '{7 EUR}', '{ 8 }', '{$ 9}',
                'true', 'false', 'zqa', 'zqb_c', '_zq', 'zqA', 'falsely', 'truely', 'android', 'ore', 'iffy', 'nota', 'elsewise',
                'diva', 'trueish', 'falsezq', 'and_zq', 'or_zq', 'not_zq', 'if_zq', 'divzq', 'zqand', 'zqor', '(2)', '( 3 )',
                'to_int(4)', 'abs(5)', 'zqf(1, 2)', 'zqf(zqa, 2)', 'zqf(1,2)', 'zqf(zqa,2)', '1,000', '1,5', '$1,234.50']
LEX_OPS = ['+', '-', '*', '/', 'div', '==', '!=', '<', '<=', '>', '>=', '&', '&&', 'and', '|', '||', 'or', '?', ':', 'if',
           'else', ';', '- -', '* -', '+ -', '& ! ', 'and not', '| not ', '&&&', '|||', '===', '<==', '>==', '<>',
           '-->', '!==']
LEX_SEPS = ['', '', ' ', ' ', '  ', '    ']
LEX_DIRECTED = ['zqa -3', 'zqa-3', 'zqa - 3', 'zqa -3.5 + 1', '2 * zqa -3', 'zqa 3', 'zqa3', 'zqa 3 + zqa 4', 'zqa -3 + zqa 5',
                'zqa,2', 'zqa ,2', 'zqa, 2', 'zqa -zqb', 'zqa - zqb', '3 zqa', '3zqa', '3 zqa + 4 zqa', '-3 zqa', '- 3 zqa',
                '3 and 4', '3and4', '3 or 0', '3or0', '3 if true', '3if true', '3 if true else 4', '3if true else4', '6 div 2', '6div2',
                '6 divx', '3 else', '3 not', 'not3', 'not 3', 'nottrue', 'not true', 'truefalse', 'true false', 'falsetrue',
                'falsely', 'falselyzq', 'truely', '1 and_zq', '1 and _zq', '1 andzq 2', '1 &&& 2', '1 ||| 0', '1 === 1', '1 <== 2',
                '1 >== 2', '1 <> 2', '1 --> 2', '1 !== 2', '1 ! = 2', '1 < = 2', '1 - > 2', '1 & & 2', '1 | | 2', '1- -2', '1--2', '1 - - 2', '1 -- 2', '6/2', '6 /2', '6/ 2', '6 / 2', '(6)/2', 'to_int(6)/2',
                '6 / / 2', '6 + / 2', '{6}/{2}', '{6 EUR}/{2}', '{6 EUR }', '{ 6 EUR}', '{6', '{}', '{EUR}', '{6}}',
                '{$6.10}*2', '{-6}', '{- 6}', '{$-6}', '{-$6}', '$-6', '-$6', '- $6', '6EUR', '6  EUR', '6 EUR2',
                '6 EUR 2', '1.2.3', '1,2,3', '1,234', '1,23', '1 ; 2', '1;2', '1 ;', 'zqx=1;zqx+1',
                'zqx = 1 ; zqx + 1', 'zqg(zqy)=zqy*2;zqg(4)', '(zqy->zqy+1)(2)', '(zqy -> zqy + 1) (2)', '1?2:3',
                '1 ? 2 : 3', 'true?2:3', 'false?2:3', '0?2:3', '1 @ 2', '1 # 2', '1 % 2', '1 ^ 2', '1 \\ 2', '1 $', '$', '1 ~ 2', '#', '@', '%', '_', '__zq',
                'zq_1', 'zq_ 1', '1e5', '1 e5', '0x10', '007', '0.10', '00.100', 'A', 'Z9', 'zq$', '$zq', '$zq 1', 'EUR 6', 'EUR6', 'EUR -6',
                'EUR - 6', '1   +    2', '1+2', ' 1+2 ', '(1+2)*3', '( 1 + 2 ) * 3', '((1))', '( ( 1 ) )', '(1', '1)']


def gen_lex_text(rng):
    n = rng.choice([1, 2, 2, 3, 3, 4, 5])
    parts = [rng.choice(LEX_OPERANDS)]
    for _ in range(n - 1):
        parts += [rng.choice(LEX_OPS), rng.choice(LEX_OPERANDS)]
    if rng.random() < 0.08:
        parts.append(rng.choice(LEX_OPS))
    if rng.random() < 0.05:
        parts.insert(0, rng.choice(['-', '! ', 'not', 'not ', '+', '*']))
    out = parts[0]
    for x in parts[1:]:
        out += rng.choice(LEX_SEPS) + x
    return re.sub(r'!(?![ =])', '! ', out)       # libedit history expansion: `!` is written `! ` or `!=`


def lex_case(text):
    c = Case()
    c.kind, c.ast, c.tl, c.text, c.sxs = 'lex', None, None, text, []
    return c


def process_lex(ctx, res, rows, cat):
    """impl vs model on tokenizer-directed TEXT: the printed tree (only when no amount of a commodity outside the teaching
    journal occurs in it: the driver renders the styles of those alone), the value, the value of the printed text"""
    for i, c, iv, ip, ir, mp, mv, mr in rows:
        res.evaluations += 1
        res.traces += 1
        res.count('cat:' + cat)
        res.count('lex:' + ('parse-error' if ip.startswith('E:') else 'parsed'))
        known = all(re.fullmatch(r'\s*(\$\s*)?-?[0-9.,]+\s*(EUR|AAA|BTC|CAD)?\s*|\s*-?\s*\$\s*[0-9.,]+\s*', m) for m in AMT_RE.findall(ip))
        if (ip.startswith('E:') or mp.startswith('E:') or known) and ip != mp:
            res.disagreements.append(dict(name='C15/lex-print-text', case=c.text, impl=ip, model=mp))
        if mv.startswith('ORDER-DEPENDENT'):
            continue
        if kc(iv) != kc(mv):
            res.disagreements.append(dict(name='C15/lex-value', case=c.text, impl=iv, model=mv))
        if not ip.startswith('E:') and not iv.startswith('E'):
            res.nontrivial.add(c.text)


def two_spellings(ctx, res, journal, trees, rng):
    """ORACLE for white space (property text: an expression means what is written - blanks between tokens are not part of
    it): the same token list spelled with every optional blank dropped and with blanks everywhere must print as the same tree
    and have the same value.  Both spellings also go through the model's tokenizer (correspondence)."""
    pairs = []
    for t in trees:
        tl = toks(rng, t, L_SEQ, 0.0)
        a, b = spell(rng, tl, 1.0), spell(rng, tl, 0.0)
        if len(a) < 3000 and len(b) < 3000:
            pairs.append((t, a, b))
    return pairs

# ---- running ---------------------------------------------------------------------------------------
def make_journal(ctx, rng, name):
    pool = {}
    lines = ['2020/01/01 teach']
    for sym, side in SYMS:
        p = rng.choice([2, 2, 3, 4]) if sym == '$' else rng.choice([0, 2, 2, 3, 4])
        pool[sym] = p
        lit = Lit('1' + '0' * p, p, (sym, side))
        lines.append('    Assets:T    %s' % lit.text())
    lines.append('    Equity')
    path = ctx.path(name)
    open(path, 'w').write('\n'.join(lines) + '\n')
    return path, pool


def text_as_parsed(block):
    m = re.search(r'--- Text as parsed ---\n(.*?)(?:\n\n--- Expression tree ---|\Z)', block, re.S)
    if not m:
        return 'E:NoText'
    body = m.group(1)
    if 'Error:' in body or 'While parsing' in body:
        return 'E:Parse'
    return body.strip('\n')


def canon_val(block):
    s = block.strip()
    if 'While parsing value expression' in s:
        return 'E:Parse'
    if s == '':
        return 'N:'
    if 'never calculate an O_COLON' in s:
        return 'E:Colon'
    return c03.canon_impl(block)


def kc(r):
    if r.startswith('E:CRASH'):
        return r
    if r == 'E:Parse':
        return r
    if r.startswith('E:'):
        return 'E'
    if r == 'T:an expr':          # verif_rational of a function value (`type:` + value_t::label); the driver writes F:
        return 'F:'
    return r


class Case:
    __slots__ = ('kind', 'ast', 'tl', 'text', 'sxs', 'tag')   # tag: the define directives of a 'define' case


def lits_of(tl):
    for t in tl:
        if t.cls == 'l':
            yield t


def run_batch(ctx, res, journal, pool0, cases, tag):
    """cases: list of Case with .text and .sxs set.  One REPL session evaluates, one prints the parsed
    text, a third evaluates the printed text."""
    import time
    t0 = time.time()
    evals = ["eval 'verif_rational(%s)'" % c.text for c in cases]
    parses = ["parse ' %s'" % c.text for c in cases]
    out_v = [canon_val(b) for b in lib.run_repl(journal, evals)]
    out_p = [text_as_parsed(b) for b in lib.run_repl(journal, parses)]
    re_idx = [i for i, t in enumerate(out_p) if not t.startswith('E:') and t != '']
    out_r = {}
    if re_idx:
        rr = lib.run_repl(journal, ["eval 'verif_rational(%s)'" % out_p[i] for i in re_idx])
        for i, b in zip(re_idx, rr):
            out_r[i] = canon_val(b)
    pool = dict(pool0)
    lines = []
    for i, c in enumerate(cases):
        for sx in c.sxs:
            if isinstance(sx, list) and sx[0] == 'lit' and sx[5] != b'' and not sx[4]:
                s = sx[5].decode()
                pool[s] = max(pool.get(s, 0), sx[3])
        lines.append(lib.sx(['case', '%s%d' % (tag, i), c03.pool_sx(pool),
                             ['pool0'] + c03.pool_sx(pool0)[1:],
                             ['ptext' if c.kind == 'lex' else 'text', (' ' + c.text).encode()]]))
    t1 = time.time()
    mo = lib.run_model('C15', lines)
    res.extra['t_impl'] = res.extra.get('t_impl', 0) + round(t1 - t0, 2)
    res.extra['t_model'] = res.extra.get('t_model', 0) + round(time.time() - t1, 2)
    model = {}
    for l in mo:
        parts = l.split(' ', 2)
        if len(parts) == 3:
            model[(parts[0], parts[1])] = parts[2]
    for i, c in enumerate(cases):
        cid = '%s%d' % (tag, i)
        mp, mv, mr = model.get((cid, 'P'), '!missing'), model.get((cid, 'V'), '!missing'), model.get((cid, 'R'), '!missing')
        if mp not in ('E:Parse', 'NULL', '!missing'):
            try:
                mp = bytes.fromhex(mp).decode()
            except ValueError:
                pass
        if mp == 'NULL':
            mp = ''
        yield i, c, out_v[i], out_p[i], out_r.get(i), mp, mv, mr


def judge_value(e, impl):
    """-> (None | (symptom, required), cells)"""
    cells = set()
    try:
        want = oeval(e, {}, cells)
    except Skip:
        return None, cells
    except WantError:
        if impl.startswith('E:') and not impl.startswith('E:CRASH'):
            return None, cells
        return ('error-expected', 'an error'), cells
    except RecursionError:
        return None, cells
    if want[0] == 'fun':
        return None, cells
    got = c03.denote(impl) if not impl.startswith('N:') else ('null',)
    if impl.startswith('V:'):
        got = ('null',)
    if got is None:
        return ('unreadable-result', str(want[:2])), cells
    if got[0] == 'err':
        if got[1] in ('BadOp', 'DiffComm') :
            return None, cells
        return ('impl=%s' % got[1], str(want[:2])), cells
    if want[0] == 'null':
        return (None if got[0] == 'null' else ('wrong-value', 'null')), cells
    if got[0] != want[0] or got[1] != want[1]:
        return ('wrong-value', str(want[:2])), cells
    return None, cells


def same_value(a, b):
    """two verif_rational results denote the same value (precision counters and keep flags aside)"""
    if a.startswith('E') or b.startswith('E'):
        return kc(a) == kc(b)
    da = c03.denote(a) if a[:2] not in ('N:',) else ('null',)
    db = c03.denote(b) if b[:2] not in ('N:',) else ('null',)
    if da is None or db is None:
        return a == b
    if a.startswith('V:') or b.startswith('V:'):
        return a[:2] == b[:2]
    return da[0] == db[0] and da[1] == db[1]


def strip_prec(r):
    """A:sym:n/d:prec:keep -> A:sym:n/d (the re-lexed {..} literals carry other counters)"""
    return re.sub(r'(A:[0-9a-f~]*:-?\d+/\d+):\d+:[01]', r'\1', r)


def has_commodity_literal(e):
    return any(s[0] == 'lit' and s[1].sym for s in subtrees(e))


def has_small_amount_truth(e):
    """does the tree test the truth of an arithmetic result (display-zero can differ after re-lexing)"""
    for s in subtrees(e):
        if s[0] in ('not', 'tern', 'ifonly') or (s[0] == 'bin' and s[1] in ('&', '|')):
            return True
    return False


def process(ctx, res, rows, cat):
    for i, c, iv, ip, ir, mp, mv, mr in rows:
        res.evaluations += 1
        res.traces += 1
        res.count('cat:' + cat)
        res.count('impl:' + c03.types_of(iv) if not iv.startswith('N') else 'impl:NULL')
        # -- correspondence ------------------------------------------------------------
        if ip != mp:
            res.disagreements.append(dict(name='C15/print-text', case=c.text, impl=ip, model=mp))
        if cat != 'malformed':
            if mv.startswith('ORDER-DEPENDENT'):
                res.count('model:order-dependent')
            elif kc(iv) != kc(mv):
                res.disagreements.append(dict(name='C15/value', case=c.text, impl=iv, model=mv))
            if ir is not None:
                if mr.startswith('ORDER-DEPENDENT'):
                    res.count('model:order-dependent')
                elif kc(ir) != kc(mr):
                    res.disagreements.append(dict(name='C15/reparsed-value', case=c.text, printed=ip, impl=ir, model=mr))
        if c.ast is None:
            continue
        # -- oracle ----------------------------------------------------------------------
        e = c.ast
        ks = kinds(e)
        j, cells = judge_value(e, iv)
        det = False
        try:
            oeval(e, {}, set())
            det = True
        except (Skip, WantError, RecursionError):
            pass
        if det and len(ks) > 1:
            res.nontrivial.add(c.text)
        if len(res.samples) < 5 and len(c.text) > 25 and det:
            res.samples.append(dict(expr=c.text, printed=ip, value=iv, reparsed=ir, model_value=mv))
        if j:
            if iv == 'E:Colon':
                key = 'fold:ternary-constant-branches'
            elif ('/', 'int', 'amt') in cells:
                key = 'value:/:INTEGER,AMOUNT'
            else:
                key = 'value:%s:%s' % (cat, j[0])
            res.violations.append(dict(key=key, desc='%s evaluates to %s, the grammar requires %s' % (c.text, iv, j[1]),
                                       case=dict(expr=c.text, journal=ctx.journal_text), observed=iv, required=j[1]))
        want_text = oprint(e)
        if want_text is not None and not ip.startswith('E:'):
            got = canon_text(ip)
            if got != want_text:
                res.violations.append(dict(key='tree:%s' % cat, desc='%s is parsed as %s, the documented precedence gives %s' % (c.text, got, want_text),
                                           case=dict(expr=c.text, journal=ctx.journal_text), observed=got, required=want_text))
        if ir is not None and not iv.startswith('E:CRASH'):
            if not same_value(iv, ir):
                if ir == 'E:Parse':
                    key = 'reparse:ternary' if ('tern' in ks or 'ifonly' in ks) else 'reparse:unparsable'
                elif 'small-truth' in cells or (has_small_amount_truth(e) and ({'*', '/'} & ks) and has_commodity_literal(e)):
                    key = 'reparse:display-zero-truth'
                elif 'tern' in ks or 'ifonly' in ks:
                    key = 'reparse:ternary'
                else:
                    key = 'reparse:%s' % cat
                res.violations.append(dict(key=key, desc='%s prints as %s, which evaluates to %s instead of %s' % (c.text, ip, ir, iv),
                                           case=dict(expr=c.text, printed=ip, journal=ctx.journal_text), observed=ir, required=iv))


def const_like(e):
    """compiles to a constant: a literal, a signed literal, or a definition sequence ending in one"""
    k = e[0]
    if k in ('lit', 'bool'):
        return True
    if k in ('neg', 'not'):
        return const_like(e[1])
    if k == 'seq':
        return all(s[0] in ('def', 'deffun') for s in e[1]) and const_like(e[2])
    return False


def folds_to_sequence(e):
    """a call whose argument list is folded into one SEQUENCE constant by compile (all arguments
    constant, at least one of them only after compilation): sequences are not modelled"""
    for s in subtrees(e):
        if s[0] == 'call' and len(s[2]) >= 2 and all(const_like(a) for a in s[2]) and any(a[0] == 'seq' for a in s[2]):
            return True
    return False


def mk_case(rng, kind, ast, extra=0.0, tight=0.3):
    c = Case()
    c.kind, c.ast = kind, ast
    c.tl = toks(rng, ast, L_SEQ, extra)
    c.text = spell(rng, c.tl, tight)
    c.sxs = [t.sx for t in c.tl]
    return c


def mk_text_case(ast, text):
    c = Case()
    c.kind, c.ast, c.tl, c.text = 'spelling', ast, None, text
    c.sxs = [t.sx for t in toks(__import__('random').Random(0), ast, L_SEQ, 0.0)]
    return c


def mk_define_case(rng, stmts, body):
    """the top-level definitions go into the journal as `define` directives, the body is evaluated in
    the REPL; the model and the oracle see the one sequence `d1; d2; ..; body`"""
    c = Case()
    c.kind, c.ast = 'define', ('seq', stmts, body)
    parts = [stmt_toks(rng, st) for st in stmts]
    btl = toks(rng, body, L_ASSIGN)
    c.tl = []
    for ptl in parts:
        c.tl += ptl + [Tk('se', ';', 'p')]
    c.tl += btl
    c.sxs = [t.sx for t in c.tl]
    c.tag = [spell(rng, ptl, 0.2) for ptl in parts]
    c.text = spell(rng, btl, 0.2)
    return c


def run_define_batch(ctx, res, pool0, cases, cat='define'):
    if not cases:
        return
    lines = open(ctx.path('teach.dat')).read().rstrip('\n').split('\n')
    head = []
    for c in cases:
        head += ['define ' + d for d in c.tag]
    path = ctx.path('defines.dat')
    open(path, 'w').write('\n'.join(head + [''] + lines) + '\n')
    out_v = [canon_val(b) for b in lib.run_repl(path, ["eval 'verif_rational(%s)'" % c.text for c in cases])]
    mlines = [lib.sx(['case', 'df%d' % i, c03.pool_sx(pool0), ['pool0'] + c03.pool_sx(pool0)[1:],
                      ['text', '; '.join(c.tag + [c.text]).encode()]])
              for i, c in enumerate(cases)]
    model = {}
    for l in lib.run_model('C15', mlines):
        parts = l.split(' ', 2)
        if len(parts) == 3:
            model[(parts[0], parts[1])] = parts[2]
    for i, c in enumerate(cases):
        iv, mv = out_v[i], model.get(('df%d' % i, 'V'), '!missing')
        res.evaluations += 1
        res.traces += 1
        res.count('cat:' + cat)
        full = '; '.join(c.tag) + ' [journal define directives]; ' + c.text
        if kc(iv) != kc(mv) and not mv.startswith('ORDER-DEPENDENT'):
            res.disagreements.append(dict(name='C15/define-value', case=full, impl=iv, model=mv))
        j, cells = judge_value(c.ast, iv)
        res.nontrivial.add(full)
        if j:
            res.violations.append(dict(key='value:%s:%s' % (cat, j[0]),
                                       desc='with the journal directives %s, %s evaluates to %s, lexical scoping requires %s'
                                            % (' / '.join('define ' + d for d in c.tag), c.text, iv, j[1]),
                                       case=dict(expr=c.text, journal='\n'.join('define ' + d for d in c.tag) + '\n' + ctx.journal_text),
                                       observed=iv, required=j[1]))


def run(ctx, n_override=None):
    rng = ctx.rng
    res = lib.Result()
    res.rule = ('all operator trees of depth <= 2 over 10 leaves (to_int integers, decimals, $ and EUR amounts, braced literals, booleans, zero) '
                'and 12 binary + 2 unary operators + ?:, a sample (thorough: a bounded-exhaustive sweep over 4 leaves) of depth 3; random trees of '
                'depth <= 7 with let-bindings, lambdas, function definitions, calls, every operator spelling, redundant parentheses and white '
                'space variations; directed scoping / short-circuit / precedence shapes; functions referring to functions below callers whose parameters carry the same names or before a later redefinition (also as define directives, and with every parameter renamed); definitions inside function bodies; a malformed stream (printed text only); tokenizer texts (word-operator '
                'edges, two-character operators, identifier/number adjacency, {..}) and random trees spelled without any optional blank and with blanks everywhere. '
                'non-trivial = at least two different node kinds and the reference evaluator determines the value; distinct by text')
    scale = n_override or 1
    journal, pool0 = make_journal(ctx, rng, 'teach.dat')
    ctx.journal_text = open(journal).read()
    leaves = leaf_alphabet()
    # --- 1. bounded-exhaustive small trees
    d2 = small_trees(leaves, 2)
    small = [t for t in d2 if t[0] not in ('lit', 'bool', 'int')]
    if ctx.tier == 'thorough':
        l4 = [leaves[0], leaves[3], leaves[4], leaves[7]]
        ops3 = ['*', '/', '-', '+', '<', '==', '&', '|']
        d3 = small_trees(l4, 3, ops=ops3, unary=True, tern=False)
        d3 = [t for t in d3 if t[0] == 'bin' and (t[2][0] in ('bin', 'neg', 'not') or t[3][0] in ('bin', 'neg', 'not'))]
        rng.shuffle(d3)
        small += d3[:30000 * scale]
    else:
        d2s = [t for t in d2 if t[0] == 'bin']
        for _ in range(1500 * scale):
            op = rng.choice(BIN)
            a = rng.choice(d2s) if rng.random() < 0.7 else rng.choice(leaves)
            b = rng.choice(d2s) if rng.random() < 0.5 else rng.choice(leaves)
            small.append(('bin', op, a, b))
        small = small if ctx.tier == 'thorough' else rng.sample(small, min(len(small), 2600 * scale))
    batch = 800
    for k in range(0, len(small), batch):
        cases = [mk_case(rng, 'small', t, extra=0.0, tight=0.3) for t in small[k:k + batch]]
        process(ctx, res, run_batch(ctx, res, journal, pool0, cases, 's%d_' % k), 'small')
    # --- 2. random deep trees
    nrand = ctx.scale(4000, 20000) * scale
    done = 0
    bi = 0
    while done < nrand:
        cases = []
        for i in range(min(batch, nrand - done)):
            names = Names(enc(bi) + 'q' + enc(i))
            syms = rng.sample(SYMS, rng.choice([1, 1, 1, 2, 2, 3]))
            depth = rng.choice([2, 3, 3, 4, 4, 5, 6, 7])
            t = gen_tree(rng, depth, syms, [], [], names, rng.choice(['num', 'num', 'bool']))
            cases.append(mk_case(rng, 'random', t, extra=rng.choice([0.0, 0.0, 0.1, 0.3]), tight=rng.choice([0.0, 0.3, 0.8])))
        cases = [c for c in cases if len(c.text) < 3500 and not folds_to_sequence(c.ast)]
        process(ctx, res, run_batch(ctx, res, journal, pool0, cases, 'r%d_' % bi), 'random')
        done += batch
        bi += 1
    # --- 3. directed shapes
    cases = []
    for i in range(ctx.scale(200, 1500) * scale):
        kind, e = directed(rng)
        e = rename(e, 'd' + enc(i))
        cases.append(mk_case(rng, kind, e, extra=rng.choice([0.0, 0.2]), tight=rng.choice([0.0, 0.5])))
    for c0 in sorted({c.kind for c in cases}):
        sel = [c for c in cases if c.kind == c0]
        process(ctx, res, run_batch(ctx, res, journal, pool0, sel, 'd%s_' % c0), c0)
    # --- 3b. the scoping family: as one expression, and with the definitions as `define` directives
    nsc = ctx.scale(400, 3000) * scale
    cases, dcases = [], []
    for i in range(nsc):
        stmts, body = gen_scoping(rng, Names('s' + enc(i)))
        if i % 3 != 2:
            cases.append(mk_case(rng, 'scope', ('seq', stmts, body), extra=rng.choice([0.0, 0.0, 0.2]), tight=rng.choice([0.0, 0.5])))
        else:
            dcases.append(mk_define_case(rng, stmts, body))
    for k in range(0, len(cases), batch):
        process(ctx, res, run_batch(ctx, res, journal, pool0, cases[k:k + batch], 'sc%d_' % k), 'scope')
    run_define_batch(ctx, res, pool0, dcases)
    # --- 3c. references to user-defined functions: shadowing caller parameters, later redefinitions; the definitions
    #         inside the expression and as `define` directives; ORACLES: the reference evaluator (lexical scoping) and
    #         alpha-renaming of every parameter (same value)
    nfr = ctx.scale(450, 4000) * scale
    cases, acases, dcases = [], [], []
    for i in range(nfr):
        nm = Names('u' + enc(i))
        stmts, body = gen_funref(rng, nm)
        if i % 4 == 3:
            dcases.append(mk_define_case(rng, stmts, body))
            continue
        e = ('seq', stmts, body)
        ex, ti = rng.choice([0.0, 0.0, 0.2]), rng.choice([0.0, 0.5])
        cases.append(mk_case(rng, 'funref', e, extra=ex, tight=ti))
        acases.append(mk_case(rng, 'funref', alpha_rename(e, nm), extra=ex, tight=ti))
    keep = [i for i in range(len(cases)) if len(cases[i].text) < 3500 and len(acases[i].text) < 3500]
    cases, acases = [cases[i] for i in keep], [acases[i] for i in keep]
    for k in range(0, len(cases), batch):
        ra = list(run_batch(ctx, res, journal, pool0, cases[k:k + batch], 'fr%d_' % k))
        rb = list(run_batch(ctx, res, journal, pool0, acases[k:k + batch], 'fa%d_' % k))
        for x, y in zip(ra, rb):
            if not same_value(x[2], y[2]):
                res.violations.append(dict(key='scope:alpha-rename-changes-value',
                                           desc='%s evaluates to %s, but to %s once its parameters are renamed to fresh names (%s)'
                                                % (x[1].text, x[2], y[2], y[1].text),
                                           case=dict(expr=x[1].text, journal=ctx.journal_text), observed=x[2], required=y[2]))
        process(ctx, res, ra, 'funref')
        process(ctx, res, rb, 'funref')
    run_define_batch(ctx, res, pool0, dcases, 'funref-define')
    # --- 3d. definitions local to a function body
    cases = [mk_case(rng, 'leak', gen_leak(rng, Names('k' + enc(i))), extra=rng.choice([0.0, 0.0, 0.2]), tight=rng.choice([0.0, 0.5]))
             for i in range(ctx.scale(120, 1500) * scale)]
    for k in range(0, len(cases), batch):
        process(ctx, res, run_batch(ctx, res, journal, pool0, cases[k:k + batch], 'lk%d_' % k), 'leak')
    # --- 4. malformed / edge stream: printed text only
    cases = []
    for t in MALFORMED:
        c = Case()
        c.kind, c.ast, c.tl, c.text = 'malformed', None, None, t
        c.sxs = mal_tokens(t)
        cases.append(c)
    process(ctx, res, run_batch(ctx, res, journal, pool0, cases, 'm'), 'malformed')
    # --- 5. tokenizer streams: the model lexes the same bytes
    texts = list(LEX_DIRECTED) + [gen_lex_text(rng) for _ in range(ctx.scale(350, 8000) * scale)]
    texts = [t for t in dict.fromkeys(texts) if t.strip() and "'" not in t]
    for k in range(0, len(texts), batch):
        cases = [lex_case(t) for t in texts[k:k + batch]]
        process_lex(ctx, res, run_batch(ctx, res, journal, pool0, cases, 'lx%d_' % k), 'lex')
    # --- 5b. every optional blank dropped / blanks everywhere: same tree, same value (oracle), both through the model
    trees = []
    for i in range(ctx.scale(150, 5000) * scale):
        names = Names('w' + enc(i))
        syms = rng.sample(SYMS, rng.choice([1, 1, 2]))
        t = gen_tree(rng, rng.choice([2, 3, 3, 4, 5]), syms, [], [], names, rng.choice(['num', 'num', 'bool']))
        if not folds_to_sequence(t):
            trees.append(t)
    pairs = two_spellings(ctx, res, journal, trees, rng)
    for k in range(0, len(pairs), batch):
        sel = pairs[k:k + batch]
        ca = [mk_text_case(t, a) for t, a, b in sel]
        cb = [mk_text_case(t, b) for t, a, b in sel]
        ra = list(run_batch(ctx, res, journal, pool0, ca, 'wa%d_' % k))
        rb = list(run_batch(ctx, res, journal, pool0, cb, 'wb%d_' % k))
        for x, y in zip(ra, rb):
            if x[3] != y[3] or not same_value(x[2], y[2]):
                res.violations.append(dict(key='lex:blanks-change-meaning',
                                           desc='%s prints as %s with value %s, but with blanks between all tokens (%s) as %s with value %s'
                                                % (x[1].text, x[3], x[2], y[1].text, y[3], y[2]),
                                           case=dict(expr=x[1].text, journal=ctx.journal_text), observed=x[3] + ' ' + x[2], required=y[3] + ' ' + y[2]))
        process(ctx, res, ra, 'tight')
        process(ctx, res, rb, 'wide')
    return res


def search(ctx, broken):
    import random
    for s in range(3):
        ctx.rng = random.Random('C15-search-%d-%d' % (ctx.seed, s))
        r = run(ctx, n_override=3)
        if r.violations:
            return r.violations
    return []


def replay(ctx, obj):
    res = lib.Result()
    case = obj.get('case') or {}
    if 'expr' in case and str(obj.get('key', '')).startswith('tree:'):
        path = ctx.path('replay.dat')
        open(path, 'w').write(case.get('journal', ''))
        out = lib.run_repl(path, ["parse ' %s'" % case['expr']])
        got = canon_text(text_as_parsed(out[0]))
        print('replay: %s is parsed as %s (required %s)' % (case['expr'], got, obj.get('required')))
        if got != obj.get('required'):
            res.violations.append(dict(key=obj['key'], desc=obj['desc']))
    elif 'expr' in case:
        path = ctx.path('replay.dat')
        open(path, 'w').write(case.get('journal', ''))
        text = case.get('printed') or case['expr']
        out = lib.run_repl(path, ["eval 'verif_rational(%s)'" % text])
        got = canon_val(out[0])
        print('replay: %s -> %s (required %s)' % (text, got, obj.get('required')))
        if got == obj.get('observed'):
            res.violations.append(dict(key=obj['key'], desc=obj['desc']))
    return res
