"""C13 - period reports partition the timeline.
Correspondence: (a) `ledger period EXPR --now D` (start, finish and the sample intervals) and
(b) `reg --period EXPR` group rows (interval start, last day, exact subtotal) on generated
journals, against the extracted Coq model (Model/Period.v: the transcribed date_interval_t state
machine and interval_posts::flush).
Oracle: adjacency, lengths, alignment (python datetime/calendar arithmetic, written from the
property text) and the sum identity against ledger's own plain `reg --begin --end` rows."""
import calendar, datetime, re, time
from concurrent.futures import ThreadPoolExecutor
from fractions import Fraction as F
import lib

META = dict(
    id='C13',
    level='proof',
    technique='Coq proof (the transcribed date_interval_t state machine and interval_posts::flush refine a simple specification: consecutive steps of one duration from an anchor, clipped to [from, to)) + differential correspondence of the extracted model against ledger',
    level_text='Theorems in coq/Properties/Properties_C13.v state, for all durations of at least one unit, all from/to bounds, all week starts and both --align-intervals settings, that adding a duration strictly increases a date (incl. month ends and leap days, boost month arithmetic modelled in Model/PeriodCalendar.v), that the intervals the model of date_interval_t (stabilize / resolve_end / operator++ / find_period, times.cc:1133-1413) steps through are exactly the specification sequence s_0 = anchor, s_{i+1} = s_i + duration clipped to [from, to), that these intervals are consecutive, disjoint, one duration long except where clipped, aligned to month/quarter/year starts or the configured week day, that every date within the bounds lies in exactly one of them, and that the model of interval_posts::flush puts every posting into the group whose interval contains its date, so the group subtotals add up to the total. The model is tied to the code by comparing, on thousands of generated period expressions and journals, the output of `ledger period` and of `reg --period` (row dates, end labels, exact subtotals) with the extracted model. Bounds written in a user --input-date-format: the directive lists from which the date reader derives whether a format has a year, month and day are re-read from src/times.cc on every run (both sites must agree), and a theorem states that a bound written in a format with %Y/%y/%F, %m/%b/%B/%F and %d/%F reaches the interval object as the date the text names. The period EXPRESSION: the lexer (words split at blanks, folded to lower case, looked up in the keyword table) and the parser loop (named forms, every N units, every unit, from/since, to/until, in, a bare date) are modelled in Model/PeriodExpr.v; the keyword table of lexer_t::next_token and the three token -> duration switches of date_parser_t::parse are re-read from src/times.cc on every run (Gen/PeriodWords.v), and theorems state that each form the property names denotes the stated duration in any letter case, that `every 0 ..` is refused, and that duration, from and to clauses mean the same in any order (the interval object is init d from to, the object of all other theorems). In every reg/period case the model is given the expression TEXT, not the reading of it by the harness; the token kinds `ledger period` lists are compared with the lexer of the model, and a stream of expressions that must be refused is compared too. --group-by: whether interval_posts::clear() empties all_posts is re-read from src/filters.h; when it does, each group is reported from its own postings only (theorem), while it does not the model reproduces the carry-over (finding F125, refutation theorem).',
    level_note='Trusted: Coq kernel; extraction + OCaml driver and the python harness for the correspondence; boost::gregorian day-number/ymd conversion and month arithmetic modelled in Model/PeriodCalendar.v (validated against ledger and python datetime); reading a date word (the date reader, C14) is glue: the harness hands the model the day each date word names; the from/to limit predicates added by report_t::normalize_period are glue (the driver filters the postings by the bounds of the parsed interval; the oracle checks that filter against ledger\'s own `reg --limit`). Not modelled in the expression: month and weekday names, this/next/last, today/tomorrow/yesterday, N units ago/hence, a bare integer, the `-` range. Amounts are positive so that no group displays as zero.',
    design_ref='DESIGN.md section 7 C13, section 6.5',
    assumptions=['from < to when both are given', 'postings carry no auxiliary dates; one account and one commodity per report so that a row is one interval',
                 '--start-of-week is given as a number 0-6 or a day name in any letter case (the model reads the text; F13a, a name not in lower case silently ignored, is repaired); a text that names no day is refused',
                 'posting amounts are positive (a zero group subtotal is hidden by the register report unless --empty)',
                 '--input-date-format values use only the directives %Y %y %m %b %B %d %F, start with a digit and contain no blank (a period date word must); observed on the unchanged tree and not claimed: the reader traits do not know %e, %j, %D or %h, so `monthly from 10-03-2021` under --input-date-format %e-%m-%Y is taken as from 2021/03/01'],
)

EPOCH = datetime.date(1970, 1, 1).toordinal()
NOW = datetime.date(2021, 6, 15)
QNAME = {'d': 'days', 'w': 'weeks', 'm': 'months', 'q': 'quarters', 'y': 'years'}
QSING = {'d': 'day', 'w': 'week', 'm': 'month', 'q': 'quarter', 'y': 'year'}
NAMED = {'daily': ('d', 1), 'weekly': ('w', 1), 'biweekly': ('w', 2), 'monthly': ('m', 1),
         'bimonthly': ('m', 2), 'quarterly': ('q', 1), 'yearly': ('y', 1)}
# --input-date-format values: a date word of a period expression must start with a digit and contain no blank
# (times.cc next_token); month names (%b %B), other field orders and separators, two-digit years, %F.
# Not generated: %e %j %D %h (see the observation in META: the reader's traits do not know them)
FORMATS = ['%d-%b-%Y', '%d-%B-%Y', '%d-%m-%Y', '%Y.%m.%d', '%m/%d/%y', '%d.%m.%Y', '%Y%m%d', '%d%b%Y',
           '%Y-%b-%d', '%d/%m/%Y', '%y.%m.%d', '%d-%b-%y', '%F', '%d-%B-%y', '%Y-%B-%d']
PAYEES = ['pa', 'pb', 'pc', 'pd']
MON = ['Jan', 'Feb', 'Mar', 'Apr', 'May', 'Jun', 'Jul', 'Aug', 'Sep', 'Oct', 'Nov', 'Dec']


def dn(d):
    return d.toordinal() - EPOCH


def nd(n):
    return datetime.date.fromordinal(n + EPOCH)


def iso(d):
    return d.strftime('%Y-%m-%d')


def short(d):
    """ledger's default output date format %y-%b-%d"""
    return '%02d-%s-%02d' % (d.year % 100, MON[d.month - 1], d.day)


# ---- independent calendar arithmetic (python datetime / calendar) ------------------------------
def py_add_months(d, n):
    last = calendar.monthrange(d.year, d.month)[1]
    k = d.year * 12 + d.month - 1 + n
    y, m = divmod(k, 12)
    m += 1
    tl = calendar.monthrange(y, m)[1]
    day = tl if d.day == last else min(d.day, tl)
    return datetime.date(y, m, day)


def py_add(d, q, n):
    if q == 'd':
        return d + datetime.timedelta(days=n)
    if q == 'w':
        return d + datetime.timedelta(days=7 * n)
    if q == 'm':
        return py_add_months(d, n)
    if q == 'q':
        return py_add_months(d, 3 * n)
    return py_add_months(d, 12 * n)


def py_wday(d):
    return (d.weekday() + 1) % 7       # 0 = Sunday


def aligned(d, q, sow):
    if q == 'd':
        return True
    if q == 'w':
        return py_wday(d) == sow
    if q == 'm':
        return d.day == 1
    if q == 'q':
        return d.day == 1 and d.month in (1, 4, 7, 10)
    return d.day == 1 and d.month == 1


# ---- cases ---------------------------------------------------------------------------------------
def dur_text(rng, q, n, form=None):
    if form is not None:
        return form
    forms = ['every %d %s' % (n, QNAME[q])]
    if n == 1:
        forms.append('every ' + QSING[q])
    for name, (nq, nn) in NAMED.items():
        if (nq, nn) == (q, n):
            forms += [name, name]
    return rng.choice(forms)


def bounds_format(case):
    """the format the bound dates of the expression are written in (and which reader parses them)"""
    return case.get('bfmt') or '%Y/%m/%d'


def kw(rng, word):
    """a keyword in the letter case the lexer has to fold (to_lower): mostly as usually written"""
    r = rng.random()
    return word if r < 0.8 else word.capitalize() if r < 0.9 else word.upper()


def expr_text(rng, case):
    """the expression text; case['dates'] = the days its date words name, in the order written (the model's lexer
    and parser read the TEXT, the day a date word names is handed over with it).  The clauses - duration, from, to -
    come in any order, the keywords in any letter case."""
    s = dur_text(rng, case['q'], case['n'], case.get('form'))
    if case.get('form') is None and rng.random() < 0.2:
        s = ' '.join(w if w.isdigit() else kw(rng, w) for w in s.split())
    fmt = case.get('bfmt')
    if fmt is None:
        # the built-in readers; with --input-date-format the separators are no longer normalised, both still read
        fmt = rng.choice(['%Y/%m/%d', '%Y/%m/%d', '%Y-%m-%d'])
    if case['from'] is not None and case['to'] == case['from'] + 1 and rng.random() < 0.7:
        # a single day: `in D` / a bare date is the range [D, D + 1 day)
        case['dates'] = [case['from']]
        clause = rng.choice([kw(rng, 'in') + ' ', '']) + nd(case['from']).strftime(fmt)
        return s + ' ' + clause if rng.random() < 0.7 else clause + ' ' + s
    clauses = [('d', s)]
    if case['from'] is not None:
        clauses.append((case['from'], '%s %s' % (kw(rng, rng.choice(['from', 'since'])), nd(case['from']).strftime(fmt))))
    if case['to'] is not None:
        clauses.append((case['to'], '%s %s' % (kw(rng, rng.choice(['to', 'until'])), nd(case['to']).strftime(fmt))))
    if rng.random() < 0.35:
        rng.shuffle(clauses)
        case['shuffled'] = True
    else:
        case['shuffled'] = False
    case['dates'] = [k for k, _ in clauses if k != 'd']
    return ' '.join(t for _, t in clauses)


def set_format(rng, case, fmt):
    """fmt = the --input-date-format of the run (None = none given); the bounds are written in it, or - now
    and then - in the built-in %Y/%m/%d, which the readers still accept"""
    case['fmt'] = fmt
    case['bfmt'] = fmt if (fmt is not None and rng.random() < 0.85) else None
    if case['bfmt'] and '%y' in case['bfmt']:
        # a two-digit year names 1969-2068 (strptime %y); a bound outside that window cannot be written with it
        if any(b is not None and not (1969 <= nd(b).year <= 2068) for b in (case['from'], case['to'])):
            case['bfmt'] = None
    case['expr'] = expr_text(rng, case)


def boundary_date(rng, lo=2019, hi=2025):
    y = rng.randrange(lo, hi + 1)
    k = rng.randrange(12)
    if k == 0:
        return datetime.date(y, 1, rng.choice([1, 29, 30, 31]))
    if k == 1:
        return datetime.date(y, 2, rng.choice([1, 28, 29 if calendar.isleap(y) else 28]))
    if k == 2:
        m = rng.randrange(1, 13)
        return datetime.date(y, m, calendar.monthrange(y, m)[1])            # a month end
    if k == 3:
        return datetime.date(y, rng.randrange(1, 13), 1)                      # a month start
    if k == 4:
        return datetime.date(y, rng.choice([1, 4, 7, 10]), 1)                 # a quarter start
    if k == 5:
        return datetime.date(y, rng.choice([3, 6, 9, 12]), rng.choice([30, 31]) if False else 30)
    if k == 6:
        return datetime.date(y, 12, 31)
    if k == 7:                                                                # a Sunday or a Monday
        d = datetime.date(y, rng.randrange(1, 13), rng.randrange(1, 29))
        return d - datetime.timedelta(days=(py_wday(d) - rng.choice([0, 1])) % 7)
    if k == 8:
        return datetime.date(rng.choice([2020, 2024]), 2, 29)
    m = rng.randrange(1, 13)
    return datetime.date(y, m, rng.randrange(1, calendar.monthrange(y, m)[1] + 1))


def gen_bounds(rng, q, n):
    """(from, to) as date or None, from < to; `to` often on or next to a period boundary"""
    f = boundary_date(rng, 2019, 2024) if rng.random() < 0.7 else None
    t = None
    if rng.random() < 0.6:
        base = f or boundary_date(rng, 2019, 2023)
        k = rng.randrange(6)
        if k == 0:
            t = base + datetime.timedelta(days=rng.choice([1, 2, 6, 7, 8, 27, 28, 29, 30, 31, 32]))
        elif k == 1:
            t = base
            for _ in range(rng.randrange(1, 5)):
                t = py_add(t, q, n)
            t += datetime.timedelta(days=rng.choice([-1, 0, 0, 1]))
        elif k == 2:
            t = boundary_date(rng, base.year, min(2026, base.year + 3))
        else:
            t = base + datetime.timedelta(days=rng.randrange(1, 900))
        if f is None and t <= datetime.date(2019, 1, 1):
            t = None
        if f is not None and t is not None and t <= f:
            t = f + datetime.timedelta(days=rng.choice([1, 3, 40]))
    if f is not None and rng.random() < 0.04:
        t = f + datetime.timedelta(days=1)
    return f, t


def gen_journal(rng, idx):
    """posting dates over 2019-2025, clustered or spread, with month ends and leap days"""
    style = rng.choice(['spread', 'spread', 'dense', 'boundary', 'few'])
    n = {'spread': rng.randrange(20, 80), 'dense': rng.randrange(40, 120), 'boundary': rng.randrange(15, 60),
         'few': rng.randrange(1, 6)}[style]
    dates = []
    if style == 'dense':
        start = boundary_date(rng, 2019, 2024)
        span = rng.choice([20, 60, 200])
        for _ in range(n):
            dates.append(start + datetime.timedelta(days=rng.randrange(span)))
    else:
        for _ in range(n):
            if style == 'boundary' or rng.random() < 0.35:
                dates.append(boundary_date(rng))
            else:
                dates.append(datetime.date(2019, 1, 1) + datetime.timedelta(days=rng.randrange(2557)))
    rng.shuffle(dates)          # file order is not date order: flush sorts
    posts = [(d, rng.randrange(1, 100000), rng.choice(PAYEES[:rng.choice([2, 3, 4])])) for d in dates]
    fmt = rng.choice(FORMATS) if rng.random() < 0.45 else None          # the journal's own date format
    return dict(idx=idx, posts=posts, text=journal_text(posts, fmt), style=style, fmt=fmt)


def journal_text(posts, fmt):
    lines = []
    for d, c, payee in posts:
        lines += ['%s %s' % (d.strftime(fmt or '%Y/%m/%d'), payee), '    Assets:A    $%d.%02d' % (c // 100, c % 100), '    Equity:Open', '']
    return '\n'.join(lines) + '\n'


def gen_case(rng, exhaustive=None):
    if exhaustive is not None:
        q, n = exhaustive
    else:
        q = rng.choice('dwwmmqy')
        n = rng.choice([1, 1, 1, 2, 2, 3, 4, 5, 6, 7, 8, 9, 10, 11, 12])
    f, t = gen_bounds(rng, q, n)
    sow = rng.choice([0, 0, 1, 1, 1, 2, 3, 4, 5, 6])
    case = dict(q=q, n=n, sow=sow, align=rng.random() < 0.4, empty=rng.random() < 0.35)
    case['from'] = dn(f) if f else None
    case['to'] = dn(t) if t else None
    case['group'] = False
    r = rng.random()
    if r < (0.3 if q == 'w' else 0.05):
        spell_week_start(rng, case)
    elif r > 0.985:
        unknown_week_start(rng, case)
    set_format(rng, case, None)
    return case


WDAYS = ['sunday', 'monday', 'tuesday', 'wednesday', 'thursday', 'friday', 'saturday']


def spell_week_start(rng, case):
    """--start-of-week takes a day NAME as well as a number, in any letter case (report_t::normalize_options
    lower-cases the text before string_to_day_of_week; F13a, repaired: a name not in lower case used to be ignored
    without a message).  sow = the day the text names, for the oracle; the MODEL is given the text."""
    name = WDAYS[case['sow']]
    word = rng.choice([name, name[:3]])
    if rng.random() < 0.3:
        word = rng.choice([word.capitalize(), word.upper()])
    case['sow_text'] = word


UNKNOWN_DAYS = ['lundi', '7', 'mo', 'mondays', 'monday2', 'day', 'weekly', '10', 'sonntag', 'Frei', '1.0']


def unknown_week_start(rng, case):
    """a text that names no day: the run is refused (status non-zero, no report) - it used to fall back to Sunday"""
    case['sow_text'] = rng.choice(UNKNOWN_DAYS)
    case['sow_unknown'] = True


def sow_text_of(case):
    """what the model reads: the text given to --start-of-week, `0` (the default, Sunday) when it is not given"""
    return case.get('sow_text') or str(case['sow'])


# ---- running ledger ------------------------------------------------------------------------------
ROWFMT = '%(format_date(date, "%Y-%m-%d"))|%(verif_rational(amount))|%(payee)|%(account)\\n'
PLAINFMT = '%(format_date(date, "%Y-%m-%d"))|%(verif_rational(amount))|%(payee)\\n'


def parse_amt(s):
    m = re.fullmatch(r'A:([0-9a-f]*):(-?\d+)/(\d+):\d+:[01]', s)
    if not m:
        return None
    return F(int(m.group(2)), int(m.group(3)))


def pdate(s):
    return datetime.datetime.strptime(s, '%Y-%m-%d').date()


def fmt_args(case):
    return ['--input-date-format', case['fmt']] if case.get('fmt') else []


def reg_args(case, jpath):
    a = ['-f', jpath] + fmt_args(case) + ['reg', '^Assets:A', '--period', case['expr'], '--now', '2021/06/15',
                                          '--date-format', '%Y-%m-%d', '--format', ROWFMT]
    if case.get('sow_text'):
        a += ['--start-of-week', case['sow_text']]
    elif case['sow'] != 0 or case.get('sow_explicit'):
        a += ['--start-of-week', str(case['sow'])]
    if case['align']:
        a += ['--align-intervals']
    if case['empty']:
        a += ['--empty']
    if case.get('group'):
        a += ['--group-by', 'payee']
    return a


def run_reg(case, jpath):
    """-> ('OK', rows) or, with --group-by, ('OK', [(title, rows), ...]); a row is (first day, last day, amount, account)"""
    st, out, err = lib.run_ledger(reg_args(case, jpath))
    if st != 0:
        return ('ERR', st, err.decode('utf-8', 'replace')[:200], 'stdout=%d' % len(out))
    rows = []
    groups = []
    for l in out.decode().split('\n'):
        if not l:
            continue
        p = l.split('|')
        if case.get('group') and len(p) == 1:
            rows = []
            groups.append((l, rows))          # the title line of a group
            continue
        if len(p) != 4 or not p[2].startswith('- '):
            return ('ERR', 'row', l)
        amt = parse_amt(p[1])
        if amt is None:
            return ('ERR', 'amount', l)
        rows.append((pdate(p[0]), pdate(p[2][2:]), amt, p[3]))
    if case.get('group'):
        return ('OK', groups)
    return ('OK', rows)


def run_plain(case, jpath):
    """the unperiodised postings within the stated bounds, selected by a value-expression limit (which does not
    go through the period parser): [(date, amount, payee)]"""
    a = ['-f', jpath] + fmt_args(case) + ['reg', '^Assets:A', '--now', '2021/06/15', '--format', PLAINFMT]
    lim = []
    if case['from'] is not None:
        lim.append('date>=[%s]' % nd(case['from']).strftime('%Y/%m/%d'))
    if case['to'] is not None:
        lim.append('date<[%s]' % nd(case['to']).strftime('%Y/%m/%d'))
    if lim:
        a += ['--limit', ' & '.join(lim)]
    st, out, err = lib.run_ledger(a)
    if st != 0:
        return None
    res = []
    for l in out.decode().split('\n'):
        if l:
            d, amt, payee = l.split('|')
            res.append((pdate(d), parse_amt(amt), payee))
    return res


def failure_class(impl):
    """a small stable class for a failed run: (ERR, status, stderr text)"""
    text = ' '.join(str(x) for x in impl[1:])
    if impl[1] == 'timeout':
        return 'timeout'
    if isinstance(impl[1], int) and impl[1] < 0:
        return 'signal'
    for pat, name in [('out of valid range', 'date-out-of-range'), ('improperly initialized', 'interval-not-initialized'),
                      ('Failed to find period', 'no-period-found'), ('Invalid date', 'invalid-date'),
                      ('Unexpected date period token', 'period-syntax'), ('Unknown day of the week', 'unknown-week-day')]:
        if pat in text:
            return name
    return 'unreadable-output' if impl[1] in ('row', 'amount', 'format') else 'error'


def run_period(case):
    st, out, err = lib.run_ledger(fmt_args(case) + ['period', case['expr'], '--now', '2021/06/15'])
    if st != 0:
        return ('ERR', st, err.decode('utf-8', 'replace')[:200])
    text = out.decode()
    m = re.search(r'--- After stabilization ---\n(.*?)\n\n--- Sample dates in range \(max\. 20\) ---\n(.*)', text, re.S)
    if not m:
        return ('ERR', 'format')
    start = re.search(r'^\s*start: (\S+)$', m.group(1), re.M)
    finish = re.search(r'^\s*finish: (\S+)$', m.group(1), re.M)
    dur = re.search(r'^duration: (.*)$', m.group(1), re.M)
    samples = re.findall(r'^\s*\d+: (\S+) -- (\S+)$', m.group(2), re.M)
    t = re.search(r'--- Period expression tokens ---\n(.*?)\n\n--- Before stabilization ---', text, re.S)
    toks = [l.split(':')[0] for l in t.group(1).split('\n')] if t else ['?']
    return ('OK', start.group(1) if start else '-', finish.group(1) if finish else '-', dur.group(1) if dur else '-', samples, toks)


# ---- model ---------------------------------------------------------------------------------------
def model_head(kind, cid, case):
    return [kind, cid, case['q'], case['n'], case['from'] if case['from'] is not None else '-',
            case['to'] if case['to'] is not None else '-']


def model_tail(case):
    """the format the bounds are written in (as bytes), the current year, the expression text (as bytes) and the
    days its date words name in the order written"""
    return [bounds_format(case).encode(), NOW.year, case['expr'].encode(), list(case['dates'])]


def model_reg_line(cid, case, posts):
    """all postings of the account in date order (stable, as std::stable_sort); the driver limits them to the
    bounds the model derives from the text; with --group-by: one list per payee, in payee order, journal order"""
    head = model_head('greg' if case.get('group') else 'reg', cid, case) + [sow_text_of(case).encode(), case['align'], case['empty']] + model_tail(case)
    if case.get('group'):
        gs = []
        for payee in sorted({p[2] for p in posts}):
            gs.append(['group'] + [[dn(d), c, 100] for d, c, pp in posts if pp == payee])
        return lib.sx(head + gs)
    return lib.sx(head + [[dn(d), c, 100] for d, c, _ in sorted(posts, key=lambda p: p[0])])


def model_period_line(cid, case):
    return lib.sx(model_head('period', cid, case) + [dn(NOW)] + model_tail(case))


def parse_rows_body(body):
    if body == 'ERR':
        return None
    rows = []
    for r in (body.split(';') if body else []):
        s, e, amt, cnt = r.split(':')
        n, d = amt.split('/')
        rows.append((nd(int(s)), nd(int(e) - 1), F(int(n), int(d)), int(cnt)))
    return rows


def parse_model_rows(line):
    body = line.split(' ', 1)[1]
    if body == 'ERR':
        return ('ERR',)
    if body.startswith('groups='):
        body = body[len('groups='):]
        return ('OK', [parse_rows_body(g) for g in body.split('|')] if body else [])
    rows = parse_rows_body(body[len('rows='):])
    return ('OK', rows)


def within(case, d):
    x = dn(d)
    return (case['from'] is None or x >= case['from']) and (case['to'] is None or x < case['to'])


# ---- oracle (from the property text) --------------------------------------------------------------
def dur_label(case):
    return '%s%s' % (case['q'], 'N' if case['n'] > 1 else '1')


def oracle_intervals(case, ivs, consecutive, what):
    """ivs: list of (first day, last day) as ledger printed them, in order.  Yields (key, desc)."""
    q, n, sow = case['q'], case['n'], case['sow'] if what == 'reg' else 0
    f = nd(case['from']) if case['from'] is not None else None
    t = nd(case['to']) if case['to'] is not None else None
    anchored = case['align'] and f is not None and what == 'reg'
    lab = '%s:%s' % (what, dur_label(case))
    for i, (s, e) in enumerate(ivs):
        if e < s:
            yield (lab + ':empty-interval', 'interval %s..%s is empty' % (s, e))
            continue
        end = e + datetime.timedelta(days=1)
        if f is not None and s < f:
            yield (lab + ':before-from', 'interval %s starts before from %s' % (s, f))
        if t is not None and end > t:
            yield (lab + ':beyond-to', 'interval ..%s ends after to %s' % (e, t))
        # a first interval that starts at a mid-period `from` is clipped at that bound; for a duration of
        # several weeks the property fixes only the week day of the boundaries, not their phase
        first_clipped = (f is not None and s == f and not anchored and i == 0
                         and (not aligned(s, q, sow) or (q == 'w' and n > 1)))
        # length: exactly one duration unless clipped by `to` (or a first interval starting at a mid-period `from`)
        full = py_add(s, q, n)
        if first_clipped:
            if not aligned(end, q, sow) and not (t is not None and end == t):
                yield (lab + ':first-interval-end-unaligned', 'first interval %s..%s does not end at a period boundary' % (s, e))
            if end > full:
                yield (lab + ':first-interval-too-long', 'first interval %s..%s is longer than one duration' % (s, e))
        elif end != full:
            if not (t is not None and end == t and t < full):
                yield (lab + ':length', 'interval %s..%s is not one duration long (expected end %s)' % (s, e, full - datetime.timedelta(days=1)))
        # alignment
        if anchored:
            x = f
            while x < s:
                x = py_add(x, q, n)
            if x != s:
                yield (lab + ':align-intervals-anchor', 'start %s is not a whole number of durations after from %s' % (s, f))
        elif not first_clipped and not aligned(s, q, sow):
            yield (lab + ':alignment', 'start %s is not aligned (week start %d)' % (s, sow))
        # adjacency / disjointness
        if i + 1 < len(ivs):
            ns = ivs[i + 1][0]
            if ns < end:
                yield (lab + ':overlap', 'intervals ..%s and %s.. overlap' % (e, ns))
            elif consecutive and ns != end:
                yield (lab + ':gap', 'interval after ..%s starts at %s' % (e, ns))
            elif ns != end:
                x = end
                while x < ns:
                    x = py_add(x, q, n)
                if x != ns:
                    yield (lab + ':gap-not-whole-periods', 'the gap between ..%s and %s.. is not a whole number of durations' % (e, ns))


def century_fix(samples):
    """the period command prints 2-digit years: choose the century that keeps the list increasing"""
    out = []
    prev = datetime.date(1999, 12, 31)
    for a, b in samples:
        ds = []
        for s in (a, b):
            yy, mon, dd = s.split('-')
            y = 2000 + int(yy)
            m = MON.index(mon) + 1
            while datetime.date(y, m, int(dd)) < prev:
                y += 100
            d = datetime.date(y, m, int(dd))
            ds.append(d)
            prev = d
        out.append(tuple(ds))
    return out


# ---- the run -------------------------------------------------------------------------------------
def form_of(case):
    ws = [w.lower() for w in case['expr'].split()]
    for i, w in enumerate(ws):
        if w == 'every':
            return 'every-N-units' if ws[i + 1].isdigit() else 'every-unit'
        if w in NAMED:
            return w
    return '?'


def canon_rows(rows, impl):
    if impl:
        return [(s, e, a, 0 if acct == '<None>' else 1) for s, e, a, acct in rows]
    return [(s, e, a, 1 if c else 0) for s, e, a, c in rows]


def full_case(case, journal):
    return dict(expr=case['expr'], sow=case['sow'], align=case['align'], empty=case['empty'], q=case['q'], n=case['n'],
                fmt=case.get('fmt'), bfmt=case.get('bfmt'), group=bool(case.get('group')),
                sow_text=case.get('sow_text'), sow_unknown=bool(case.get('sow_unknown')),
                **{'from': case['from'], 'to': case['to']}, journal=journal['text'])


def oracle_rows(case, rows, posts, lab, viol):
    """rows of one report (or of one group) against the postings (date, amount) it has to account for"""
    for key, desc in oracle_intervals(case, [(s, e) for s, e, _, _ in rows], case['empty'], 'reg'):
        viol(key, desc, [str(r[:3]) for r in rows][:12], 'consecutive aligned intervals of one duration within the bounds')
    if sum(a for _, a in posts) != sum(r[2] for r in rows):
        viol(lab + ':sum', 'interval subtotals add up to %s, the unperiodised total within the bounds is %s' % (sum(r[2] for r in rows), sum(a for _, a in posts)),
             str(sum(r[2] for r in rows)), str(sum(a for _, a in posts)))
    for s, e, a, _ in rows:
        want = sum(x for d, x in posts if s <= d <= e)
        if want != a:
            viol(lab + ':posting-in-wrong-interval', 'row %s..%s shows %s, the postings dated in it add up to %s' % (s, e, a, want), str(a), str(want))
            break
    covered = sum(1 for d, _ in posts if any(s <= d <= e for s, e, _, _ in rows))
    if covered != len(posts):
        viol(lab + ':posting-not-counted', '%d of %d postings within the bounds lie in no reported interval' % (len(posts) - covered, len(posts)), covered, len(posts))


def check_reg(res, case, journal, impl, plain, model):
    cid = '%s@j%d' % (case['expr'], journal['idx'])
    opts = 'sow=%s align=%d empty=%d fmt=%s%s' % (case.get('sow_text') or case['sow'], case['align'], case['empty'], case.get('fmt'), ' group-by' if case.get('group') else '')
    full = full_case(case, journal)
    res.evaluations += 1
    res.traces += 1
    res.count('reg:q=%s' % case['q'])
    res.count('reg:form=%s' % form_of(case))
    res.count('reg:n=%d' % case['n'])
    res.count('reg:bounds=%s%s' % ('F' if case['from'] is not None else '-', 'T' if case['to'] is not None else '-'))
    res.count('reg:sow=%d' % case['sow'])
    res.count('reg:input-date-format=%s' % (case.get('fmt') or 'none'))
    if case.get('fmt') and case.get('bfmt') and (case['from'] is not None or case['to'] is not None):
        res.count('reg:bounds-written-in-input-date-format')
    if case.get('shuffled') and (case['from'] is not None or case['to'] is not None):
        res.count('reg:clauses-not-in-the-usual-order')
    if case['align']:
        res.count('reg:align')
    if case['empty']:
        res.count('reg:empty')
    if case.get('group'):
        res.count('reg:group-by')
    if case.get('sow_unknown'):
        # --start-of-week with a text that names no day: refused by ledger (a message, status non-zero, nothing on
        # stdout) and by the model
        res.count('reg:start-of-week-unknown-text')
        refused = impl[0] == 'ERR' and failure_class(impl) == 'unknown-week-day' and impl[3] == 'stdout=0'
        if impl[0] == 'OK':
            res.violations.append(dict(key='reg:start-of-week:unknown-text-ignored', desc='--start-of-week %s is accepted and ignored (%s)' % (case['sow_text'], case['expr']),
                                       case=full, observed='a report of %d rows' % len(impl[1]), required='an error: the text names no day of the week'))
        if not refused or model[0] != 'ERR':
            res.disagreements.append(dict(name='C13/start-of-week-refused', case=full, impl=str(impl)[:300], model=str(model)[:300]))
        else:
            res.nontrivial.add(cid + ' ' + opts)
        return
    # correspondence
    if impl[0] != 'OK':
        # oracle: every expression and journal generated here is valid, and the property says what the report
        # contains - a report that ends in an error (or a crash, or runs out of time) counts no posting at all
        res.violations.append(dict(key='reg:%s:report-failed:%s' % (dur_label(case), failure_class(impl)),
                                   desc='reg --period %s %s fails: %s' % (case['expr'], opts, str(impl[1:])[:200]), case=full,
                                   observed=str(impl)[:300], required='one row per non-empty interval within the bounds'))
    if impl[0] != 'OK' or model[0] != 'OK' or (case.get('group') and any(g is None for g in model[1])):
        if impl[0] != model[0] or impl[0] == 'OK':
            res.disagreements.append(dict(name='C13/reg-rows', case=full, impl=str(impl)[:300], model=str(model)[:300]))
        return
    if case.get('group'):
        icanon = [canon_rows(rows, True) for _, rows in impl[1]]
        mcanon = [canon_rows(rows, False) for rows in model[1]]
        if icanon != mcanon:
            k = next((i for i in range(min(len(icanon), len(mcanon))) if icanon[i] != mcanon[i]), min(len(icanon), len(mcanon)))
            res.disagreements.append(dict(name='C13/group-by-rows', case=full, opts=opts,
                                          impl='%d groups; group %d: %s' % (len(icanon), k, str(icanon[k])[:300] if k < len(icanon) else None),
                                          model='%d groups; group %d: %s' % (len(mcanon), k, str(mcanon[k])[:300] if k < len(mcanon) else None)))
        rows = [r for _, rs in impl[1] for r in rs]
    else:
        irows, mrows = canon_rows(impl[1], True), canon_rows(model[1], False)
        if irows != mrows:
            k = next((i for i in range(min(len(irows), len(mrows))) if irows[i] != mrows[i]), min(len(irows), len(mrows)))
            res.disagreements.append(dict(name='C13/reg-rows', case=full, opts=opts,
                                          impl='%d rows; row %d: %s' % (len(irows), k, irows[k] if k < len(irows) else None),
                                          model='%d rows; row %d: %s' % (len(mrows), k, mrows[k] if k < len(mrows) else None)))
        rows = impl[1]
    if len(rows) >= 2:
        res.nontrivial.add(cid + ' ' + opts)
        res.count('reg:rows>=2')
    if not case.get('group'):
        if rows and case['from'] is not None and rows[0][0] == nd(case['from']) and not aligned(rows[0][0], case['q'], case['sow']):
            res.count('reg:first-interval-clipped')
        if rows and case['to'] is not None and rows[-1][1] + datetime.timedelta(days=1) == nd(case['to']):
            res.count('reg:last-interval-clipped')
        if len(res.samples) < 4 and len(rows) >= 3 and (case.get('fmt') or len(res.samples) < 2):
            res.samples.append(dict(expr=case['expr'], options=opts, rows=['%s..%s %s' % (s, e, a) for s, e, a, _ in rows[:4]]))
    # oracle
    def viol(key, desc, observed, required):
        if (case.get('sow_text') and case['sow_text'] != case['sow_text'].lower() and case['q'] == 'w' and case['sow'] != 0
                and key.split(':')[-1] in ('alignment', 'first-interval-end-unaligned', 'first-interval-too-long', 'length')):
            # F13a (repaired in c3dda9e), should it return: the week start named in capitals is not the one the report uses
            key = 'reg:start-of-week:day-name-not-in-lower-case-ignored'
            desc = '--start-of-week %s does not configure that day; %s' % (case['sow_text'], desc)
        res.violations.append(dict(key=key, desc='%s (%s %s)' % (desc, case['expr'], opts), case=full, observed=observed, required=required))
    if case.get('sow_text'):
        res.count('reg:start-of-week-as-a-day-name%s' % ('' if case['sow_text'] == case['sow_text'].lower() else ':not-lower-case'))
    if plain is None:
        viol('reg:plain-report-failed', 'the unperiodised report failed', None, 'a report')
        return
    lab = 'reg:%s' % dur_label(case)
    if not case.get('group'):
        oracle_rows(case, rows, [(d, a) for d, a, _ in plain], lab, viol)
        return
    # --group-by payee: the groups partition the postings within the bounds, and each group's period rows
    # account for exactly that group's postings
    titles = [t for t, _ in impl[1]]
    payees = sorted({pp for _, _, pp in plain})
    if sorted(titles) != payees or len(set(titles)) != len(titles):
        viol('group-by:groups-are-not-the-payees', 'groups %s, payees of the postings within the bounds %s' % (titles, payees), titles, payees)
        return
    def gviol(key, desc, observed, required):
        # whatever the symptom (sum, a row of another group's month, a posting counted twice): one class
        viol('group-by:group-rows-differ-from-the-groups-postings', '[%s] %s' % (key, desc), observed, required)
    for t, grows in impl[1]:
        mine = [(d, a) for d, a, pp in plain if pp == t]
        before = len(res.violations)
        oracle_rows(case, grows, mine, lab, lambda key, desc, o, r: gviol(key, 'group %s: %s' % (t, desc), o, r) if key.split(':')[-1] in ('sum', 'posting-in-wrong-interval', 'posting-not-counted') else viol(key, 'group %s: %s' % (t, desc), o, r))
        if len(res.violations) > before:
            break


def check_period(res, case, impl, model_line):
    res.evaluations += 1
    res.traces += 1
    res.count('period:q=%s' % case['q'])
    res.count('period:form=%s' % form_of(case))
    full = dict(expr=case['expr'], q=case['q'], n=case['n'], fmt=case.get('fmt'), bfmt=case.get('bfmt'), **{'from': case['from'], 'to': case['to']})
    res.count('period:input-date-format=%s' % (case.get('fmt') or 'none'))
    body = model_line.split(' ', 1)[1]
    if impl[0] != 'OK':
        res.violations.append(dict(key='period:%s:report-failed:%s' % (dur_label(case), failure_class(impl)),
                                   desc='period %s fails: %s' % (case['expr'], str(impl[1:])[:200]), case=full,
                                   observed=str(impl)[:300], required='start, finish and sample intervals'))
    if body == 'ERR' or impl[0] != 'OK':
        if not (body == 'ERR' and impl[0] != 'OK'):
            res.disagreements.append(dict(name='C13/period-cmd', case=full, impl=str(impl)[:300], model=body[:300]))
        return
    m = re.fullmatch(r'start=(\S+) finish=(\S+) samples=(\S*) toks=(\S*)', body)
    # the lexer: the token kinds ledger lists against the model's (Model/PeriodExpr.v tokens_of_text)
    mtoks = m.group(4).split(',') + ['END_REACHED']
    if impl[5] != mtoks:
        res.disagreements.append(dict(name='C13/period-tokens', case=full, impl=str(impl[5])[:300], model=str(mtoks)[:300]))
    if case.get('shuffled') and (case['from'] is not None or case['to'] is not None):
        res.count('period:clauses-not-in-the-usual-order')
    if case['expr'] != case['expr'].lower():
        res.count('period:keyword-not-lower-case')
    ms = '-' if m.group(1) == '-' else short(nd(int(m.group(1))))
    mf = '-' if m.group(2) == '-' else short(nd(int(m.group(2))))
    msamp = []
    for p in (m.group(3).split(',') if m.group(3) else []):
        a, b = p.split(':')
        msamp.append((short(nd(int(a))), short(nd(int(b) - 1))))
    mdur = '%d %s%s' % (case['n'], QSING[case['q']], 's' if case['n'] > 1 else '')
    got = (impl[1], impl[2], impl[3], impl[4])
    want = (ms, mf, mdur, msamp)
    if got != want:
        res.disagreements.append(dict(name='C13/period-cmd', case=full, impl=str(got)[:400], model=str(want)[:400]))
    if len(impl[4]) >= 2:
        res.nontrivial.add('period ' + case['expr'])
    pc = dict(case, align=False)
    if case['from'] is None and case['to'] is not None and case['to'] <= dn(NOW):
        res.count('period:to-before-today')    # the period command anchors on today, which lies beyond `to`: no report does that
        return
    ivs = century_fix(impl[4])
    for key, desc in oracle_intervals(pc, ivs, True, 'period'):
        res.violations.append(dict(key=key, desc='%s (period %s)' % (desc, case['expr']), case=full,
                                   observed=[str(x) for x in ivs][:8], required='consecutive aligned intervals of one duration within the bounds'))
    if case['from'] is not None and ivs and ivs[0][0] != nd(case['from']):
        res.violations.append(dict(key='period:%s:first-start-not-from' % dur_label(case), desc='the first interval of %s starts at %s' % (case['expr'], ivs[0][0]),
                                   case=full, observed=str(ivs[0][0]), required=str(nd(case['from']))))


GRID_FROM = [None, (2020, 1, 1), (2020, 1, 8), (2020, 1, 29), (2020, 1, 30), (2020, 1, 31), (2020, 2, 28),
             (2020, 2, 29), (2020, 3, 1), (2020, 3, 2)]
GRID_TO = [None, (2020, 12, 31), (2021, 1, 1), (2021, 3, 1)]


def grid_journal(ctx):
    """a posting every third day from 2019-12-20 to 2021-03-15 plus every month end, month start and the leap day"""
    dates = set()
    d = datetime.date(2019, 12, 20)
    while d <= datetime.date(2021, 3, 15):
        dates.add(d)
        d += datetime.timedelta(days=3)
    for y, m in [(2019, 12)] + [(2020, m) for m in range(1, 13)] + [(2021, 1), (2021, 2)]:
        dates.add(datetime.date(y, m, calendar.monthrange(y, m)[1]))
        dates.add(datetime.date(y, m, 1))
    posts = [(d, 100 + 7 * i, PAYEES[(i * 7 + i // 5) % 3]) for i, d in enumerate(sorted(dates))]
    jn = dict(idx=-1, posts=posts, text=journal_text(posts, None), style='grid', path=ctx.path('grid.dat'), fmt=None)
    open(jn['path'], 'w').write(jn['text'])
    return jn


def grid_cases(rng):
    """the bounded-exhaustive stream: every duration 1-12 of every quantum and the named forms x from x to x
    week start {Sunday, Monday} x --align-intervals"""
    out = []
    for q in 'dwmqy':
        for n in range(1, 13):
            for f in GRID_FROM:
                for t in GRID_TO:
                    for sow in (0, 1):
                        for align in (False, True):
                            if align and f is None:
                                continue          # --align-intervals only matters with a from
                            c = dict(q=q, n=n, sow=sow, align=align, empty=(n + sow) % 2 == 0)
                            c['from'] = dn(datetime.date(*f)) if f else None
                            c['to'] = dn(datetime.date(*t)) if t else None
                            k = len(out)
                            c['group'] = (k % 11 == 0)
                            # the grid journal is written in %Y/%m/%d, which every run still reads; the bounds of
                            # two cases in three are written in an --input-date-format
                            set_format(rng, c, FORMATS[(k // 3) % len(FORMATS)] if k % 3 else None)
                            out.append(c)
    return out


def named_word_cases(rng):
    """every named duration word, spelled in lower, upper and mixed case, without bounds, with a from and with
    both bounds - in every run, so that each keyword of the lexer is exercised whatever the seed"""
    out = []
    for word, (q, n) in NAMED.items():
        for k, spell in enumerate([word, word.upper(), word.capitalize()]):
            for bounds in range(3):
                c = gen_case(rng, (q, n))
                if bounds == 0:
                    c['from'] = c['to'] = None
                elif bounds == 1:
                    c['to'] = None
                    if c['from'] is None:
                        c['from'] = dn(boundary_date(rng, 2019, 2023))
                c['form'] = spell
                c['expr'] = expr_text(rng, c)
                out.append(c)
    return out


def rejected_cases(rng):
    """expressions the parser has to REFUSE (the theorems every_zero_rejected, expression_read_clause_by_clause say
    so for the model): a zero length, a unit of the wrong number, a second from / to / in, a bound without its date,
    a word that is no keyword, an integer the lexer's unsigned short cannot hold.  [(text, days of its date words)]"""
    out = []
    a, b = sorted(dn(boundary_date(rng, 2019, 2024)) for _ in range(2))
    b = b + 1 if a == b else b
    da, db = nd(a).strftime('%Y/%m/%d'), nd(b).strftime('%Y/%m/%d')
    w = rng.choice(list(NAMED))
    for q in 'dwmqy':
        out.append(('%s 0 %s' % (kw(rng, 'every'), QNAME[q]), []))
        out.append(('every %s' % QNAME[q], []))                                   # the plural needs its integer
        out.append(('every %d %s' % (rng.randrange(1, 13), QSING[q]), []))         # the singular takes none
    out += [('every', []), ('every %d' % rng.randrange(1, 13), []), ('every every 2 days', []),
            ('every 65536 days', []), ('every %d weeks' % rng.randrange(65536, 100000), []),
            ('%s from %s since %s' % (w, da, db), [a, b]), ('from %s %s from %s' % (da, w, db), [a, b]),
            ('%s to %s until %s' % (w, da, db), [a, b]), ('until %s to %s %s' % (da, db, w), [a, b]),
            ('%s in %s in %s' % (w, da, db), [a, b]), ('%s from' % w, []), ('%s to' % w, []), ('%s in' % w, []),
            ('%s from %s' % (w, w), []), ('from to %s %s' % (da, w), [a]),
            ('fortnightly', []), ('%sx' % w, []), ('%s2' % w, []), ('semi%s' % w, []), ('every 2 fortnights', []),
            ('%s frmo %s' % (w, da), [a])]
    return out


def check_rejected(res, text, dates, impl, model_line):
    res.evaluations += 1
    res.traces += 1
    res.count('period:rejected-expression')
    body = model_line.split(' ', 1)[1]
    if impl[0] == 'OK' or body != 'ERR':
        res.disagreements.append(dict(name='C13/period-rejects', case=dict(expr=text, dates=dates),
                                      impl='accepted: ' + str(impl[1:5])[:300] if impl[0] == 'OK' else 'rejected: ' + str(impl[1:])[:200],
                                      model=body[:300]))
    elif failure_class(impl) not in ('period-syntax', 'error'):
        # a refusal is a message, not a crash or a hang
        res.violations.append(dict(key='period:rejected-expression:' + failure_class(impl), desc='period %s: %s' % (text, str(impl[1:])[:200]),
                                   case=dict(expr=text), observed=str(impl)[:300], required='an error message'))
    else:
        res.nontrivial.add('rejected ' + text)


def cases_for(ctx, rng, n_reg, n_period, exhaustive):
    regs, periods = named_word_cases(rng), named_word_cases(rng)
    combos = [(q, n) for q in 'dwmqy' for n in range(1, 13)]
    for i in range(n_period):
        ex = combos[i % len(combos)] if (exhaustive or i < len(combos)) else None
        c = gen_case(rng, ex)
        set_format(rng, c, rng.choice(FORMATS) if rng.random() < 0.5 else None)
        periods.append(c)
    for i in range(n_reg):
        ex = combos[i % len(combos)] if (exhaustive and i % 2 == 0) or i < len(combos) else None
        regs.append(gen_case(rng, ex))
    return regs, periods


def run(ctx, n_override=None):
    t_run = time.time()
    rng = ctx.rng
    res = lib.Result()
    res.rule = ('period expressions (named forms, `every N units` with N in 1..12, `every unit`; from/since and to/until '
                'bounds on month ends, leap days, period boundaries +-1 and random dates; week starts 0-6; --align-intervals, '
                '--empty; --start-of-week as a number or a day name; clauses in any order, keywords in any letter case; expressions that must be refused; --input-date-format with month names, other field orders, separators and two-digit years, the bounds '
                'and the journal dates written in it; --group-by payee) x journals of 1-120 postings dated over 2019-2025; '
                '`ledger period` output and `reg --period` '
                'rows compared with the model; non-trivial = at least two intervals reported; distinct by expression, '
                'journal and options')
    n_reg = n_override or ctx.scale(1800, 12000)
    n_period = ctx.scale(500, 3000)
    n_j = ctx.scale(30, 200)
    exhaustive = ctx.tier == 'thorough'
    journals = []
    for j in range(n_j):
        jn = gen_journal(rng, j)
        jn['path'] = ctx.path('j%d.dat' % j)
        open(jn['path'], 'w').write(jn['text'])
        res.count('journal:' + jn['style'])
        journals.append(jn)
    regs, periods = cases_for(ctx, rng, n_reg, n_period, exhaustive)
    # a directed stream: bounds that hug the postings of the journal and the boundaries of its periods
    jobs = []
    for i, c in enumerate(regs):
        jn = journals[rng.randrange(n_j)]
        if rng.random() < 0.25 and jn['posts']:
            d = rng.choice(jn['posts'])[0]
            k = rng.randrange(4)
            if k == 0:
                c['from'] = dn(d)
            elif k == 1:
                c['to'] = dn(d) + rng.choice([0, 1])
            elif k == 2:
                c['from'] = dn(d) - rng.choice([0, 1, 7, 31])
                c['to'] = None
            else:
                c['from'] = None
            if c['from'] is not None and c['to'] is not None and c['to'] <= c['from']:
                c['to'] = c['from'] + rng.choice([1, 2, 45])
        c['group'] = rng.random() < 0.12
        # the journal's dates are written in its own format; the run names it and the bounds are written in it too
        set_format(rng, c, jn['fmt'])
        jobs.append((c, jn))
    grid = grid_cases(rng)
    if not exhaustive:
        grid = rng.sample(grid, ctx.scale(400, len(grid)))
    gj = grid_journal(ctx)
    journals_by_idx = {jn['idx']: jn for jn in journals}
    journals_by_idx[-1] = gj
    for c in grid:
        jobs.append((c, gj))
    res.count('grid-cases', len(grid))
    with ThreadPoolExecutor(max_workers=min(8, lib.NCPU)) as ex:
        impl_reg = list(ex.map(lambda cj: run_reg(cj[0], cj[1]['path']), jobs))
        plain_keys = sorted({(jn['idx'], c['from'], c['to']) for c, jn in jobs}, key=str)
        plain_vals = list(ex.map(lambda k: run_plain({'from': k[1], 'to': k[2], 'fmt': journals_by_idx[k[0]]['fmt']},
                                                     journals_by_idx[k[0]]['path']), plain_keys))
        impl_period = list(ex.map(run_period, periods))
        rejected = rejected_cases(rng)
        impl_rejected = list(ex.map(lambda td: run_period(dict(expr=td[0])), rejected))
    lib.log('C13: implementation runs done %.0fs' % (time.time() - t_run))
    plain = dict(zip(plain_keys, plain_vals))
    lines = []
    for i, (c, jn) in enumerate(jobs):
        lines.append(model_reg_line('r%d' % i, c, jn['posts']))
    for i, c in enumerate(periods):
        lines.append(model_period_line('p%d' % i, c))
    for i, (text, dates) in enumerate(rejected):
        lines.append(lib.sx(['period', 'x%d' % i, 'd', 1, '-', '-', dn(NOW), b'%Y/%m/%d', NOW.year, text.encode(), list(dates)]))
    out = lib.run_model('C13', lines)
    lib.log('C13: model done %.0fs' % (time.time() - t_run))
    for i, (c, jn) in enumerate(jobs):
        check_reg(res, c, jn, impl_reg[i], plain[(jn['idx'], c['from'], c['to'])], parse_model_rows(out[i]))
    for i, c in enumerate(periods):
        check_period(res, c, impl_period[i], out[len(jobs) + i])
    for i, (text, dates) in enumerate(rejected):
        check_rejected(res, text, dates, impl_rejected[i], out[len(jobs) + len(periods) + i])
    lib.log('C13: checks done %.0fs' % (time.time() - t_run))
    calendar_spot(ctx, rng, res)
    return res


def calendar_spot(ctx, rng, res):
    """the model's calendar against python datetime (not an observable of ledger; a sanity tie for the model)"""
    n = ctx.scale(400, 5000)
    lines, want = [], []
    for i in range(n):
        d = boundary_date(rng, 1900, 2200) if rng.random() < 0.6 else datetime.date(1900, 1, 1) + datetime.timedelta(days=rng.randrange(120000))
        if i % 2 == 0:
            lines.append(lib.sx(['civil', 'c%d' % i, dn(d)]))
            want.append('c%d %d-%d-%d %d' % (i, d.year, d.month, d.day, py_wday(d)))
        else:
            q, k = rng.choice('dwmqy'), rng.randrange(1, 13)
            lines.append(lib.sx(['add', 'a%d' % i, q, k, dn(d)]))
            want.append('a%d %d' % (i, dn(py_add(d, q, k))))
    out = lib.run_model('C13', lines)
    for l, w in zip(out, want):
        res.evaluations += 1
        if l != w:
            res.disagreements.append(dict(name='C13/model-calendar-vs-python', case=w, impl=w, model=l))
    res.count('calendar-spot', n)


def search(ctx, broken):
    import random
    for s in range(4):
        ctx.rng = random.Random('C13-search-%d-%d' % (ctx.seed, s))
        r = run(ctx, n_override=4000)
        if r.violations:
            return r.violations
    return []


def replay(ctx, obj):
    res = lib.Result()
    case = obj.get('case') or {}
    if 'journal' in case:
        path = ctx.path('replay.dat')
        open(path, 'w').write(case['journal'])
        c = dict(case)
        impl = run_reg(c, path)
        plain = run_plain(c, path)
        jn = dict(idx=0, text=case['journal'], posts=[])
        r2 = lib.Result()
        # the oracle only: hand check_reg the implementation's own rows as "model"
        if impl[0] != 'OK':
            model = impl
        elif c.get('group'):
            model = ('OK', [[(s, e, a, 0 if acct == '<None>' else 1) for s, e, a, acct in rows] for _, rows in impl[1]])
        else:
            model = ('OK', [(s, e, a, 0 if acct == '<None>' else 1) for s, e, a, acct in impl[1]])
        check_reg(r2, c, jn, impl, plain, model)
        print('replay: %s reg --period %r%s -> %s' % (' '.join(fmt_args(c)), case['expr'], ' --group-by payee' if c.get('group') else '', str(impl)[:600]))
        res.violations = [v for v in r2.violations if v['key'] == obj.get('key')] or r2.violations
    elif 'expr' in case:
        impl = run_period(case)
        print('replay: %s period %r -> %s' % (' '.join(fmt_args(case)), case['expr'], str(impl)[:600]))
        if impl[0] != 'OK':
            res.violations.append(dict(key='period:report-failed:' + failure_class(impl), desc='period %s fails: %s' % (case['expr'], str(impl[1:])[:200])))
        if impl[0] == 'OK':
            ivs = century_fix(impl[4])
            for key, desc in oracle_intervals(dict(case, align=False, sow=0), ivs, True, 'period'):
                res.violations.append(dict(key=key, desc=desc))
            if case.get('from') is not None and ivs and ivs[0][0] != nd(case['from']):
                res.violations.append(dict(key='period:first-start-not-from', desc='first interval starts at %s' % ivs[0][0]))
    return res
