"""C04 - amounts print at commodity precision, correctly rounded, and re-read unchanged.
Correspondence: journals whose posting amounts are written in every style; ledger's
`%(amount)` text, exact rational and derived amounts (a/7, a*0.333, which carry more internal
precision than the commodity displays, so that rounding is exercised) compared byte for byte
with the extracted model (Model/AmountText.v: reader, pool learning, printer; Base/Round.v: MPFR
rounding model).  Oracle (from the property text, Fractions): number of decimals = the largest
number of decimals written for the commodity, |shown - exact| <= half a unit in the last place,
one consistent style per commodity, and the printed text re-read by ledger is the same quantity.
A second stream runs journals written with decimal commas throughout under --decimal-comma (Model/DecimalComma.v, whose
reader/printer conditions are regenerated from amount.cc into Gen/DecimalComma.v): same comparison, same oracle, and the
re-read - with the option - must be exact for every number of decimals (3, 6, 9, 12 included: the class F21 is about)."""
import re
from fractions import Fraction as F
import lib

META = dict(
    id='C04',
    level='proof',
    technique='Coq proof (half-ulp bound of the two-stage MPFR rounding model, exact half-even roundto, pool learning is max/or and order-free, digit-text round trip) + differential correspondence of reader/printer against ledger',
    level_text='Theorems in coq/Properties/Properties_C04.v: for every rational n/d and display precision p (hypothesis 10^p <= 2^(bits d + 767), true of every p <= 230) the integer ledger prints at p decimals is within half a unit of n/d*10^p (never a truncation); in_place_roundto is exact round-half-even; the display precision rule; what the pool learns is the max of the decimals and the or of the style flags of the amounts seen, independent of their order; the quantity reader recovers the integer and the precision from every plain decimal text the printer emits. The model (reader, learning, printer incl. grouping, decimal comma, quoting, zero trimming) is tied to the code by byte-for-byte comparison of thousands of printed amounts and their exact rationals, and the invalid_chars table and extend_by_digits are regenerated from the source on every run. --decimal-comma: the three places where the option enters the reader and the printer are transcribed from amount.cc on every run (Gen/DecimalComma.v); with them, reader and printer decide alike in every session, every accepted amount teaches the style, and a decimal-comma text (thousands periods or not, ANY number of decimals) is read back as exactly the number printed once the style is known - by the option or by the commodity (reread_in_the_same_session); journals written with decimal commas are run with the option and compared byte for byte.',
    level_note='Trusted: Coq kernel; the MPFR model (mpfr_div at bits(n)+bits(d)+768 bits RNDN then %.*RNf half-even) is modelled, validated by the correspondence on ties; extraction/driver/python harness for the correspondence. The print->parse round trip is proved for plain decimal texts (digits and point); thousands marks, decimal comma, quoted symbols and symbol placement are covered by the correspondence and the re-read oracle only (stated as partial). Lot annotations are not modelled here.',
    design_ref='DESIGN.md section 7 C04, sections 6.3-6.4',
    assumptions=['commodity symbols avoid s/m/h (predefined time units)',
                 '--decimal-comma is exercised without --percent (report.cc switches the default off again there) and without --time-colon',
                 'no backslash in commodity symbols (the stream reader takes it as an escape, the in-memory one does not)'],
)

SYMBOLS = ['$', 'EUR', 'AAA', '€', '₹', 'Ünit', 'M&M 2', 'K-9', 'x y', 'GBP', 'BTC', 'q1', '£', 'A1',
           'oranges', 'notes', 'iftar']      # bare symbols that begin with a reserved word of the scanner (or, not, if)
# symbols that spell, or begin with, a reserved word: the former must come back in quotes, the latter bare
WORDS = ['and', 'div', 'else', 'false', 'if', 'or', 'not', 'true', 'andy', 'dividends', 'elsewhere', 'falsetto', 'ifs', 'orb',
         'nothing', 'truest', 'oranges', 'android']


def needs_quote(sym):
    """must this symbol be written in quotes for the reader to take it whole?  (every character the reader stops at)"""
    return (any(ch in ' \t\n\r0123456789.,;:?!-+*/^&|=<>{}[]()@~\x7f' or ch == '"' for ch in sym) or
            sym in ('and', 'div', 'else', 'false', 'if', 'or', 'not', 'true'))


class Written:
    """one amount as written in the journal"""
    def __init__(self, rng, sym, side, sep, thousands, dcomma, maxdec):
        nint = rng.choice([1, 1, 2, 3, 4, 5, 7, 9, 12, 15])
        dec = rng.randrange(0, maxdec + 1)
        ip = str(rng.randrange(1, 10)) + ''.join(rng.choice('0123456789') for _ in range(nint - 1))
        if rng.random() < 0.1:
            ip = '0'
        fp = ''.join(rng.choice('0123456789') for _ in range(dec))
        if rng.random() < 0.15 and dec:
            fp = fp[:-1] + rng.choice('05')
        self.neg = rng.random() < 0.3
        self.value = F(int(ip + fp), 10 ** dec) * (-1 if self.neg else 1)
        self.dec = dec
        self.sym = sym
        ips = ip
        self.has_marks = bool(thousands and len(ip) > 3)
        if thousands and len(ip) > 3:
            groups = []
            while ips:
                groups.insert(0, ips[-3:])
                ips = ips[:-3]
            ips = ('.' if dcomma else ',').join(groups)
        q = ips + ((',' if dcomma else '.') + fp if dec else '')
        s = '"%s"' % sym if (sym and needs_quote(sym)) else (sym or '')
        sign = '-' if self.neg else ''
        if not sym:
            self.text = sign + q
        elif side == 'pre':
            if self.neg and rng.random() < 0.5:
                self.text = s + (' ' if sep else '') + '-' + q      # $-5.00
            else:
                self.text = sign + s + (' ' if sep else '') + q      # -$5.00
        else:
            self.text = sign + q + (' ' if sep else '') + s


class WS(list):
    """the written amounts of a journal; fmt = (position, Written) when a `commodity SYM / format AMOUNT` directive stands
    before the posting at that position; decl = (position, symbol, sub-directives) for a declaration without format"""
    fmt = None
    decl = None


def gen_journal(rng, n):
    """n written amounts over 1-3 commodities, each commodity with a (mostly) consistent style"""
    nsym = rng.choice([1, 1, 2, 3])
    syms = rng.sample(SYMBOLS, nsym)
    styles = {}
    for s in syms:
        dcomma = rng.random() < 0.25
        styles[s] = dict(side=rng.choice(['pre', 'suf']), sep=rng.random() < 0.5, dcomma=dcomma,
                         thousands=rng.random() < 0.5, maxdec=rng.choice([0, 2, 2, 3, 4, 6, 8, 12]))
    out = []
    seen = set()
    for i in range(n):
        if rng.random() < 0.07:
            w = Written(rng, None, 'pre', False, False, False, rng.choice([0, 2, 5]))
        else:
            s = rng.choice(syms)
            st = styles[s]
            # a decimal-comma commodity must be introduced unambiguously: thousands marks only with decimals
            if st['dcomma'] and s not in seen:
                # "1,234" / "1.234" are ambiguous until the commodity is known to use a decimal comma:
                # introduce it with one or two decimals and no thousands marks
                w = Written(rng, s, st['side'], st['sep'], False, True, 2)
                while w.dec not in (1, 2):
                    w = Written(rng, s, st['side'], st['sep'], False, True, 2)
            else:
                w = Written(rng, s, st['side'], st['sep'], st['thousands'] and rng.random() < 0.8, st['dcomma'], st['maxdec'])
            seen.add(s)
            w.dcomma = st['dcomma']
        out.append(w)
    out = WS(out)
    # a format directive for one of the commodities, in a style of its own, in front or somewhere inside: what was learned
    # up to and including it is what is displayed, whatever style and decimals the later postings are written in
    cands = [s for s in syms if not styles[s]['dcomma']]
    if cands and rng.random() < 0.25:
        s = rng.choice(cands)
        f = Written(rng, s, rng.choice(['pre', 'suf']), rng.random() < 0.5, rng.random() < 0.5, False, rng.choice([0, 2, 2, 3, 6]))
        f.dcomma = False
        out.fmt = (0 if rng.random() < 0.6 else rng.randrange(0, n), f)
    elif rng.random() < 0.25:
        # a commodity declared WITHOUT a format (nomarket, a note): the declaration fixes nothing - decimals and style are
        # learned from the postings as if it were not there
        out.decl = (0 if rng.random() < 0.7 else rng.randrange(0, n), rng.choice(syms), rng.sample(['nomarket', 'note held for the children', 'note x'], rng.choice([1, 1, 2])))
    return out


def gen_symbol_sweep(rng):
    """one commodity per ASCII character: Q<c>Z, always written in quotes (which the reader accepts for any symbol); what
    ledger prints for it must be read back as the same commodity - with quotes wherever the reader would stop at <c>"""
    out = []
    chars = [chr(c) for c in range(0x21, 0x80) if chr(c) not in '"\\|']       # a backslash is an escape to the reader (see assumptions); | separates the harness's fields
    rng.shuffle(chars)
    for ch in chars:
        w = Written(rng, 'A', rng.choice(['pre', 'suf']), rng.random() < 0.5, False, False, 2)
        sym = 'Q%sZ' % ch
        w.text = w.text.replace('A', '"%s"' % sym)
        w.sym = sym
        w.dcomma = False
        out.append(w)
    for sym in WORDS:
        w = Written(rng, 'A', rng.choice(['pre', 'suf']), rng.random() < 0.5, False, False, 2)
        w.text = w.text.replace('A', '"%s"' % sym)
        w.sym = sym
        w.dcomma = False
        out.append(w)
    return out


def gen_journal_dc(rng, n):
    """a journal meant to be read and reported with --decimal-comma: every amount, commodity-less ones included, is written
    with a decimal comma (and periods as thousands marks) from the first posting on - the option makes `1,234` and `1.234`
    unambiguous - and the numbers of decimals favour 3, 6, 9, 12 (the class of F21)"""
    nsym = rng.choice([1, 2, 2, 3])
    syms = rng.sample(SYMBOLS, nsym)
    styles = {}
    for s in syms:
        styles[s] = dict(side=rng.choice(['pre', 'suf']), sep=rng.random() < 0.5, dcomma=True,
                         thousands=rng.random() < 0.6, maxdec=rng.choice([0, 2, 3, 3, 4, 6, 6, 9, 12]))
    out = []
    for i in range(n):
        if rng.random() < 0.12:
            w = Written(rng, None, 'pre', False, False, True, rng.choice([0, 2, 3, 5]))
        else:
            s = rng.choice(syms)
            st = styles[s]
            w = Written(rng, s, st['side'], st['sep'], st['thousands'] and rng.random() < 0.8, True, st['maxdec'])
        w.dcomma = True
        out.append(w)
    out = WS(out)
    if rng.random() < 0.25:
        s = rng.choice(syms)
        f = Written(rng, s, rng.choice(['pre', 'suf']), rng.random() < 0.5, rng.random() < 0.5, True, rng.choice([0, 2, 3, 6]))
        f.dcomma = True
        out.fmt = (0 if rng.random() < 0.6 else rng.randrange(0, n), f)
    return out


class Raw:
    """a directed amount text for the reader alone (correspondence only: accepted or refused, and as what)"""
    raw = True
    sym = None
    dcomma = False
    dec = 0
    value = None

    def __init__(self, text):
        self.text = text


# periods and commas in every arrangement the right-to-left scan tells apart; each is read by a session with and one
# without --decimal-comma
DIRECTED = ['1.23 EUR', '1,23 EUR', '1.234,5 EUR', '1,234.5 EUR', '1.234.567 EUR', '1,234,567 EUR', '1.23.456 EUR',
            '1,23,456 EUR', '1.234,567.8 EUR', '1,234.567,8 EUR', '12.345 EUR', '12,345 EUR', '1.2345 EUR', '1,2345 EUR',
            '0,5', '0.5', '1.000', '1,000', '1.000,000', '1,000.000', '$-1.234,50', '-1.234,50 $', '1,234,567.89 EUR',
            '1.234.567,89 EUR', '1,,2 EUR', '1..2 EUR', '1.,2 EUR', '1,.2 EUR', '12.34,567 EUR', '12,34.567 EUR',
            '310,200000 EUR', '310.200000 EUR', '1.234,567890123 EUR', '1,5 EUR', '1.5 EUR', '1.234 "K-9"', '"M&M 2" 1,234']


def render(ws):
    lines = []
    fmt = getattr(ws, 'fmt', None)
    decl = getattr(ws, 'decl', None)
    for i, w in enumerate(ws):
        if decl and decl[0] == i:
            q = '"%s"' % decl[1] if needs_quote(decl[1]) else decl[1]
            lines += ['commodity %s' % q] + ['    ' + d for d in decl[2]] + ['']
        if fmt and fmt[0] == i:
            q = '"%s"' % fmt[1].sym if needs_quote(fmt[1].sym) else fmt[1].sym
            lines += ['commodity %s' % q, '    format %s' % fmt[1].text, '']
        lines += ['2020/01/%02d p%d' % (1 + i % 28, i), '    Assets:A%d    %s%s' % (i, w.text, getattr(w, 'cost_text', '')), '    Equity:Open', '']
    return '\n'.join(lines)


def add_costs(rng, ws):
    """some postings get a cost in another commodity of the journal, written with MORE decimals than that commodity's posting
    amounts (and sometimes as a value expression `@ (1 * AMOUNT)`): a cost is not a posting amount and teaches the commodity
    neither decimals nor style"""
    plain = [w for w in ws if w.sym and not needs_quote(w.sym) and not getattr(w, 'dcomma', False) and not getattr(w, 'has_marks', False)]
    for w in ws:
        if not w.sym or w.value == 0 or rng.random() > 0.15:
            continue
        cands = [c for c in plain if c.sym != w.sym]
        if not cands:
            continue
        c = rng.choice(cands)
        digits = str(rng.randrange(1, 99999)) + '.' + ''.join(rng.choice('0123456789') for _ in range(rng.randrange(3, 9))) + rng.choice('123456789')
        pre = c.text.lstrip('-').startswith(c.sym)
        sep = ' ' if (' ' in c.text.strip()) else ''
        amt = (c.sym + sep + digits) if pre else (digits + sep + c.sym)
        form = rng.randrange(4)
        op = rng.choice(['@', '@@'])
        w.cost_text = ' %s %s' % (op, [amt, '(1 * %s)' % amt, '(%s / 1)' % amt, '(%s)' % amt][form])
    return ws


# strip(): a posting bought at a cost carries a computed lot annotation, which is not this property's subject
A_ = 'strip(amount)'
FMT = ('%(account)|%(quoted(' + A_ + '))|%(verif_rational(' + A_ + '))|%(quoted(' + A_ + '/7))|%(verif_rational(' + A_ + '/7))|%(quoted(' + A_ + '*0.333))|'
       '%(verif_rational(' + A_ + '*0.333))|%(justify(' + A_ + ', 0, 0, false, false))\\n')      # the last field: as report columns show it


FMT_DC = FMT.replace('0.333', '0,333')      # under --decimal-comma the expression reader takes 0.333 for 333


def hexs(s):
    return s.encode('utf-8', 'surrogateescape').hex()


def parse_rows(out):
    rows = {}
    for line in out.decode('utf-8', 'surrogateescape').split('\n'):
        m = re.match(r'Assets:A(\d+)\|(.*)$', line)
        if not m:
            continue
        f = m.group(2).split('|')
        # quoted() wraps in "..." and escapes " as \"
        vals = []
        for x in f:
            if x.startswith('"') and x.endswith('"') and not x.startswith('"A:'):
                x = x[1:-1].replace('\\"', '"')
            vals.append(x)
        rows[int(m.group(1))] = vals
    return rows


def rat_of(r):
    m = re.fullmatch(r'A:([0-9a-f~]*):(-?\d+)/(\d+):(\d+):([01])', r)
    return (bytes.fromhex(m.group(1)).decode('utf-8', 'replace'), F(int(m.group(2)), int(m.group(3))), int(m.group(4))) if m else None


def shown_number(text, sym, dcomma):
    """strip symbol and marks from a printed amount -> (Fraction, decimals shown)"""
    t = text.replace('"%s"' % sym, '').replace(sym, '') if sym else text
    t = t.strip()
    if dcomma:
        t = t.replace('.', '').replace(',', '.')
    else:
        t = t.replace(',', '')
    if not re.fullmatch(r'-?\d+(\.\d+)?', t):
        return None
    dec = len(t.split('.')[1]) if '.' in t else 0
    return F(t), dec


def run(ctx, n_override=None):
    rng = ctx.rng
    res = lib.Result()
    res.rule = ('journals of 20-60 posting amounts over 1-3 commodities drawn from 14 symbols (plain, non-ASCII, quoted with '
                'space/digits/punctuation) x prefix/suffix x separated x thousands marks x decimal comma x 0-12 decimals x '
                '1-15 integer digits x sign; each amount also divided by 7 and multiplied by 0.333 so that the internal '
                'precision exceeds the display precision; non-trivial = the reader accepted it and either rounding was needed '
                '(shown text differs from the exact value) or a mark/quote/decimal-comma feature is present; distinct by text. '
                'A second stream of journals is written with decimal commas throughout (commodity-less amounts too, 3/6/9/12 '
                'decimals favoured) and read, reported and re-read with --decimal-comma; 37 directed arrangements of periods '
                'and commas are read one per journal with and without the option')
    njournals = n_override or ctx.scale(120, 500)
    journals = []
    for j in range(njournals):
        ws = gen_symbol_sweep(rng) if j % 40 == 7 else gen_journal(rng, rng.randrange(20, 60))
        if j % 3 == 1:
            add_costs(rng, ws)
        journals.append(ws)
    check_journals(ctx, res, journals, 'j', False)
    plain_totals(ctx, rng, res)
    # --decimal-comma: journals written, read, reported and re-read with the option (generated after the streams above so
    # that those keep their cases seed for seed)
    ndc = max(4, n_override // 5) if n_override else ctx.scale(24, 120)
    check_journals(ctx, res, [gen_journal_dc(rng, rng.randrange(15, 45)) for _ in range(ndc)], 'd', True)
    # directed arrangements of periods and commas, one amount per journal, each in a session with and without the option
    for dc in (False, True):
        check_journals(ctx, res, [WS([Raw(t)]) for t in DIRECTED], 'r' if dc else 'q', dc)
    return res


def check_journals(ctx, res, journals, prefix, dc):
    """correspondence and oracle on a list of journals; dc: the session runs with --decimal-comma"""
    model_lines = []
    for j, ws in enumerate(journals):
        items = [w.text.encode('utf-8') for w in ws]
        if getattr(ws, 'fmt', None):
            items.insert(ws.fmt[0], ['fmt', ws.fmt[1].text.encode('utf-8')])
            res.count(('decimal-comma-option:' if dc else '') + 'format-directive:' + ('in-front' if ws.fmt[0] == 0 else 'inside'))
        if getattr(ws, 'decl', None):
            res.count('commodity-declared-without-format:' + '+'.join(d.split(' ')[0] for d in ws.decl[2]))
        model_lines.append(lib.sx(['journal-dc' if dc else 'journal', '%s%d' % (prefix, j)] + items))
    opt = ['--decimal-comma'] if dc else []
    mout = []
    for k in range(0, len(model_lines), 60):          # the extracted MPFR model works on 800-bit integers: keep batches small
        mout += lib.run_model('C04', model_lines[k:k + 60], timeout=1200)
    model = {}
    for l in mout:
        parts = l.split(' ', 2)
        model[(parts[0], int(parts[1]))] = parts[2]
    reread_jobs = []
    for j, ws in enumerate(journals):
        path = ctx.path('%s%d.dat' % (prefix, j % 8))
        open(path, 'w', encoding='utf-8').write(render(ws))
        st, out, err = lib.run_ledger(['-f', path] + opt + ['reg', '^Assets', '--empty', '--format', FMT_DC if dc else FMT])
        rows = parse_rows(out)
        errtxt = err.decode('utf-8', 'replace')
        bad_lines = set(int(x) for x in re.findall(r'line (\d+):', errtxt))
        # what the oracle needs per commodity: max decimals written among ACCEPTED amounts
        cp, dcs, marks = {}, {}, set()
        fmt = getattr(ws, 'fmt', None)
        for i, w in enumerate(ws):
            if fmt and fmt[0] == i:
                cp[fmt[1].sym] = max(cp.get(fmt[1].sym, 0), fmt[1].dec)
                if getattr(fmt[1], 'has_marks', False):
                    marks.add(fmt[1].sym)
            if fmt and i >= fmt[0] and w.sym == fmt[1].sym:
                continue            # written after the directive: teaches nothing
            if i in rows and w.sym:
                cp[w.sym] = max(cp.get(w.sym, 0), w.dec)
                if getattr(w, 'has_marks', False):
                    marks.add(w.sym)
        printed = []
        for i, w in enumerate(ws):
            res.evaluations += 1
            key = ('%s%d' % (prefix, j), i)
            m = model.get(key, 'MISSING')
            if i not in rows:
                impl = 'E'
                res.count(('decimal-comma-option:' if dc else '') + 'impl:rejected')
            else:
                r = rows[i]
                impl = '|'.join([hexs(r[0]), r[1], hexs(r[2]), r[3], hexs(r[4]), r[5], hexs(r[6])])
                res.count(('decimal-comma-option:' if dc else '') + 'impl:printed')
            res.traces += 1
            if impl != m:
                res.disagreements.append(dict(name='C04/print' + ('-decimal-comma' if dc else ''), case=w.text, journal=render(ws) if len(ws) < 3 else path, impl=impl, model=m))
            if len(res.samples) < 5 and i in rows and w.sym and w.dec:
                res.samples.append(dict(written=w.text, printed=rows[i][0], exact=rows[i][1], div7=rows[i][2]))
            if i not in rows or getattr(w, 'raw', False):
                continue
            # ---- oracle on ledger's own output
            r = rows[i]
            for k, (txt, rat) in enumerate([(r[0], r[1]), (r[2], r[3]), (r[4], r[5])]):
                rr = rat_of(rat)
                if rr is None:
                    continue
                sym, exact, prec = rr
                if k == 0 and exact != w.value:
                    res.violations.append(dict(key='read:wrong-quantity', desc='%r read as %s, written value %s' % (w.text, exact, w.value),
                                               case=dict(journal=render(ws), options=opt), observed=str(exact), required=str(w.value)))
                if not w.sym:
                    # with the option a commodity-less amount is written with a decimal comma too: it must denote the
                    # quantity exactly (it is shown with its own decimals) and is re-read below
                    if dc and k == 0:
                        sn = shown_number(txt, '', True)
                        if sn is None or sn[0] != exact:
                            res.violations.append(dict(key='print:commodity-less-under-decimal-comma', desc='%r shown for the commodity-less %s in a --decimal-comma session' % (txt, exact),
                                                       case=dict(journal=render(ws), options=opt), observed=txt, required='the exact quantity, written with a decimal comma'))
                        else:
                            printed.append((i, txt, exact, ''))
                            if ',' in txt:
                                res.nontrivial.add('dc|' + txt + '|' + rat)
                    continue
                sn = shown_number(txt, w.sym, w.dcomma)
                if sn is None:
                    res.violations.append(dict(key='print:unreadable', desc='printed %r' % txt, case=dict(journal=render(ws), options=opt), observed=txt, required='an amount'))
                    continue
                shown, dec = sn
                want_dec = cp[w.sym]
                if dec != want_dec:
                    res.violations.append(dict(key='print:decimals', desc='%r shown with %d decimals, commodity precision is %d' % (txt, dec, want_dec),
                                               case=dict(journal=render(ws), options=opt), observed=txt, required='%d decimals' % want_dec))
                if abs(shown - exact) * 2 > F(1, 10 ** want_dec):
                    res.violations.append(dict(key='print:not-nearest', desc='%r shown for exact %s: off by more than half a unit' % (txt, exact),
                                               case=dict(journal=render(ws), options=opt), observed=txt, required='within 1/2 ulp of %s' % exact))
                # learned style: a commodity written with thousands marks groups its integer digits in threes
                if w.sym in marks:
                    body = re.sub(r'[^0-9.,]', '', txt.replace('"%s"' % w.sym, '').replace(w.sym, ''))
                    ip = body.split(',' if w.dcomma else '.')[0] if (want_dec and ((',' if w.dcomma else '.') in body)) else body
                    m_ = '.' if w.dcomma else ','
                    if not re.fullmatch(r'\d{1,3}(%s\d{3})*' % re.escape(m_), ip):
                        res.violations.append(dict(key='print:grouping', desc='%r: the integer part %r is not grouped in threes' % (txt, ip),
                                                   case=dict(journal=render(ws), options=opt), observed=txt, required='thousands marks every three digits'))
                elif not getattr(w, 'dcomma', False):
                    body = re.sub(r'[^0-9.,]', '', txt.replace('"%s"' % w.sym, '').replace(w.sym, ''))
                    if ',' in body:
                        res.violations.append(dict(key='print:marks-not-learned', desc='%r: thousands marks although no amount that teaches %s was written with them' % (txt, w.sym),
                                                   case=dict(journal=render(ws), options=opt), observed=txt, required='no thousands marks'))
                if shown != exact or any(c in txt for c in '",') or (k == 0 and len(w.text) > 12):
                    res.nontrivial.add(('dc|' if dc else '') + txt + '|' + rat)
                if k == 0:
                    if shown == exact:      # the re-read clause is about amounts printed at full precision: below a precision fixed by a
                        printed.append((i, txt, exact, w.sym))      # format directive the display rounds, and that text is another quantity
                    # report columns (justify(), the default bal/reg formats) may drop the quotes of an unusual symbol, but only
                    # where the text stays unambiguous: the symbol set apart from the number by a space and free of spaces itself
                    col = r[6]
                    if col != txt:
                        res.count('column:quotes-elided')
                        ok = (needs_quote(w.sym) and ' ' not in w.sym and col == txt.replace('"%s"' % w.sym, w.sym)
                              and (col.endswith(' ' + w.sym) or col.startswith(w.sym + ' '))) or (col == '0' and shown == 0)
                        if not ok:
                            res.violations.append(dict(key='column:quotes-dropped', desc='a report column shows %r for %r: not the learned style, and no longer denotes %s %s' % (col, txt, exact, w.sym),
                                                       case=dict(journal=render(ws), options=opt), observed=col, required=txt))
        reread_jobs.append((j, printed, cp))
    # ---- re-read oracle: ledger must accept its own full-precision text and get the same quantity
    for j, printed, cp in reread_jobs[:ctx.scale(40, 400)]:
        if not printed:
            continue
        lines = []
        for i, txt, exact, sym in printed:
            lines += ['2020/01/01 p%d' % i, '    Assets:A%d    %s' % (i, txt), '    Equity:Open', '']
        path = ctx.path('reread.dat')
        open(path, 'w', encoding='utf-8').write('\n'.join(lines))
        st, out, err = lib.run_ledger(['-f', path] + opt + ['reg', '^Assets', '--empty', '--format', '%(account)|%(verif_rational(amount))\\n'])
        got = {}
        for line in out.decode('utf-8', 'replace').split('\n'):
            m = re.match(r'Assets:A(\d+)\|(.*)$', line)
            if m:
                got[int(m.group(1))] = rat_of(m.group(2))
        for i, txt, exact, sym in printed:
            res.evaluations += 1
            g = got.get(i)
            if g is None or g[1] != exact or g[0] != sym:
                # F21: one misread decimal-comma amount also teaches the commodity the wrong style, after
                # which later amounts of this journal are rejected and ledger prints no report at all
                ambiguous = any(c > 0 and c % 3 == 0 and re.search(r',\d{%d}(\D|$)' % c, t2) is not None and s2 == sy
                                for (_, t2, _, s2) in printed for sy, c in cp.items())
                res.violations.append(dict(key='reread:changed-under-decimal-comma' if dc else 'reread:decimal-comma-precision-multiple-of-3' if ambiguous else 'reread:changed', desc='printed %r re-reads as %s, was %s %s' % (txt, g, exact, sym),
                                           case=dict(journal='\n'.join(lines), options=opt), observed=str(g), required='%s %s' % (exact, sym)))




def plain_totals(ctx, rng, res):
    """sums of commodity-less amounts (counts, units, plain numbers): a total is displayed with as many decimals as its most
    precise summand, so what is printed for it - the register's amount and running total, the balance - denotes exactly the
    sum, whatever the order the amounts came in"""
    for j in range(ctx.scale(25, 150)):
        n = rng.randrange(2, 9)
        vals = []
        lines = []
        for i in range(n):
            dec = rng.choice([0, 0, 1, 2, 3, 5])
            q = F(rng.randrange(-99999, 99999), 10 ** dec)
            t = ('%.' + str(dec) + 'f') % float(abs(q)) if dec else str(abs(q.numerator))
            # the exact decimal text (floats are only used for widths above; rebuild from integers)
            m = abs(q.numerator * 10 ** dec // q.denominator)
            t = str(m).rjust(dec + 1, '0')
            t = (t[:-dec] + '.' + t[-dec:]) if dec else t
            vals.append(q)
            lines += ['2020/01/%02d p%d' % (1 + i, i), '    Assets:Units    %s%s' % ('-' if q < 0 else '', t), '    Equity:Open', '']
        path = ctx.path('plain%d.dat' % (j % 4))
        text = '\n'.join(lines)
        open(path, 'w').write(text)
        st, out, err = lib.run_ledger(['-f', path, 'reg', '^Assets:Units', '--format', '%(amount)|%(total)\\n'])
        rows = [l.split('|') for l in out.decode().split('\n') if '|' in l]
        st2, out2, err2 = lib.run_ledger(['-f', path, 'bal', '^Assets:Units', '--flat', '--no-total', '--empty', '--format', '%(total)\\n'])
        res.evaluations += 1
        res.count('plain-totals')
        res.nontrivial.add('plain:' + text)
        run = F(0)
        bad = None
        nz = [q for q in vals]
        shown_rows = [r for r in rows]
        k = 0
        for q in nz:
            run += q
            if q == 0:
                continue                      # a zero row is not shown without --empty
            if k >= len(shown_rows):
                bad = 'row %d missing' % k
                break
            a_txt, t_txt = shown_rows[k]
            k += 1
            try:
                if F(a_txt.strip()) != q or F(t_txt.strip()) != run:
                    bad = 'row %d shows amount %r total %r, exact %s and %s' % (k - 1, a_txt, t_txt, q, run)
                    break
            except ValueError:
                bad = 'row %d unreadable: %r' % (k - 1, shown_rows[k - 1])
                break
        if not bad:
            try:
                if F(out2.decode().strip() or '0') != run:
                    bad = 'balance shows %r, exact %s' % (out2.decode().strip(), run)
            except ValueError:
                bad = 'balance unreadable: %r' % out2.decode().strip()
        if bad:
            res.violations.append(dict(key='print:commodity-less-total-not-exact', desc='commodity-less amounts: ' + bad, case=dict(journal=text),
                                       observed=bad, required='every displayed amount and total denotes the exact sum'))


def search(ctx, broken):
    import random
    for s in range(3):
        ctx.rng = random.Random('C04-search-%d-%d' % (ctx.seed, s))
        r = run(ctx, n_override=400)
        if r.violations:
            return r.violations
    return []


def replay(ctx, obj):
    res = lib.Result()
    case = obj.get('case') or {}
    if 'journal' in case:
        path = ctx.path('replay.dat')
        open(path, 'w', encoding='utf-8').write(case['journal'])
        opt = list(case.get('options') or [])
        st, out, err = lib.run_ledger(['-f', path] + opt + ['reg', '^Assets', '--format', FMT_DC if opt else FMT])
        print(out.decode('utf-8', 'replace')[:2000])
        print(err.decode('utf-8', 'replace')[:500])
    return res
