"""C16 - automated transactions add exactly the declared postings to each match.
Correspondence: whole journals interleaving rules (`= PREDICATE` + 1-4 lines) with transactions go
through ledger and through the extracted model (Model/AutoXact.v over Model/Xact.v); per transaction
accept / error class, per posting account, real/(virtual)/[balanced] kind, exact amount with its
precision counter, cost, calculated/generated flags and clearing state are compared.
Oracle (property text, Fractions): ledger is also run on the same journal with every rule removed;
with rules, every accepted transaction must show exactly the rule-free rows, untouched and in order,
followed by one posting per rule line for every rule that precedes it in the file (in file order) and
every rule-free posting (written, or made by finalize from an elided amount) matching that rule's predicate (in posting order), with the
rule line's account and kind and the exact amount (multiplier x matched amount in the matched
commodity, or the fixed amount as written); nothing else may change; an extension whose must-balance
postings are off by a whole unit must be rejected, an exactly balanced one must not be."""
import re, time
from fractions import Fraction as F
import lib
import xactlib as X

META = dict(
    id='C16',
    level='proof',
    technique='Coq proof about a transcription of auto_xact_t::extend_xact / post_pred / xact_base_t::verify / the add_xact rule loop (extension = input ++ concat_map over the matching non-generated postings; generated postings never re-match for any number and order of rules; rules only reach later transactions; exact multiplication; the memoised quick matcher equals the full predicate; unbalanced extension rejected) + differential correspondence against ledger',
    level_text='Theorems in coq/Properties/Properties_C16.v are stated for the executable model of extend_xact (snapshot loop skipping the postings made by rules: ITEM_GENERATED without POST_CALCULATED, quick matcher with memo and fallback, amount multiply/copy, flags and state of the new posting, verify when a new posting must balance) inside the journal loop that keeps the rule list in file order and applies it after finalize. The model is tied to the code by running whole generated journals through ledger and through the extracted model and comparing, per transaction, acceptance and error class and, per posting, account, kind, exact rational amount and precision counter, cost, flags and state.',
    level_note='How extend_xact registers the rule line\'s account the second time is read from the source on every run (Gen/AutoXactRoot.src_extend_realias) and selects the model\'s behaviour and the theorem in force (Properties_C16.generated_posting_account_in_force): with alias expansion active there (the code before /repo 3f98a1d, finding F120) the aliases in force at the transaction hit the account again, the model does the same (realias) and generated_posting_has_line_account_refuted applies; with expansion switched off around the call (the repaired code, /repo 3f98a1d) the alias table never reaches rule lines and generated_posting_has_line_account applies. The oracle always requires the account the line names at the rule\'s place (key rule-line-account-re-aliased). Account names reach the model RESOLVED (master account, apply account, one alias round at the place of the posting / rule line), computed by the harness; that rule lines and postings use the same root (top_account()) is regenerated from the source into Gen/AutoXactRoot.v and required by rule_lines_resolve_like_postings. F33 (rules skipped the postings finalize makes for the second and later commodities of an elided amount) was repaired by /repo e69e5ce; the model follows the fixed code (a posting is skipped only when ITEM_GENERATED without POST_CALCULATED), Properties_C16.journal_extension_every_posting is the full statement and the oracle key elided-commodity-posting-not-matched is a violation. Trusted as C01 (finalize is the C01/C02 model). Regular expressions are restricted to literal, case-insensitive substrings; predicates to account / payee matches, `amount < LIT`, `amount > LIT` and the constants true / false under ! & | == ?: (numeric constants are left out: post_pred takes `account =~ /F/ == 1` as `== true` while the full predicate raises `Cannot compare a boolean to an amount`, so the same sub-expression is accepted or an error depending on whether another operand sends the rule to the full predicate). Which operators the quick matcher post_pred handles, each with its exact body, is regenerated from src/xact.cc into Gen/PostPred.v on every run (harness/translators/c16_post_pred.py); quick_eval of the model takes a case only when the source has it in the transcribed form, quick_matcher_cases_as_transcribed and quick_match_answers_account_only REQUIRE all seven. Not modelled: rule lines with costs or amount expressions, `$account` and %(format) account names, notes/tags and assert/check lines of a rule, --strict/--pedantic, period transactions.',
    design_ref='DESIGN.md section 7 C16',
    assumptions=['commodities $ EUR AAA CCC in plain styles, every amount written with its commodity\'s usual number of decimals',
                 'account and payee patterns are literal alphanumeric substrings (regex = case-insensitive substring)',
                 'transactions are named x<index>; no lots, no bucket, no per-posting state marks on ordinary postings'],
)

DEC = {'$': 2, 'EUR': 2, 'AAA': 0, 'CCC': 0}
# incl. a top-level account named like a leaf (Cash, Food) and two accounts sharing a leaf name: the memo of the quick
# matcher is keyed by the FULL name
ACCTS = ['Assets:Bank', 'Assets:Cash', 'Expenses:Food', 'Expenses:Rent', 'Income:Job', 'Liabilities:Card',
         'Expenses:Food:Out', 'Equity:Open', 'Cash', 'Food', 'Liabilities:Cash', 'Assets:Cash', 'Expenses:Food']
RACCTS = ['Budget:Food', 'Tax:Fed', 'Expenses:Tax', 'Assets:Reserve', 'Liabilities:Tax', 'Expenses:Food:Tip',
          'Income:Auto', 'Assets:Cash:Float']
APATS = ['Food', 'food', 'FOOD', 'Expenses', 'Cash', 'Assets', 'Rent', 'Tax', 'Out', 'Bank', 's:F', 'Budget', 'e', 'Job',
         'Card', 'Teach', 'Equity', 'Expenses:Food', 'Zzz']
PPATS = ['x1', 'x2', 'x', 'X3', 'x10', '7', 'y']

FMT = ('%(payee)|%(display_account)|%(calculated)|%(cost_calculated)|%(actual)|%(state)|'
       '%(verif_rational(amount))|%(verif_rational(cost))\\n')


# ---------------------------------------------------------------------------- predicates
def ws(rng):
    """the blank between two words of a rule's predicate: the header of an automated transaction is handed to the query
    lexer as ONE string, which separates words at blanks and TABs alike"""
    return ' ' if rng.random() < 0.6 else rng.choice(['\t', '  ', ' \t', '\t\t', '\t '])


def hard_sep(rng):
    """between an account name and the amount: two blanks or a TAB end the account name (next_element)"""
    return '    ' if rng.random() < 0.6 else rng.choice(['  ', '\t', ' \t', '\t\t', '   \t '])


def lead_ws(rng):
    return '    ' if rng.random() < 0.7 else rng.choice(['\t', ' ', '  \t'])


class Pred:
    def __init__(self, op, *args):
        self.op, self.args = op, args

    def sx(self):
        if self.op in ('acct', 'payee'):
            return [self.op, self.args[0].encode()]
        if self.op in ('lt', 'gt'):
            return [self.op, self.args[0].sx()]
        if self.op == 'const':
            return ['const', 1 if self.args[0] else 0]
        return [self.op] + [a.sx() for a in self.args]

    def atom(self):
        return self.op in ('acct', 'payee', 'lt', 'gt', 'const')

    def bare(self):
        """may stand without parentheses beside == ? : (a match or a constant)"""
        return self.op in ('acct', 'payee', 'const')

    def acct_only(self):
        """built from account matches and true / false only: the quick matcher answers without the full predicate"""
        if self.op in ('acct', 'const'):
            return True
        if self.op in ('payee', 'lt', 'gt'):
            return False
        return all(a.acct_only() for a in self.args)

    def query_ok(self):
        if self.op in ('acct', 'payee'):
            return True
        if self.op in ('lt', 'gt', 'const', 'eq', 'query'):
            return False
        return all(a.query_ok() for a in self.args)

    def expr_text(self, top=True):
        o = self.op
        if o == 'acct':
            return 'account =~ /%s/' % self.args[0]
        if o == 'payee':
            return 'payee =~ /%s/' % self.args[0]
        if o in ('lt', 'gt'):
            return 'amount %s %s' % ('<' if o == 'lt' else '>', self.args[0].text())
        if o == 'const':
            return 'true' if self.args[0] else 'false'
        if o == 'not':
            return '!(%s)' % self.args[0].expr_text(False)
        if o in ('eq', 'query'):
            # every operand that is not a match or a constant stands in parentheses: the tree is the text
            # (`a =~ /x/ == b =~ /y/` would read as `((a =~ /x/) == b) =~ /y/`: the right side of == is bare only
            # when it is a constant)
            ts = [a.expr_text(False) if (a.bare() and not (o == 'eq' and k == 1 and a.op != 'const')) else '(%s)' % a.expr_text(False)
                  for k, a in enumerate(self.args)]
            return '%s == %s' % tuple(ts) if o == 'eq' else '%s ? %s : %s' % tuple(ts)
        sym = ' & ' if o == 'and' else ' | '
        l, r = self.args
        lt = l.expr_text(False) if (l.atom() or l.op == o) else '(%s)' % l.expr_text(False)
        rt = r.expr_text(False) if (r.atom() or r.op == 'not') else '(%s)' % r.expr_text(False)
        return lt + sym + rt

    def query_text(self, rng, top=True):
        o = self.op
        if o == 'acct':
            return '/%s/' % self.args[0]
        if o == 'payee':
            return rng.choice(['@%s', 'payee' + ws(rng) + '%s', '@/%s/']) % self.args[0]
        if o == 'not':
            a = self.args[0]
            return 'not' + ws(rng) + (a.query_text(rng, False) if a.atom() else '(%s)' % a.query_text(rng, False))
        parts = [(a.query_text(rng, False) if (a.atom() or a.op == 'not') else '(%s)' % a.query_text(rng, False)) for a in self.args]
        return parts[0] + ''.join(ws(rng) + ('and' if o == 'and' else 'or') + ws(rng) + q for q in parts[1:])

    # the oracle's reading of the predicate: True / False / None (not determined by the text)
    def holds(self, payee, acct, sym, val):
        o = self.op
        if o == 'acct':
            return self.args[0].lower() in acct.lower()
        if o == 'payee':
            return self.args[0].lower() in payee.lower()
        if o in ('lt', 'gt'):
            lit = self.args[0]
            if lit.sym is not None and lit.sym != sym:
                return None
            return val < lit.value if o == 'lt' else val > lit.value
        if o == 'const':
            return bool(self.args[0])
        if o == 'not':
            a = self.args[0].holds(payee, acct, sym, val)
            return None if a is None else (not a)
        a = self.args[0].holds(payee, acct, sym, val)
        if o == 'eq':                    # holds when both sides hold or neither does
            b = self.args[1].holds(payee, acct, sym, val)
            return None if (a is None or b is None) else (a == b)
        if o == 'query':                 # c ? p : q
            if a is None:
                return None
            return self.args[1 if a else 2].holds(payee, acct, sym, val)
        if o == 'and':
            if a is False:
                return False
            b = self.args[1].holds(payee, acct, sym, val)
            if a is None:
                return False if b is False else None
            return b
        if a is True:
            return True
        b = self.args[1].holds(payee, acct, sym, val)
        if a is None:
            return True if b is True else None
        return b


def gen_atom(rng, allow_amount=True):
    r = rng.random()
    if r < 0.55 or not allow_amount and r < 0.8:
        return Pred('acct', rng.choice(APATS))
    if r < 0.72 or not allow_amount:
        return Pred('payee', rng.choice(PPATS))
    if rng.random() < 0.12:
        sym = rng.choice(['$', 'EUR', 'AAA'])
        lit = X.Amt(F(rng.choice([0, 5, 10, 50, -10, 20])), DEC[sym], sym)
    elif rng.random() < 0.8:
        lit = X.Amt(F(rng.choice([0, 1, 5, 10, 20, 50, 100, -1, -10, -20, -50, 999])), 0, None)
    else:
        lit = X.Amt(F(rng.choice([1050, 999, -1050, 5, 2000]), 100), 2, None)
    return Pred(rng.choice(['lt', 'gt']), lit)


def gen_chain(rng, depth, allow_amount=True, atom_first=True):
    """atom (op term)*, all the same op; term = atom | !(chain) | (chain)"""
    n = rng.choice([1, 1, 2, 2, 3]) if depth > 0 else 1
    e = gen_atom(rng, allow_amount)
    if not atom_first and rng.random() < 0.3:
        e = Pred('not', gen_chain(rng, depth - 1, allow_amount, False)) if depth > 0 else Pred('not', e)
    op = rng.choice(['and', 'or'])
    for _ in range(n - 1):
        r = rng.random()
        if r < 0.55 or depth == 0:
            t = gen_atom(rng, allow_amount)
        elif r < 0.8:
            t = Pred('not', gen_chain(rng, depth - 1, allow_amount, False))
        else:
            t = gen_chain(rng, depth - 1, allow_amount, False)
            if t.op == op:           # (a & b) & c would print without the inner group; keep trees = text
                t = Pred('not', t)
        e = Pred(op, e, t)
    return e


def gen_term(rng, depth, acct_only):
    """an operand of == ?: & | : an atom, a constant, or a nested ==, ?:, &, |, ! over such operands"""
    r = rng.random()
    if depth <= 0 or r < 0.45:
        if rng.random() < 0.2:
            return Pred('const', rng.random() < 0.5)
        return Pred('acct', rng.choice(APATS)) if acct_only else gen_atom(rng)
    sub = lambda: gen_term(rng, depth - 1, acct_only)
    if r < 0.62:
        return Pred('eq', sub(), sub())
    if r < 0.78:
        return Pred('query', sub(), sub(), sub())
    if r < 0.88:
        return Pred('not', sub())
    op = rng.choice(['and', 'or'])
    a, b = sub(), sub()
    if a.op == op or b.op == op:         # (a & b) & c would print without the inner group; keep trees = text
        b = Pred('not', b)
    if a.op == op:
        a = Pred('not', a)
    return Pred(op, a, b)


def gen_eqq(rng):
    """-> (predicate with ==, ?: and true / false, kind).  The text after `expr` must begin with a word (a leading
    `(` or `!` is the query lexer's), so the tree begins with a match or a constant.  Half of them look at the
    account only (post_pred answers, memoised by account name), the others also at payee / amount (post_pred throws at
    the first such operand it REACHES - & | ?: do not reach every operand - and the full predicate takes over)"""
    acct_only = rng.random() < 0.5
    r0 = rng.random()
    first = (Pred('const', rng.random() < 0.5) if r0 < 0.15 else
             Pred('payee', rng.choice(PPATS)) if (r0 < 0.3 and not acct_only) else Pred('acct', rng.choice(APATS)))
    t = lambda: gen_term(rng, 2, acct_only)
    r = rng.random()
    if r < 0.4:
        p = Pred('eq', first, t())
    elif r < 0.75:
        p = Pred('query', first, t(), t())
    elif r < 0.8:
        p = first if first.op == 'const' else Pred('eq', first, Pred('const', rng.random() < 0.5))
    else:
        op = rng.choice(['and', 'or'])
        b = t()
        if b.op == op:
            b = Pred('not', b)
        p = Pred(op, first, b)
    return p, ('acct-only' if p.acct_only() else 'mixed')


# ---------------------------------------------------------------------------- rules
MULTS = [('0.10', 2), ('-0.10', 2), ('1', 0), ('-1', 0), ('0.5', 1), ('-0.5', 1), ('0.25', 2), ('2', 0), ('0.333', 3),
         ('0.123456', 6), ('0.1234567', 7), ('-0.12345678', 8), ('0', 0), ('0.00', 2), ('1.000000', 6), ('0.05', 2)]


def mult(text_dec):
    t, d = text_dec
    return X.Amt(F(t), d, None)


def negamt(a):
    return X.Amt(-a.value, a.dec, a.sym)


class Line:
    def __init__(self, acct, kind, amt, state=0):
        self.acct, self.kind, self.amt, self.state = acct, kind, amt, state

    def text(self):
        a = {'R': '%s', 'V': '(%s)', 'B': '[%s]'}[self.kind] % self.acct
        mark = {0: '', 1: '* ', 2: '! '}[self.state]
        lead, sep = getattr(self, 'lead', '    '), getattr(self, 'sep', '    ')
        if self.amt is None:
            return '%s%s%s' % (lead, mark, a)
        return '%s%s%s%s%s' % (lead, mark, a, sep, self.amt.text())

    def sx(self):
        return ['line', self.acct.encode(), self.kind, self.amt.sx() if self.amt else '-', self.state]


class Rule:
    def __init__(self, pred, lines, syntax):
        self.pred, self.lines, self.syntax = pred, lines, syntax     # syntax: the text after `= `

    def text(self):
        return '=%s%s\n%s\n' % (getattr(self, 'lead', ' '), self.syntax, '\n'.join(l.text() for l in self.lines))

    def sx(self):
        return ['rule', self.pred.sx()] + [l.sx() for l in self.lines]


def gen_mixed(rng):
    """1-4 lines mixing real, [balanced] and (virtual) lines in EVERY order, multipliers or fixed amounts; the lines that
    must balance sum to zero, or miss it by a small residue (below / at / above half a display unit once multiplied), by a
    missing counter-line, or by a counter-line in another commodity.  The balance re-check after the extension must
    not depend on which line comes last."""
    st = lambda: rng.choice([0, 0, 0, 0, 1, 2])
    bk = lambda: rng.choice(['R', 'R', 'B'])
    nmb = rng.choice([1, 2, 2, 2, 3])
    nv = rng.randrange(0, 4 - nmb + 1) if rng.random() < 0.8 else 0
    how = rng.choice(['balanced', 'balanced', 'residue', 'residue', 'missing', 'commodity'])
    fixed = rng.random() < 0.3
    if nmb == 1 and how in ('balanced', 'residue', 'commodity'):
        how = 'missing'
    if how == 'commodity':
        fixed = True
    if fixed:
        sym = rng.choice(['$', 'EUR', 'AAA'])
        d = DEC[sym]
        vals = [F(rng.randrange(-5000, 5000) or 7, 10 ** d) for _ in range(nmb)]
        if how != 'missing':
            vals[-1] = -sum(vals[:-1])
        if how == 'residue':
            vals[-1] += F(rng.choice([1, -1, 2, 100]), 10 ** d)
        amts = [X.Amt(v, d, sym) for v in vals]
        if how == 'commodity':
            other = rng.choice([c for c in ['$', 'EUR', 'AAA'] if c != sym])
            amts[-1] = X.Amt(F(int(vals[-1] * 10 ** d), 10 ** DEC[other]), DEC[other], other)
    else:
        ms = [mult(rng.choice(MULTS[:11])) for _ in range(nmb)]
        dec = max(m.dec for m in ms)
        if how != 'missing':
            last = -sum(m.value for m in ms[:-1])
            if how == 'residue':
                rd = rng.choice([0, 1, 2, 3, 4, 5, 6])
                last += F(rng.choice([1, -1, 4, 5, 6, -5]), 10 ** rd)
                dec = max(dec, rd)
            ms[-1] = X.Amt(last, dec, None)
        amts = ms
    lines = [Line(rng.choice(RACCTS), bk(), a, st()) for a in amts]
    for _ in range(nv):
        if rng.random() < 0.7:
            lines.append(Line(rng.choice(RACCTS), 'V', mult(rng.choice(MULTS)), st()))
        else:
            vs = rng.choice(['$', 'EUR', 'AAA'])
            lines.append(Line(rng.choice(RACCTS), 'V', X.Amt(F(rng.randrange(-5000, 5000), 10 ** DEC[vs]), DEC[vs], vs), st()))
    rng.shuffle(lines)
    if nv and rng.random() < 0.35:                      # a (virtual) line last, explicitly
        k = next(i for i, l in enumerate(lines) if l.kind == 'V')
        lines.append(lines.pop(k))
    return lines[:4], 'mixed-' + how + ('-vlast' if lines[:4][-1].kind == 'V' else '')


def gen_lines(rng):
    """-> (lines, kind of rule).  Usually balancing pairs, so that the extension still balances."""
    if rng.random() < 0.3:
        return gen_mixed(rng)
    lines = []
    r = rng.random()
    st = lambda: rng.choice([0, 0, 0, 0, 1, 2])
    bk = lambda: rng.choice(['R', 'R', 'B'])
    if r < 0.62:
        shape = 'balanced'
        for _ in range(rng.choice([1, 1, 2])):
            if rng.random() < 0.7:
                m = mult(rng.choice(MULTS))
                lines += [Line(rng.choice(RACCTS), bk(), m, st()), Line(rng.choice(RACCTS), bk(), negamt(m), st())]
            else:
                sym = rng.choice(['$', 'EUR', 'AAA'])
                a = X.Amt(F(rng.randrange(1, 5000), 10 ** DEC[sym]), DEC[sym], sym)
                lines += [Line(rng.choice(RACCTS), bk(), a, st()), Line(rng.choice(RACCTS), bk(), negamt(a), st())]
        if rng.random() < 0.3:
            rng.shuffle(lines)
    elif r < 0.8:
        shape = 'virtual-only'
        for _ in range(rng.randrange(1, 5)):
            if rng.random() < 0.75:
                lines.append(Line(rng.choice(RACCTS), 'V', mult(rng.choice(MULTS)), st()))
            else:
                sym = rng.choice(['$', 'EUR', 'AAA'])
                lines.append(Line(rng.choice(RACCTS), 'V', X.Amt(F(rng.randrange(-5000, 5000), 10 ** DEC[sym]), DEC[sym], sym), st()))
    elif r < 0.9:
        shape = 'balanced+virtual'
        m = mult(rng.choice(MULTS))
        lines = [Line(rng.choice(RACCTS), bk(), m, st()), Line(rng.choice(RACCTS), 'V', mult(rng.choice(MULTS)), st()),
                 Line(rng.choice(RACCTS), bk(), negamt(m), st())]
        if rng.random() < 0.5:
            lines.append(Line(rng.choice(RACCTS), 'V', X.Amt(F(100, 100), 2, '$'), st()))
    elif r < 0.975:
        shape = 'unbalancing'
        k = rng.random()
        if k < 0.4:
            lines = [Line(rng.choice(RACCTS), bk(), mult(rng.choice(MULTS[:11])), st())]
        elif k < 0.6:
            sym = rng.choice(['$', 'EUR', 'AAA'])
            lines = [Line(rng.choice(RACCTS), bk(), X.Amt(F(rng.randrange(1, 5000), 10 ** DEC[sym]), DEC[sym], sym), st())]
        elif k < 0.8:
            m = mult(rng.choice(MULTS[:11]))
            d2 = rng.choice([0, 1, 2, 3])
            m2 = X.Amt(-m.value + F(rng.choice([1, -1, 5]), 10 ** d2), max(m.dec, d2), None)
            lines = [Line(rng.choice(RACCTS), bk(), m, st()), Line(rng.choice(RACCTS), bk(), m2, st())]
        else:
            # balances only when taken together with a second rule (verify runs after each rule)
            m = mult(rng.choice(MULTS[:11]))
            lines = [Line(rng.choice(RACCTS), 'V', m, st()), Line(rng.choice(RACCTS), bk(), m, st())]
    else:
        shape = 'no-amount'
        lines = [Line(rng.choice(RACCTS), rng.choice(['R', 'V', 'B']), mult(rng.choice(MULTS)), st()),
                 Line(rng.choice(RACCTS), rng.choice(['R', 'V', 'B']), None, st())]
        if rng.random() < 0.5:
            lines.reverse()
    return lines[:4], shape


def gen_rule(rng):
    r = rng.random()
    eqq = None
    if r < 0.35:
        p = Pred('acct', rng.choice(APATS))
        syn = rng.choice(['/%s/', '/%s/', '%s', 'expr' + ws(rng) + 'account =~ /%s/']) % p.args[0]
    elif r < 0.55:
        p = gen_chain(rng, 2, allow_amount=False, atom_first=False)
        syn = p.query_text(rng)
    elif r < 0.73:
        p, eqq = gen_eqq(rng)
        syn = 'expr' + ws(rng) + p.expr_text()
    else:
        p = gen_chain(rng, 2)
        syn = 'expr' + ws(rng) + p.expr_text()
        if rng.random() < 0.3:                     # inside the expression blanks and TABs are the expression parser's business
            syn = syn.replace(' & ', rng.choice(['\t&\t', ' &\t', '  & '])).replace(' | ', rng.choice(['\t|\t', '\t| ', ' |  ']))
    lines, shape = gen_lines(rng)
    rule = Rule(p, lines, syn)
    rule.shape = shape
    if eqq:
        rule.eqq = eqq
    rule.lead = rng.choice([' ', ' ', ' ', '\t', '  ', ' \t'])
    if rng.random() < 0.35:
        for l in lines:
            l.lead, l.sep = lead_ws(rng), hard_sep(rng)
    return rule


# ---------------------------------------------------------------------------- transactions
class Txn(X.Xact):
    def __init__(self, posts, date, state=0):
        super().__init__(posts, date)
        self.state = state

    def text(self, i):
        mark = {0: '', 1: '* ', 2: '! '}[self.state]
        return '\n'.join(['%s %sx%d' % (self.date, mark, i)] + [q.text() for q in self.posts]) + '\n'

    def sx_i(self, i):
        return ['xact', ('x%d' % i).encode(), self.state] + [p.sx() for p in self.posts]


def amt(rng, sym, lo=1, hi=20000):
    d = DEC[sym]
    r = rng.random()
    if r < 0.3:
        v = F(rng.choice([1, 5, 10, 20, 50, 100, 1050, 999, 0]) * 10 ** d, 10 ** d)      # the comparison literals
    else:
        v = F(rng.randrange(lo, hi), 10 ** d)
    return X.Amt(v, d, sym)


def gen_txn(rng):
    r = rng.random()
    sym = rng.choice(['$', '$', 'EUR', 'AAA'])
    kindacct = lambda: rng.choice(ACCTS)
    posts = []
    shape = 'plain'
    if r < 0.5:
        a = amt(rng, sym)
        k = rng.choice([2, 2, 3])
        if k == 2:
            posts = [X.Post(kindacct(), 'R', a), X.Post(kindacct(), 'R', negamt(a))]
        else:
            b = amt(rng, sym)
            posts = [X.Post(kindacct(), 'R', a), X.Post(kindacct(), 'R', b), X.Post(kindacct(), 'R', X.Amt(-a.value - b.value, a.dec, sym))]
    elif r < 0.7:
        shape = 'elided'
        posts = [X.Post(kindacct(), 'R', amt(rng, sym)) for _ in range(rng.choice([1, 2]))] + [X.Post(kindacct(), 'R', None)]
        if rng.random() < 0.3:
            shape = 'elided-2comm'
            other = rng.choice([s for s in ['$', 'EUR', 'AAA'] if s != sym])
            posts.insert(0, X.Post(kindacct(), 'R', amt(rng, other)))
    elif r < 0.82:
        shape = 'virtual'
        a = amt(rng, sym)
        posts = [X.Post(kindacct(), 'R', a), X.Post(kindacct(), 'R', negamt(a))]
        b = amt(rng, sym)
        if rng.random() < 0.5:
            posts.append(X.Post(kindacct(), 'V', b))
        else:
            posts += [X.Post(kindacct(), 'B', b), X.Post(kindacct(), 'B', negamt(b))]
    elif r < 0.92:
        shape = 'cost'
        units = X.Amt(F(rng.randrange(1, 200) * rng.choice([1, 1, -1])), 0, 'CCC')
        dec = 2
        if rng.random() < 0.6:
            price = X.Amt(F(rng.randrange(1, 9999), 100), 2, '$')
            cost = ('u', price)
            total = price.value * units.value
        else:
            price = X.Amt(F(rng.randrange(1, 999999), 100), 2, '$')
            cost = ('t', price)
            total = price.value if units.value > 0 else -price.value
        posts = [X.Post(kindacct(), 'R', units, cost), X.Post(kindacct(), 'R', X.Amt(-total, 2, '$'))]
        if rng.random() < 0.3:
            posts[1] = X.Post(posts[1].acct, 'R', None)
    else:
        shape = 'unbalanced'
        a = amt(rng, sym)
        posts = [X.Post(kindacct(), 'R', a), X.Post(kindacct(), 'R', X.Amt(-a.value - rng.choice([1, 2, -3]), a.dec, sym))]
    if rng.random() < 0.25:
        rng.shuffle(posts)
    t = Txn(posts, '2020/%02d/%02d' % (rng.randrange(1, 13), rng.randrange(1, 29)), rng.choice([0, 0, 0, 1, 1, 2]))
    t.shape = shape
    if rng.random() < 0.2:
        for q in posts:
            q.indent, q.sep = lead_ws(rng), hard_sep(rng)          # xactlib.Post writes its line with these
    return t


def teach():
    t = Txn([X.Post('Teach:A%d' % i, 'R', X.Amt(F(1), DEC[s], s)) for i, s in enumerate(DEC)] + [X.Post('Teach:Eq')], '2019/01/01')
    t.shape = 'teach'
    return t


# ---------------------------------------------------------------------------- account scopes
class Scope:
    """a directive line that changes how account names resolve: kind = 'master' (no text: --master-account NAME),
    'apply' (apply account NAME), 'end' (end apply account), 'alias' (alias NAME=TARGET)"""
    def __init__(self, kind, name=None, target=None):
        self.kind, self.name, self.target = kind, name, target

    def text(self):
        return {'master': '', 'apply': 'apply account %s\n' % self.name, 'end': 'end apply account\n',
                'alias': 'alias %s=%s\n' % (self.name, self.target)}[self.kind]


def master_of(items):
    for it in items:
        if isinstance(it, Scope) and it.kind == 'master':
            return it.name
    return None


def alias_step(aliases, name):
    """journal_t::expand_aliases, one round (recursive_aliases off): the whole name, else its first component"""
    if name in aliases:
        return aliases[name], True
    if ':' in name:
        first, rest = name.split(':', 1)
        if first in aliases:
            return aliases[first] + ':' + rest, True
    return name, False


def resolve_items(items):
    """the full account name every posting, rule line and alias target resolves to AT ITS PLACE in the file (property
    text: "the rule line's account"): an alias hit (one round) wins, else master account + enclosing apply-account
    names + the written name.  -> list parallel to items: [full names] for Txn / Rule, full target for an alias,
    and for every item the alias table in force there"""
    master = master_of(items)
    stack, aliases, out = [], {}, []
    pre = lambda: ([master] if master else []) + stack
    def full(w):
        a, hit = alias_step(aliases, w)
        return a if hit else ':'.join(pre() + [w])
    for it in items:
        if isinstance(it, Scope):
            if it.kind == 'apply':
                stack = stack + [it.name]
                out.append((None, dict(aliases)))
            elif it.kind == 'end':
                stack = stack[:-1]
                out.append((None, dict(aliases)))
            elif it.kind == 'alias':
                t = ':'.join(pre() + [it.target])
                aliases = dict(aliases)
                aliases[it.name] = t
                out.append((t, dict(aliases)))
            else:
                out.append((None, dict(aliases)))
        elif isinstance(it, Rule):
            out.append(([full(l.acct) for l in it.lines], dict(aliases)))
        else:
            out.append(([full(q.acct) for q in it.posts], dict(aliases)))
    return out


SCOPE_NAMES = ['Personal', 'Biz', 'X']
ALIASES = [('Budget', 'Assets:Reserve:Budget'), ('Tax', 'Liabilities:Tax'), ('Liabilities', 'Debt:L'), ('Cash', 'Assets:Petty'),
           ('Food', 'Expenses:Food:Misc'), ('Assets', 'A'), ('Income:Auto', 'Income:Generated'), ('Personal', 'P')]


def add_scopes(rng, items):
    """`apply account` blocks around arbitrary stretches of the file (rules only, transactions only, both, the rule inside
    and its matches outside or the reverse, nested once), --master-account, alias directives anywhere"""
    items = list(items)
    r = rng.random()
    if r < 0.45:
        n = len(items)
        a = rng.randrange(0, n)
        b = rng.randrange(a + 1, n + 1)
        block = [Scope('apply', rng.choice(SCOPE_NAMES))] + items[a:b]
        if rng.random() < 0.35 and b - a >= 1:                      # nested once
            c = rng.randrange(1, len(block))
            d = rng.randrange(c, len(block) + 1)
            block = block[:c] + [Scope('apply', rng.choice(SCOPE_NAMES))] + block[c:d] + [Scope('end')] + block[d:]
        items = items[:a] + block + [Scope('end')] + items[b:]
        if rng.random() < 0.3:                                      # a second, separate block
            n2 = len(items)
            k = [i for i in range(n2)]
            a2 = rng.randrange(b + 2, n2 + 1) if b + 2 <= n2 else None
            if a2 is not None and a2 < n2:
                b2 = rng.randrange(a2 + 1, n2 + 1)
                items = items[:a2] + [Scope('apply', rng.choice(SCOPE_NAMES))] + items[a2:b2] + [Scope('end')] + items[b2:]
    if rng.random() < 0.25:
        for _ in range(rng.choice([1, 1, 2])):
            n, t = rng.choice(ALIASES)
            items.insert(rng.randrange(0, len(items) + 1), Scope('alias', n, t))
        # an alias may not sit between `apply` and nothing: any position is fine for ledger
    if rng.random() < 0.15:
        items.insert(0, Scope('master', rng.choice(['M', 'Top:Sub'])))
    return items


def gen_journal(rng, big=False):
    """-> items: list of Rule / Txn / Scope in file order"""
    return add_scopes(rng, gen_journal_plain(rng, big))


def gen_journal_plain(rng, big=False):
    nrules = rng.choice([0, 1, 1, 2, 2, 3, 4])
    ntx = rng.randrange(1, 31) if (big or rng.random() < 0.15) else rng.randrange(1, 9)
    txs = [gen_txn(rng) for _ in range(ntx)]
    items = list(txs)
    rules = [gen_rule(rng) for _ in range(nrules)]
    for r in rules:
        where = rng.random()
        if where < 0.3:
            pos = 0
        elif where < 0.38:
            pos = len(items)
        elif where < 0.7:
            pos = rng.randrange(0, len(items) // 2 + 1)
        else:
            pos = rng.randrange(0, len(items) + 1)
        items.insert(pos, r)
    # the teaching transaction goes first, or (sometimes) after leading rules
    k = 0
    if rng.random() < 0.3:
        while k < len(items) and isinstance(items[k], Rule):
            k += 1
    items.insert(k, teach())
    return items


def render(items, skip=(), with_rules=True):
    """-> (text, {xact index: (first line, last line)}); scope directives are kept in every variant"""
    out, ranges, i, line = [], {}, 0, 1
    for it in items:
        if isinstance(it, Scope):
            t = it.text()
            if not t:
                continue
        elif isinstance(it, Rule):
            if with_rules:
                t = it.text()
            else:
                continue
        else:
            t = it.text(i)
            if i in skip:
                i += 1
                continue
            ranges[i] = (line, line + t.count('\n') - 1)
            i += 1
        out.append(t)
        line += t.count('\n') + 1
    return '\n'.join(out), ranges


def journal_sx(jid, items):
    """the model is fed the RESOLVED account names (see resolve_items) and the alias directives with resolved targets"""
    sxs, i = [], 0
    names = resolve_items(items)
    for it, (nm, _) in zip(items, names):
        if isinstance(it, Scope):
            if it.kind == 'alias':
                sxs.append(['alias', it.name.encode(), nm.encode()])
        elif isinstance(it, Rule):
            x = it.sx()
            for k, f in enumerate(nm):
                x[2 + k] = list(x[2 + k])
                x[2 + k][1] = f.encode()
            sxs.append(x)
        else:
            x = it.sx_i(i)
            for k, f in enumerate(nm):
                x[3 + k] = list(x[3 + k])[:6]            # without xactlib's written-line field (C01's line model)
                x[3 + k][1] = f.encode()
            sxs.append(x)
            i += 1
    return lib.sx(['journal', jid] + sxs)


# ---------------------------------------------------------------------------- replayable form
def amt_spec(a):
    return None if a is None else [str(a.value), a.dec, a.sym]


def amt_unspec(x):
    return None if x is None else X.Amt(F(x[0]), x[1], x[2])


def pred_spec(p):
    if p.op in ('acct', 'payee'):
        return [p.op, p.args[0]]
    if p.op in ('lt', 'gt'):
        return [p.op, amt_spec(p.args[0])]
    if p.op == 'const':
        return ['const', bool(p.args[0])]
    return [p.op] + [pred_spec(a) for a in p.args]


def pred_unspec(x):
    if x[0] in ('acct', 'payee'):
        return Pred(x[0], x[1])
    if x[0] in ('lt', 'gt'):
        return Pred(x[0], amt_unspec(x[1]))
    if x[0] == 'const':
        return Pred('const', bool(x[1]))
    return Pred(x[0], *[pred_unspec(a) for a in x[1:]])


def items_spec(items):
    out = []
    for it in items:
        if isinstance(it, Scope):
            out.append(dict(scope=it.kind, name=it.name, target=it.target))
        elif isinstance(it, Rule):
            out.append(dict(rule=pred_spec(it.pred), syntax=it.syntax, shape=getattr(it, 'shape', '?'), lead=getattr(it, 'lead', ' '),
                            lines=[[l.acct, l.kind, amt_spec(l.amt), l.state, getattr(l, 'lead', '    '), getattr(l, 'sep', '    ')] for l in it.lines]))
        else:
            out.append(dict(date=it.date, state=it.state, shape=getattr(it, 'shape', '?'),
                            posts=[[q.acct, q.kind, amt_spec(q.amt), [q.cost[0], amt_spec(q.cost[1])] if q.cost else None,
                                    getattr(q, 'indent', '    '), getattr(q, 'sep', None)] for q in it.posts]))
    return out


def items_unspec(spec):
    items = []
    for d in spec:
        if 'scope' in d:
            items.append(Scope(d['scope'], d.get('name'), d.get('target')))
        elif 'rule' in d:
            r = Rule(pred_unspec(d['rule']), [Line(l[0], l[1], amt_unspec(l[2]), l[3]) for l in d['lines']], d['syntax'])
            for l, ld in zip(r.lines, d['lines']):
                if len(ld) > 5:
                    l.lead, l.sep = ld[4], ld[5]
            r.lead = d.get('lead', ' ')
            r.shape = d.get('shape', '?')
            items.append(r)
        else:
            t = Txn([X.Post(q[0], q[1], amt_unspec(q[2]), (q[3][0], amt_unspec(q[3][1])) if q[3] else None) for q in d['posts']],
                    d['date'], d['state'])
            for q, qd in zip(t.posts, d['posts']):
                if len(qd) > 5:
                    q.indent, q.sep = qd[4], qd[5]
            t.shape = d.get('shape', '?')
            items.append(t)
    return items


# ---------------------------------------------------------------------------- running ledger
ERRS = [
    ('Transaction does not balance', 'Unbalanced'),
    ('Only one posting with null amount allowed', 'TwoNulls'),
    ('There cannot be null amounts after balancing', 'NullLeft'),
    ("A posting's cost must be of a different commodity", 'CostSameComm'),
    ("Automated transaction's posting has no amount", 'NoAmount'),
    ('Divide by zero', 'DivZero'),
]


def parse_errors(err, ranges):
    res = {}
    for block in re.split(r'(?=While parsing file)', err.decode('utf-8', 'replace')):
        e = re.search(r'^Error: (.*)$', block, re.M)
        if not e:
            continue
        cls = 'Other'
        for pat, c in ERRS:
            if pat in e.group(1):
                cls = c
        extending = 'While applying automated transaction' in block
        h = re.search(r'While parsing file "[^"]*", lines? (\d+)', block)
        idx = None
        if h:
            ln = int(h.group(1))
            for i, (a, b) in ranges.items():
                if a <= ln <= b + 1:
                    idx = i
        if idx is None:
            res.setdefault('unlocated', []).append(cls + ': ' + e.group(1)[:80])
        else:
            res[idx] = (cls, extending)
    return res


def parse_rows(out):
    rows = {}
    for line in out.decode('utf-8', 'replace').split('\n'):
        f = line.split('|')
        if len(f) != 8 or not re.fullmatch(r'x\d+', f[0]):
            continue
        i = int(f[0][1:])
        da = f[1]
        kind, acct = 'r', da
        if da.startswith('(') and da.endswith(')'):
            kind, acct = 'v', da[1:-1]
        elif da.startswith('[') and da.endswith(']'):
            kind, acct = 'b', da[1:-1]
        a, c = X.canon_amount(f[6]), X.canon_amount(f[7])
        rows.setdefault(i, []).append(dict(
            acct=acct, kind=kind, generated=f[4] != 'true', amt=a, cost=c, state=f[5],
            text='%s,%s,%s,%s,%d%d%d,%s' % (acct, kind, X.show_canon(a), X.show_canon(c), f[2] == 'true', f[4] != 'true',
                                           f[3] == 'true', f[5])))
    return rows


def run_ledger(ctx, name, text, master=None):
    path = ctx.path(name)
    extra = ['--master-account', master] if master else []
    open(path, 'w').write(text)
    # ledger exits with the number of errors and names each one on stderr; anything else (the binary or its
    # library is being replaced by a concurrent build, exec failure) is retried before it is believed
    for attempt in range(5):
        try:
            st, out, err = lib.run_ledger(extra + ['-f', path, 'reg', '--empty', '--no-rounding', '--format', FMT])
        except OSError:
            if attempt == 4:
                raise
            time.sleep(1.5)
            continue
        odd = (not isinstance(st, int)) or st < 0 or st >= 126 or (st != 0 and b'Error:' not in err) or (st == 0 and not out)
        if not odd or attempt == 4:
            break
        time.sleep(1.5)
    return st, out, err


def run_clean(ctx, res, name, items, with_rules):
    """run the journal; if transactions are rejected run it again without them.
    -> (rows of the accepted transactions, {rejected index: (class, while extending)}, status)"""
    text, ranges = render(items, with_rules=with_rules)
    st, out, err = run_ledger(ctx, name, text, master_of(items))
    errs = parse_errors(err, ranges)
    rejected = {k: v for k, v in errs.items() if isinstance(k, int)}
    if errs.get('unlocated'):
        res.notes.append('unlocated errors: %s' % errs['unlocated'][:2])
    rows = parse_rows(out)
    if rejected:
        text2, _ = render(items, skip=set(rejected), with_rules=with_rules)
        st2, out2, err2 = run_ledger(ctx, name + '.clean', text2, master_of(items))
        rows = parse_rows(out2)
        if st2 != 0:
            res.notes.append('clean journal still has errors: %s' % err2.decode('utf-8', 'replace')[-200:])
    return rows, rejected, st, text


# ---------------------------------------------------------------------------- oracle
def expected_extension(rules_before, payee, base_rows, skip_finalize_generated=False):
    """the postings the property text requires after the rule-free rows, or None when a predicate's
    outcome is not determined by the text (a comparison across commodities).
    -> list of (rule number, acct, kind, sym, value, must_balance, id of the matched posting x rule)"""
    out = []
    gid = 0
    for rn, rule in rules_before:
        for row in base_rows:
            gid += 1
            # a rule-free row flagged generated was made by finalize from an elided amount that stands for several
            # commodities: by the property text it is a posting like any other (it was not made by a rule)
            if row['generated'] and skip_finalize_generated:
                continue
            sym, val = row['amt'][0], row['amt'][1]
            h = rule.pred.holds(payee, row['acct'], sym, val)
            if h is None:
                return None
            if not h:
                continue
            for l in rule.lines:
                if l.amt is None:
                    return out + [(rn, 'NOAMOUNT', None, None, None, False, gid)]
                if l.amt.sym is None:
                    s, v = sym, val * l.amt.value
                else:
                    s, v = l.amt.sym, l.amt.value
                out.append((rn, l.acct, l.kind.lower(), s, v, l.kind != 'V', gid))
    return out


def residual_after(base_rows, ext, upto_rule):
    tot = {}
    for r in base_rows:
        if r['kind'] != 'v':
            c = r['cost']
            tot[c[0]] = tot.get(c[0], 0) + c[1]
    for (rn, acct, kind, s, v, mb, gid) in ext:
        if rn <= upto_rule and mb:
            tot[s] = tot.get(s, 0) + v
    return {k: v for k, v in tot.items() if v != 0}


def display_state(resid):
    """how a per-commodity residual shows at the commodities' display precision:
    'zero' (every entry below half a unit), 'nonzero' (some entry above half a unit), None (an exact tie)"""
    state = 'zero'
    for sym, v in resid.items():
        half = F(1, 2 * 10 ** DEC.get(sym, 0))
        if abs(v) > half:
            return 'nonzero'
        if abs(v) == half:
            state = None
    return state


def groups_self_balancing(ext):
    """do the must-balance postings made for each matched posting sum to zero on their own?"""
    tot = {}
    for (rn, acct, kind, s, v, mb, gid) in ext:
        if mb:
            tot[(gid, s)] = tot.get((gid, s), 0) + v
    return all(v == 0 for v in tot.values())


def oracle(res, items, text, rows, rejected, base_rows, base_rejected):
    spec = items_spec(items)
    rules_seen = []
    i = 0
    for it, (names, aliases) in zip(items, resolve_items(items)):
        if isinstance(it, Scope):
            continue
        if isinstance(it, Rule):
            # the rule as the property text reads it: every line with the full account name it has at the rule's place
            view = Rule(it.pred, [Line(f, l.kind, l.amt, l.state) for l, f in zip(it.lines, names)], it.syntax)
            rules_seen.append((len(rules_seen), view))
            continue
        payee = 'x%d' % i
        case = dict(journal=text, xact=i, spec=spec)
        if i in base_rejected:
            # a transaction that is invalid on its own stays invalid
            if i not in rejected:
                res.violations.append(dict(key='invalid-transaction-accepted-with-rules', desc='rejected without rules (%s) but accepted with rules' % base_rejected[i][0],
                                           case=case, observed='accepted', required='rejected'))
            i += 1
            continue
        base = base_rows.get(i)
        if base is None:
            i += 1
            continue
        # every written posting sits in the account its name resolves to at its place in the file
        if [r['acct'] for r in base[:len(names)]] != names:
            res.violations.append(dict(key='posting-account-misresolved', desc='a posting is not in the account its written name resolves to (master account, apply account, alias)',
                                       case=case, observed=[r['acct'] for r in base[:len(names)]], required=names))
        ext = expected_extension(rules_seen, payee, base)
        if ext is None:
            res.count('oracle:undetermined-predicate')
            i += 1
            continue
        # what the code before /repo e69e5ce did (F33, repaired): the postings finalize makes from an elided amount that
        # stands for several commodities were skipped.  Only used to name that failure precisely.
        ext_old = expected_extension(rules_seen, payee, base, skip_finalize_generated=True)
        variants = [ext]
        noamt = [e for e in ext if e[1] == 'NOAMOUNT']
        has_cost = any(r['cost'] != r['amt'] for r in base)
        if i in rejected:
            cls, extending = rejected[i]
            if not rules_seen or not any(variants):
                res.violations.append(dict(key='untouched-transaction-rejected', desc='no rule precedes / matches this valid transaction but it was rejected (%s)' % cls,
                                           case=case, observed='ERR ' + cls, required='accepted unchanged'))
            elif cls == 'NoAmount':
                if not noamt:
                    res.violations.append(dict(key='no-amount-error-without-cause', desc='NoAmount error but every applicable rule line has an amount',
                                               case=case, observed='ERR NoAmount', required='accepted'))
            elif cls == 'Unbalanced':
                # some prefix of the rules must leave a non-zero residual
                if not noamt and has_cost and all(groups_self_balancing(e) for e in variants):
                    res.violations.append(dict(key='balanced-extension-rejected', desc='every matched posting received postings that balance among themselves, but the transaction (valid without rules) was rejected',
                                               case=case, observed='ERR Unbalanced', required='accepted'))
                if not noamt and not has_cost and all(display_state(residual_after(base, e, rn)) == 'zero' for rn, _ in rules_seen for e in variants):
                    res.violations.append(dict(key='balanced-extension-rejected', desc='after every rule the postings that must balance sum to zero at display precision, but the transaction was rejected',
                                               case=case, observed='ERR Unbalanced', required='accepted'))
            else:
                res.violations.append(dict(key='extension-error:' + cls, desc='unexpected error class %s' % cls, case=case,
                                           observed='ERR ' + cls, required='accepted or Unbalanced'))
            i += 1
            continue
        got = rows.get(i, [])
        n = len(base)
        # untouched prefix
        if [r['text'] for r in got[:n]] != [r['text'] for r in base]:
            res.violations.append(dict(key='original-postings-changed', desc='the postings present without rules are not an unchanged prefix of the transaction',
                                       case=case, observed=[r['text'] for r in got[:n]], required=[r['text'] for r in base]))
            i += 1
            continue
        if noamt:
            res.violations.append(dict(key='no-amount-line-accepted', desc='a matching rule has a line without amount but the transaction was accepted',
                                       case=case, observed='accepted', required='error'))
            i += 1
            continue
        suffix = got[n:]
        want = [(a, k, s, v) for (_, a, k, s, v, _, _) in ext]
        want_old = [(a, k, s, v) for (_, a, k, s, v, _, _) in ext_old] if ext_old is not None else want
        have = [(r['acct'], r['kind'], r['amt'][0], r['amt'][1]) for r in suffix]
        # a zero amount has no visible commodity requirement
        norm = lambda l: [(a, k, (s if v != 0 else None), v) for (a, k, s, v) in l]
        matched = True
        if norm(have) == norm(want):
            pass
        elif norm(have) == norm([(alias_step(aliases, a)[0], k, s_, v) for (a, k, s_, v) in want]):
            # finding F120: the account of a rule line goes through the aliases a second time (and through aliases
            # defined after the rule) when the posting is generated
            res.violations.append(dict(key='rule-line-account-re-aliased',
                                       desc='a generated posting is not in the account its rule line names at the rule\'s place: the name was expanded again by the aliases in force at the transaction',
                                       case=case, observed=[str(h) for h in have], required=[str(w) for w in want]))
        elif norm(have) == norm(want_old):
            # F33 (repaired): exactly the postings for the finalize-made part of an elided amount are missing
            res.violations.append(dict(key='elided-commodity-posting-not-matched',
                                       desc='a posting made by finalize for the second commodity of an elided amount matches a rule but received no postings',
                                       case=case, observed=[str(h) for h in have], required=[str(w) for w in want]))
        else:
            matched = False
            if not rules_seen:
                key = 'postings-added-before-any-rule'
            elif len(have) > len(want):
                key = 'extra-generated-postings'
            elif len(have) < len(want):
                key = 'missing-generated-postings'
            elif [h[1:] for h in norm(have)] == [w[1:] for w in norm(want)]:
                key = 'generated-posting-wrong-account'
            else:
                key = 'wrong-generated-posting'
            res.violations.append(dict(key=key, desc=('the generated postings are not in the accounts the rule lines resolve to at the rule\'s place (apply account / master account / alias)' if key == 'generated-posting-wrong-account' else 'generated postings differ from one-per-rule-line-per-match'), case=case,
                                       observed=[str(h) for h in have], required=[str(w) for w in want]))
        if matched and any(not r['generated'] for r in suffix):
            res.violations.append(dict(key='generated-flag-missing', desc='a rule-made posting is not flagged generated', case=case,
                                       observed=[r['text'] for r in suffix], required='generated'))
        if ext:
            res.nontrivial.add(it.text(0) + '|' + '|'.join(r.text() for _, r in rules_seen))
        # accepted iff the postings that must balance (original + generated) sum to zero at display precision, after
        # every rule that added such a posting
        if not has_cost:
            for rn, _ in rules_seen:
                resid = residual_after(base, ext, rn)
                if display_state(resid) == 'nonzero' and any(e[5] and e[0] <= rn for e in ext):
                    res.violations.append(dict(key='unbalanced-extension-accepted', desc='after rule %d the postings that must balance are off by %s, yet the transaction was accepted' % (rn, {k: str(v) for k, v in resid.items()}),
                                               case=case, observed='accepted', required='ERR Unbalanced'))
                    break
            # and the accepted report itself: the real and [balanced] rows of the transaction sum to zero
            tot = {}
            for r in got:
                if r['kind'] != 'v' and r['cost'] is not None:
                    tot[r['cost'][0]] = tot.get(r['cost'][0], 0) + r['cost'][1]
            tot = {k: v for k, v in tot.items() if v != 0}
            if display_state(tot) == 'nonzero':
                res.violations.append(dict(key='accepted-transaction-does-not-balance', desc='the real and [balanced] postings of an accepted transaction sum to %s' % {k: str(v) for k, v in tot.items()},
                                           case=case, observed='accepted', required='zero sum at display precision, or ERR Unbalanced'))
        i += 1


# ---------------------------------------------------------------------------- the check
def summary(i, rows, rejected):
    if i in rejected:
        return 'ERR ' + rejected[i][0]
    if i in rows:
        return 'OK ' + ';'.join(r['text'] for r in rows[i])
    return 'IGNORED'


def check_journal(ctx, res, j, items, model):
    jid = 'j%d' % j
    rows, rejected, st, text = run_clean(ctx, res, 'C16_%d.dat' % (j % 4), items, True)
    base_rows, base_rejected, _, _ = run_clean(ctx, res, 'C16_%d.norules.dat' % (j % 4), items, False)
    i = 0
    nrules = 0
    for it in items:
        if isinstance(it, Scope):
            res.count('scope:' + it.kind)
            continue
        if isinstance(it, Rule):
            nrules += 1
            res.count('rule:' + it.shape)
            if getattr(it, 'eqq', None):
                res.count('pred-eq-query-const:' + it.eqq)
            res.count('rule-lines:%d' % len(it.lines))
            continue
        res.evaluations += 1
        res.traces += 1
        mk, mrest = model.get((jid, i), ('MISSING', ''))
        impl = summary(i, rows, rejected)
        mod = (mk + ' ' + mrest).strip()
        res.count('impl:' + impl.split(' ')[0] + (':' + rejected[i][0] + (':extending' if rejected[i][1] else '') if i in rejected else ''))
        res.count('txn:' + it.shape)
        res.count('rules-before:%d' % nrules)
        if i in rows and i in base_rows and len(rows[i]) > len(base_rows[i]):
            res.count('txn-extended')
            if len(res.samples) < 4:
                res.samples.append(dict(xact=it.text(i), rules_before=nrules, impl=impl[:400]))
        if mk == 'ORDER-DEPENDENT':
            res.count('model:order-dependent')
        elif impl != mod:
            res.disagreements.append(dict(name='C16/extend', case=dict(journal=text, xact=i, spec=items_spec(items)), impl=impl, model=mod))
        i += 1
    if rejected and st == 0:
        res.violations.append(dict(key='error-exit-zero', desc='a transaction was rejected but the exit status is 0',
                                   case=dict(journal=text), observed='status 0', required='non-zero status'))
    oracle(res, items, text, rows, rejected, base_rows, base_rejected)


def fixed_journals():
    """hand-written shapes run on every seed"""
    P = X.Post
    A = X.Amt
    food = lambda v: Txn([P('Expenses:Food', 'R', A(F(v), 2, '$')), P('Assets:Cash', 'R', A(F(-v), 2, '$'))], '2020/01/05')
    js = []
    # a rule after, between and before its matches
    r1 = Rule(Pred('acct', 'Food'), [Line('Budget:Food', 'V', mult(('-1', 0)))], '/Food/')
    r1.shape = 'virtual-only'
    js.append([teach(), food(10), r1, food(20), food(30)])
    # the second rule matches the account the first rule posts to: no re-match, in either file order
    r2 = Rule(Pred('acct', 'Budget'), [Line('Tax:Fed', 'R', mult(('0.10', 2))), Line('Liabilities:Tax', 'R', mult(('-0.10', 2)))], 'Budget')
    r2.shape = 'balanced'
    js.append([teach(), r1, r2, food(10), Txn([P('Budget:Food', 'R', A(F(5), 2, '$')), P('Assets:Cash')], '2020/02/01')])
    js.append([teach(), r2, r1, food(10), Txn([P('Budget:Food', 'R', A(F(5), 2, '$')), P('Assets:Cash')], '2020/02/01')])
    # a rule that matches its own output account
    r3 = Rule(Pred('acct', 'Food'), [Line('Expenses:Food:Tip', 'R', mult(('0.5', 1))), Line('Assets:Cash', 'R', mult(('-0.5', 1)))], 'food')
    r3.shape = 'balanced'
    js.append([r3, teach(), food(10), food(7)])
    # unbalancing rule, and a pair of rules that only balance together
    r4 = Rule(Pred('acct', 'Food'), [Line('Tax:Fed', 'R', mult(('0.10', 2)))], '/Food/')
    r4.shape = 'unbalancing'
    r5 = Rule(Pred('acct', 'Food'), [Line('Liabilities:Tax', 'R', mult(('-0.10', 2)))], '/Food/')
    r5.shape = 'unbalancing'
    js.append([teach(), food(10), r4, food(10), r5, food(10)])
    # cleared transaction, pending transaction, marks on rule lines
    r6 = Rule(Pred('or', Pred('payee', 'x2'), Pred('gt', A(F(15), 0, None))),
              [Line('Budget:Food', 'V', mult(('1', 0)), 2), Line('Tax:Fed', 'B', A(F(1), 2, '$'), 1), Line('Tax:Src', 'B', A(F(-1), 2, '$'), 0)],
              'expr payee =~ /x2/ | amount > 15')
    r6.shape = 'balanced+virtual'
    t1, t2, t3 = food(10), food(12), food(20)
    t1.state, t2.state, t3.state = 1, 2, 0
    js.append([teach(), r6, t1, t2, t3])
    # F33 (repaired by /repo e69e5ce): an elided amount standing for two commodities; the rule must fire on both
    # postings finalize gives Assets:Cash, exactly as for the written-out twin; a second rule matching the first
    # rule's account must still see none of the rule-made postings
    r7 = Rule(Pred('acct', 'Cash'), [Line('Budget:Cash', 'V', mult(('1', 0)))], '/Cash/')
    r7.shape = 'virtual-only'
    r8 = Rule(Pred('acct', 'Budget'), [Line('Tax:Fed', 'V', mult(('0.5', 1)))], '/Budget/')
    r8.shape = 'virtual-only'
    two = lambda elide: Txn([P('Expenses:Food', 'R', A(F(10), 2, '$')), P('Expenses:Food', 'R', A(F(5), 2, 'EUR'))] +
                            ([P('Assets:Cash')] if elide else [P('Assets:Cash', 'R', A(F(-10), 2, '$')), P('Assets:Cash', 'R', A(F(-5), 2, 'EUR'))]),
                            '2020/03/01')
    js.append([teach(), r7, r8, two(True), two(False)])
    js.append([r8, r7, teach(), two(True)])
    # the balance re-check must not depend on which line of the rule comes last: an unbalanced real line followed by
    # a (virtual) line, the same lines the other way round, and with [balanced] / several matches / a small residue
    tax = lambda k='R', m=('0.10', 2): Line('Liabilities:Tax', k, mult(m))
    bud = lambda: Line('Budget:Food', 'V', mult(('-1', 0)))
    for lines in ([tax(), bud()], [bud(), tax()], [tax('B'), bud()], [tax(), Line('Tax:Fed', 'R', mult(('-0.10', 2))), bud()],
                  [tax(), Line('Tax:Fed', 'B', mult(('-0.099', 3))), bud()], [tax(), Line('Tax:Fed', 'R', mult(('-0.1001', 4))), bud()],
                  [Line('Tax:Fed', 'R', A(F(1), 2, '$')), Line('Liabilities:Tax', 'R', A(F(-1), 2, 'EUR')), bud()]):
        rr = Rule(Pred('acct', 'Expenses'), lines, '/Expenses/')
        rr.shape = 'fixed-recheck'
        js.append([teach(), rr, food(100), food(1),
                   Txn([P('Expenses:Food', 'R', A(F(30), 2, '$')), P('Expenses:Rent', 'R', A(F(-30), 2, '$'))], '2020/04/01')])
    # account scopes: a rule inside `apply account` resolves its lines below the scope, like the postings there;
    # around rules only / transactions only / both / nested / rule inside and match outside and the reverse;
    # --master-account; aliases before the rule (one round at the rule's place)
    def rl():
        rr = Rule(Pred('acct', 'Expenses:Food'), [Line('Budget:Food', 'V', mult(('-1', 0))), Line('Envelope:Food', 'B', mult(('-0.5', 1))),
                                                 Line('Envelope:Pool', 'B', mult(('0.5', 1)))], '/Expenses:Food/')
        rr.shape = 'fixed-scope'
        return rr
    ap, en = (lambda n='Personal': Scope('apply', n)), (lambda: Scope('end'))
    js.append([teach(), ap(), rl(), food(10), food(20), en(), food(30)])                       # both inside, one match outside after
    js.append([teach(), ap(), rl(), en(), food(10)])                                            # rule inside, match outside
    js.append([teach(), rl(), ap(), food(10), en(), food(20)])                                  # rule outside, match inside
    js.append([teach(), ap(), food(5), ap('Sub'), rl(), food(10), en(), food(20), en(), food(30)])   # nested once
    js.append([Scope('master', 'M'), teach(), ap(), rl(), food(10), en(), rl(), food(20)])      # with --master-account
    js.append([teach(), Scope('alias', 'Budget', 'Assets:Reserve:Budget'), ap(), rl(), food(10), en()])
    js.append([teach(), ap(), Scope('alias', 'Envelope', 'Env'), rl(), en(), food(10)])
    # the words of a predicate separated by TABs (the header is ONE string for the query lexer), TABs in rule lines
    for syn, pr in (('Expenses:Food\tor\tExpenses:Rent', Pred('or', Pred('acct', 'Expenses:Food'), Pred('acct', 'Expenses:Rent'))),
                    ('/Food/\tor\t/Rent/', Pred('or', Pred('acct', 'Food'), Pred('acct', 'Rent'))),
                    ('Expenses\tand\tnot\tRent', Pred('and', Pred('acct', 'Expenses'), Pred('not', Pred('acct', 'Rent')))),
                    ('expr\tamount > 15', Pred('gt', A(F(15), 0, None))),
                    ('payee\tx2 or\t@x3', Pred('or', Pred('payee', 'x2'), Pred('payee', 'x3'))),
                    ('Food \t and  Expenses', Pred('and', Pred('acct', 'Food'), Pred('acct', 'Expenses')))):
        rr = Rule(pr, [Line('Budget:Meals', 'V', mult(('-1', 0)))], syn)
        rr.shape = 'fixed-tabs'
        rr.lines[0].lead, rr.lines[0].sep = '\t', '\t'
        js.append([teach(), rr, food(10), food(20),
                   Txn([P('Expenses:Rent', 'R', A(F(30), 2, '$')), P('Assets:Cash', 'R', A(F(-30), 2, '$'))], '2020/04/01')])
    # constants, == and ?: in the predicate.  Looking at accounts only, post_pred answers (memo by account name: the
    # second and third transaction hit it); with a payee or amount operand it throws when it reaches that operand and
    # the full predicate decides.  `==` also holds when NEITHER side does; `= expr true` fires on every posting
    AC = lambda pat: Pred('acct', pat)
    T_, F_ = Pred('const', True), Pred('const', False)
    for pr in (Pred('eq', AC('Food'), AC('Expenses')), Pred('query', AC('Food'), F_, T_), T_, F_, Pred('eq', AC('Food'), F_),
               Pred('and', Pred('payee', 'x'), Pred('eq', AC('Food'), AC('Rent'))),
               Pred('query', AC('Cash'), Pred('gt', A(F(-15), 0, None)), AC('Food')),
               Pred('or', F_, Pred('query', Pred('eq', AC('Rent'), AC('Cash')), Pred('payee', 'x2'), T_)),
               Pred('eq', Pred('payee', 'x1'), Pred('not', AC('Food')))):
        rr = Rule(pr, [Line('Budget:Meals', 'V', mult(('-1', 0)))], 'expr ' + pr.expr_text())
        rr.shape = 'fixed-eq-query'
        rr.eqq = 'acct-only' if pr.acct_only() else 'mixed'
        js.append([teach(), rr, food(10), food(20),
                   Txn([P('Expenses:Rent', 'R', A(F(30), 2, '$')), P('Assets:Cash', 'R', A(F(-30), 2, '$'))], '2020/04/01')])
    for jn in js:
        for it in jn:
            if isinstance(it, Txn) and not hasattr(it, 'shape'):
                it.shape = 'fixed'
    return js


def run(ctx, n_override=None):
    rng = ctx.rng
    res = lib.Result()
    res.rule = ('journals interleaving 0-4 rules (account / payee substring predicates in query and expr syntax, amount comparisons, '
                '! & | combinations, and a stream with == ?: true false whose operands are nested two deep - half of them over accounts only, which post_pred answers and memoises, the others with payee / amount operands that send the rule to the full predicate when reached; 1-4 lines: multipliers with 0-8 decimals incl. 0 and negative, fixed amounts, real / (virtual) / '
                '[balanced] lines, state marks; balancing pairs, virtual-only, deliberately unbalancing, a line without amount; a family mixing real / [balanced] / (virtual) lines in every order whose must-balance lines sum to zero or miss it by a small residue, a missing counter-line or a counter-line in another commodity) with 1-30 '
                'transactions; blanks, TABs and runs of both between the words of a predicate, before and after the amounts; transactions (plain, elided incl. two commodities, virtual, cost, unbalanced; cleared/pending), `apply account` '
                'blocks around arbitrary stretches of the file (rules only, transactions only, both, nested once, rule inside and match '
                'outside and the reverse), --master-account, alias directives; after a transaction '
                'teaching each commodity its decimals; rules before, between and after the transactions; non-trivial = at least one rule '
                'precedes the transaction and the text requires at least one generated posting; distinct by transaction text + the '
                'rules before it')
    n = n_override or ctx.scale(600, 5000)
    jobs = []
    for k, items in enumerate(fixed_journals()):
        jobs.append(items)
    while len(jobs) < n:
        jobs.append(gen_journal(rng, big=(len(jobs) % 17 == 0)))
    model = X.model_lines_to_map(lib.run_model('C16', [journal_sx('j%d' % j, items) for j, items in enumerate(jobs)]))
    for j, items in enumerate(jobs):
        check_journal(ctx, res, j, items, model)
    return res


def search(ctx, broken):
    import random
    for s in range(3):
        ctx.rng = random.Random('C16-search-%d-%d' % (ctx.seed, s))
        r = run(ctx, n_override=400)
        if r.violations:
            return r.violations
    return []


def replay(ctx, obj):
    """re-run the stored journal: through ledger and the model (correspondence) and the oracle"""
    res = lib.Result()
    cases = [obj.get('case')] if obj.get('case') else [b.get('case') for b in obj.get('no_longer_checks', []) if b.get('case')]
    for k, case in enumerate(c for c in cases if c):
        if 'spec' in case:
            items = items_unspec(case['spec'])
            model = X.model_lines_to_map(lib.run_model('C16', [journal_sx('j%d' % k, items)]))
            check_journal(ctx, res, k, items, model)
        elif 'journal' in case:
            st, out, err = run_ledger(ctx, 'replay.dat', case['journal'])
            print('status', st)
            print(out.decode()[:4000])
            print(err.decode()[:3000])
    known = [k for k in lib.load_known_findings() if k['prop'] == 'C16']
    res.violations = [v for v in res.violations if not any(re.fullmatch(k['match'], v['key']) for k in known)
                      or v['key'] == obj.get('key')]
    return res
