"""C14 - dates read and print consistently; impossible dates are rejected.

Correspondence: journals of one-transaction-per-date-string (`DATE[=AUX] pN` + two postings, some
with `[DATE=AUX]` posting notes) are read by ledger and every date is printed back with
format_date(date, "%Y-%m-%d %a %u %w %j %y %e %b %A %B"); the extracted Coq model
(Model/Dates.v: parse_date, format_date) gets the same strings with the same current date and
--input-date-format list.  Compared per date string: accepted or the error class
(Invalid date / year out of range / day not valid for month), and the whole formatted text.
Several formats in one run are part of the input space: report formats with 2-4 different
format_date(date, FMT) / format_datetime(date, FMT) calls in random byte order, combined with
--date-format / --datetime-format / --input-date-format and with --dow, -M, --by-payee (which print
dates themselves through the same formatter cache); the oracle reads every field back in the
format it was requested in (in the model a formatter is a function of the format string alone).
Input formats with month and weekday NAMES (%b %B %h %a %A; g_names): the text the format prints, other
letter cases, the other name form, the weekday name of another day and a month name against the month
number (both must be rejected), impossible days by name, damaged names, trailing text; formats that begin
with a name are read as auxiliary dates.
Oracle: python's datetime (proleptic Gregorian) evaluates the property text on ledger's output:
an intended valid date must be accepted, print as that very day with the calendar's weekday and
day of the year; an impossible date or a date with trailing characters must be rejected; order
comparisons must be the calendar's."""
import datetime, os, re
from concurrent.futures import ThreadPoolExecutor
import lib

META = dict(
    id='C14',
    level='proof',
    technique='Coq proof (date reader/formatter model against the Gregorian calendar: round trips, soundness of acceptance, weekday, order) + differential correspondence of the extracted model against ledger, exhaustive over 1900..2199 in every accepted spelling',
    level_text='Theorems in coq/Properties/Properties_C14.v state, for all dates of boost\'s range 1400..9999 and all strings, that the model of parse_date (reader list regenerated from times.cc, separator rewriting, glibc strptime for %Y %m %d %e %y and the names %b %B %h %a %A, boost date construction, re-format-and-compare, year inference) accepts every accepted spelling of a valid date as exactly that day, accepts nothing that does not spell a valid date (month 13, day 32, 30 February, 29 February of a non-leap year, trailing characters are errors), that formatting a read date gives the same day, that weekday and order are those of the Gregorian calendar, and that day number <-> civil date conversions are inverse bijections. The model is tied to the code by reading every day 1900-01-01..2199-12-31 in six spellings, every impossible month/day for leap, non-leap and century years, MM/DD under year directives and --now, range ends, malformed strings, random --input-date-format/--date-format pairs, input formats with month and weekday names (exact text, other case, other form, wrong weekday, contradicting month, impossible day, damaged, trailing), and reports that ask for several different date formats in one run (2-7 per run, with --dow / -M / --by-payee) both in freshly built ledger and in the extracted model; the translator re-reads from times.cc that the formatter cache is keyed by the exact format string, the presets of the struct tm given to strptime and the byte the re-format-and-compare loop may skip (both used by the model), and from textual.cc how a year directive and the end of an included file move the current date (year directives under several clocks, nested, closed, and across `include`d files are generated; the current date of every transaction comes from the model\'s epoch machine).',
    level_note='Trusted: Coq kernel; extraction + OCaml driver and the python harness for the correspondence; glibc strptime/strftime modelled for the numeric directives (%Y %m %d %e %y %j %u %w, names %a %A %b %B %h in the C locale, read case-insensitively in either form) and validated differentially; boost::gregorian date construction, day numbers and month arithmetic transcribed in Base/Calendar.v and proved equal to the era-based calendar. A year-less MM/DD later in the year than today is taken from the previous year (same month and day; 29 February then has no counterpart and is an error).',
    design_ref='DESIGN.md section 7 C14, section 6.5',
    assumptions=['TZ=UTC, LC_ALL=C (weekday and month names)',
                 'date strings contain no white space when written as transaction dates (the journal tokenizer cuts there)',
                 'format strings use only the modelled directives and stay below 127 bytes when expanded',
                 'an abbreviated name directive (%b %h %a) of an input format is not directly followed by literal letters completing the full name (finding F222)'],
)

OUTF = '%Y-%m-%d %a %u %w %j %y %e %b %A %B'
WRITTEN = '%Y/%m/%d'
NOW = (2021, 6, 15)
SEPS = '/-.'


def hx(s):
    if isinstance(s, str):
        s = s.encode('latin-1')
    return s.hex() if s else '-'


def is_leap(y):
    return y % 4 == 0 and (y % 100 != 0 or y % 400 == 0)


def dim(y, m):
    return [31, 29 if is_leap(y) else 28, 31, 30, 31, 30, 31, 31, 30, 31, 30, 31][m - 1]


def py_valid(y, m, d):
    return 1 <= m <= 12 and 1 <= d <= dim(y, m)


WD = ['Mon', 'Tue', 'Wed', 'Thu', 'Fri', 'Sat', 'Sun']
WDFULL = ['Monday', 'Tuesday', 'Wednesday', 'Thursday', 'Friday', 'Saturday', 'Sunday']
MONTHS = ['January', 'February', 'March', 'April', 'May', 'June', 'July', 'August', 'September', 'October', 'November', 'December']


class DS:
    """one date string with what the generator meant by it.
    intent: ('date', (y,m,d)) the string is an accepted spelling of this valid day
            ('reject', why)   the string is not a real date: must be rejected
            None              the property text does not say (correspondence only)"""
    __slots__ = ('s', 'intent', 'kind')

    def __init__(self, s, intent, kind):
        self.s, self.intent, self.kind = s, intent, kind


class Tx:
    __slots__ = ('xd', 'xa', 'pd', 'pa', 'cur', 'pre', 'file')

    def __init__(self, xd, xa=None, pd=None, pa=None, cur=None, pre=(), file=None):
        self.xd, self.xa, self.pd, self.pa, self.cur, self.pre, self.file = xd, xa, pd, pa, cur, pre, file

    def parts(self):
        """date strings in the order ledger parses them (textual.cc parse_xact: aux first;
        item.cc parse_tags: aux first)"""
        if self.xa is None and self.pa is None and self.pd is None:
            return [('xd', self.xd)]
        return [(k, v) for k, v in (('xa', self.xa), ('xd', self.xd), ('pa', self.pa), ('pd', self.pd)) if v is not None]


def spell(y, m, d, s1='/', s2=None, zm=True, zd=True):
    s2 = s1 if s2 is None else s2
    return '%04d%s%s%s%s' % (y, s1, ('%02d' % m) if zm else str(m), s2, ('%02d' % d) if zd else str(d))


def spell_md(m, d, s1='/', zm=True, zd=True):
    return '%s%s%s' % (('%02d' % m) if zm else str(m), s1, ('%02d' % d) if zd else str(d))


# ------------------------------------------------------------------------------------------ running
ERR_CLASSES = [('Invalid date', 'Invalid'), ('Year is out of valid range', 'BadYear'),
               ('Day of month is not valid for year', 'BadDay'),
               ('Day of month value is out of range', 'BadDayRange'),
               ('Month number is out of range', 'BadMonth')]


def err_class(msg):
    for pat, c in ERR_CLASSES:
        if pat in msg:
            return c
    return 'Other:' + msg[:60]


def journal_files(txs, skip=(), tails=None, files=()):
    """transactions in reading order, each in its file (t.file; None = the journal itself) ->
    ({file: text}, [(file, first line, last line, idx)]).  `pre` lines (directives, `include NAME`)
    are written before their transaction in the same file; `tails[file]` after its last one."""
    out = {None: []}
    line = {None: 1}
    spans = []
    for f in files:
        out.setdefault(f, [])
        line.setdefault(f, 1)
    for i, t in enumerate(txs):
        f = t.file
        o = out.setdefault(f, [])
        line.setdefault(f, 1)
        for p in t.pre:
            o.append(p)
            line[f] += 1
        if i in skip:
            continue
        head = t.xd.s + ('=' + t.xa.s if t.xa is not None else '') + ' p%d' % i
        note = ''
        if t.pd is not None or t.pa is not None:
            note = '  ; [' + (t.pd.s if t.pd is not None else '') + ('=' + t.pa.s if t.pa is not None else '') + ']'
        o.append(head)
        o.append('    A  1' + note)
        o.append('    B')
        spans.append((f, line[f], line[f] + 2, i))
        line[f] += 3
    for f, tl in (tails or {}).items():
        out.setdefault(f, []).extend(tl)
    return {f: '\n'.join(o) + '\n' for f, o in out.items()}, spans


def journal_text(txs, skip=()):
    """single file: -> (text, [(first, last, idx)])"""
    texts, spans = journal_files(txs, skip)
    return texts[None], [(a, b, i) for _, a, b, i in spans]


def run_journal(ctx, name, txs, now, extra=(), outfmt=OUTF, date_format=None, more_args=(), fmt_override=None, tails=None, files=()):
    """Two passes: the first finds the rejected transactions (stderr), the second prints the
    accepted ones (ledger prints no report when any transaction failed).
    -> dict idx -> ('err', class) | ('ok', [fields]) | ('lost',)"""
    args = ['--now', '%d/%d/%d' % now]
    for e in extra:
        args += ['--input-date-format', e]
    if date_format is not None:
        args += ['--date-format', date_format]
    if date_format is not None and not fmt_override:
        fmt_override = '%(payee)|%(format_date(xact.date))|%(xact.aux_date)|%(date)|%(aux_date)\\n'
    fmt = fmt_override or ('%(payee)|%(format_date(xact.date, "' + outfmt + '"))|%(xact.aux_date)|%(format_date(date, "' + outfmt + '"))|%(aux_date)\\n')
    res = {}
    skip = set()
    for ps in range(3):
        texts, spans = journal_files(txs, skip, tails, files)
        if len(texts) == 1:
            path = ctx.path('%s.%d.dat' % (name, ps))
            with open(path, 'w', encoding='latin-1') as f:
                f.write(texts[None])
            mainbase = os.path.basename(path)
        else:
            d = ctx.path('%s.%d.d' % (name, ps))
            os.makedirs(d, exist_ok=True)
            mainbase = 'main.dat'
            for fn, text in texts.items():
                with open(os.path.join(d, fn or mainbase), 'w', encoding='latin-1') as f:
                    f.write(text)
            path = os.path.join(d, mainbase)
        st, out, err = lib.run_ledger(['-f', path, 'reg', 'A'] + args + list(more_args) + ['--format', fmt], timeout=300)
        errtxt = err.decode('latin-1')
        newerr = 0
        if errtxt.strip():
            import bisect
            byfile = {}
            for fn, a, b, i in spans:
                byfile.setdefault(fn or mainbase, []).append((a, b, i))
            for m in re.finditer(r'While parsing file "([^"]*)", line (\d+):[^\n]*\n(?:(?!While parsing file).*\n)*?Error: ([^\n]*)', errtxt):
                sp = byfile.get(os.path.basename(m.group(1)), [])
                ln = int(m.group(2))
                k = bisect.bisect_right([a for a, _, _ in sp], ln) - 1
                if k >= 0 and sp[k][0] <= ln <= sp[k][1]:
                    idx = sp[k][2]
                    if idx not in res:
                        res[idx] = ('err', err_class(m.group(3)))
                        skip.add(idx)
                        newerr += 1
            if newerr == 0:
                # an error that is not tied to a transaction: report as lost
                res['__stderr__'] = errtxt[:500]
                break
        if not errtxt.strip():
            for row in out.decode('latin-1').split('\n'):
                if row.startswith('p'):
                    f = row.split('|')
                    res[int(f[0][1:])] = ('ok', f[1:])
            break
    for i in range(len(txs)):
        res.setdefault(i, ('lost',))
    return res


def model_lines(txs, now, extra, outfmt):
    """-> (lines, keys): one model case per date string"""
    ex = '(' + ' '.join(hx(e) for e in extra) + ')'
    of = hx(outfmt)
    wf = hx(WRITTEN)
    lines, keys = [], []
    for i, t in enumerate(txs):
        cur = t.cur or now
        for k, ds in t.parts():
            lines.append('(p %d.%s %s %d %d %d %s %s)' % (i, k, ex, cur[0], cur[1], cur[2], hx(ds.s), of if k in ('xd', 'pd') else wf))
            keys.append((i, k))
    return lines, keys


def unhex(h):
    return '' if h == '-' else bytes.fromhex(h).decode('latin-1')


def model_results(lines, keys):
    out = lib.run_model('C14', lines)
    res = {}
    for (i, k), l in zip(keys, out):
        f = l.split(' ')
        if f[1] == 'err':
            res[(i, k)] = ('err', f[2])
        else:
            res[(i, k)] = ('ok', (int(f[2]), int(f[3]), int(f[4])), int(f[5]), int(f[6]), (None if f[7] == '?' else unhex(f[7])))
    return res


def model_expect(t, i, mres):
    """what ledger should print for transaction i according to the model"""
    for k, ds in t.parts():
        r = mres[(i, k)]
        if r[0] == 'err':
            return ('err', r[1])
    g = lambda k: mres[(i, k)][4] if (i, k) in mres else None
    xd, xa, pd, pa = g('xd'), g('xa'), g('pd'), g('pa')
    return ('ok', [xd, xa or '', pd if t.pd is not None else xd, (pa if t.pa is not None else xa) or ''])


# ------------------------------------------------------------------------------------------ oracle
def parse_outf(text):
    """'%Y-%m-%d %a %u %w %j ...' as printed -> (y, m, d, wdname, u, w, j) or None"""
    m = re.match(r'(\d{4})-(\d\d)-(\d\d) (\w{3}) (\d) (\d) (\d{3}) ', text)
    if not m:
        return None
    return (int(m.group(1)), int(m.group(2)), int(m.group(3)), m.group(4), int(m.group(5)), int(m.group(6)), int(m.group(7)))


def oracle_date_text(text, want, what):
    """the printed OUTF text of a date that should be the day `want`: None or (symptom, required)"""
    p = parse_outf(text)
    if p is None:
        return ('unreadable-output', 'a date')
    y, m, d = want
    if (p[0], p[1], p[2]) != (y, m, d):
        delta = ''
        try:
            delta = ' (%+d days)' % (datetime.date(p[0], p[1], p[2]) - datetime.date(y, m, d)).days
        except ValueError:
            pass
        return ('other-day', '%04d-%02d-%02d%s' % (y, m, d, delta))
    dt = datetime.date(y, m, d)
    if p[3] != WD[dt.weekday()] or p[4] != dt.isoweekday() or p[5] != dt.isoweekday() % 7:
        return ('wrong-weekday', WD[dt.weekday()])
    if p[6] != dt.timetuple().tm_yday:
        return ('wrong-day-of-year', str(dt.timetuple().tm_yday))
    return None


def expected_text(want):
    """the OUTF text of a day according to python's calendar"""
    y, m, d = want
    dt = datetime.date(y, m, d)
    wd = dt.weekday()
    return '%04d-%02d-%02d %s %d %d %03d %02d %2d %s %s %s' % (y, m, d, WD[wd], wd + 1, (wd + 1) % 7, dt.toordinal() - datetime.date(y, 1, 1).toordinal() + 1,
                                                           y % 100, d, MONTHS[m - 1][:3], WDFULL[wd], MONTHS[m - 1])


def judge_tx(t, impl, field_of=None):
    """Oracle on one transaction -> list of (key, desc, observed, required)"""
    parts = t.parts()
    if len(parts) == 1 and impl[0] == 'ok':
        it = parts[0][1].intent
        if it and it[0] == 'date':
            e = expected_text(it[1])
            if impl[1][0] == e and impl[1][2] == e:
                return ()
    out = []
    rejects = [(k, ds) for k, ds in parts if ds.intent and ds.intent[0] == 'reject']
    alldates = all(ds.intent and ds.intent[0] == 'date' for k, ds in parts)
    if impl[0] == 'ok':
        for k, ds in rejects:
            out.append(('accepted:%s:%s' % (ds.kind, ds.intent[1]), '%r is not a real date but was accepted' % ds.s, 'accepted as ' + '|'.join(impl[1]), 'an error'))
        if not rejects:
            f = impl[1]
            for k, ds in parts:
                if not (ds.intent and ds.intent[0] == 'date'):
                    continue
                want = ds.intent[1]
                if k == 'xd':
                    j = oracle_date_text(f[0], want, k)
                elif k == 'pd':
                    j = oracle_date_text(f[2], want, k)
                else:
                    txt = f[1] if k == 'xa' else f[3]
                    j = None if txt == '%04d/%02d/%02d' % want else ('other-day', '%04d/%02d/%02d' % want)
                if j and j[0] == 'other-day' and ds.kind == 'md-now' and k in ('xd', 'pd') and want[1:] == (2, 28):
                    p = parse_outf(f[0] if k == 'xd' else f[2])
                    if p and (p[0], p[1], p[2]) == (want[0], 2, 29):
                        # the class of the repaired defect F32 (/repo 9c78ad5); any other shift keeps the generic key
                        j = ('feb-28-becomes-feb-29-of-previous-leap-year', j[1])
                if j:
                    out.append(('shifted:%s:%s' % (ds.kind, j[0]), '%r read as a date prints as %r' % (ds.s, f), '|'.join(f), j[1]))
    elif impl[0] == 'err':
        if alldates:
            out.append(('rejected:%s' % '+'.join(sorted(set(ds.kind for k, ds in parts))), 'valid date(s) %r rejected (%s)' % ([ds.s for k, ds in parts], impl[1]), impl[1], 'accepted'))
    return out


# ------------------------------------------------------------------------------------------ groups
class Group:
    def __init__(self, name, txs, now=NOW, extra=(), outfmt=OUTF, date_format=None, tails=None, files=()):
        self.name, self.txs, self.now, self.extra, self.outfmt, self.date_format = name, txs, now, tuple(extra), outfmt, date_format
        self.tails, self.files = tails or {}, tuple(files)


def g_sweep(ctx, rng, y0, y1, step=1, offset=0):
    """every step-th day of [y0-01-01, y1-12-31] in the six spellings (separator x leading zeros)"""
    groups = []
    d0 = datetime.date(y0, 1, 1).toordinal()
    d1 = datetime.date(y1, 12, 31).toordinal()
    days = [datetime.date.fromordinal(o) for o in range(d0 + offset, d1 + 1, step)]
    for sep in SEPS:
        for z in (True, False):
            txs = []
            for dt in days:
                y, m, d = dt.year, dt.month, dt.day
                if z:
                    s = spell(y, m, d, sep)
                    kind = 'ymd' + sep + 'zeros'
                else:
                    if m >= 10 and d >= 10:
                        continue
                    r = rng.random()
                    zm = zd = False
                    if m < 10 and d < 10:
                        if r < 0.15:
                            zm = True
                        elif r < 0.3:
                            zd = True
                    s2 = sep if rng.random() < 0.9 else rng.choice(SEPS)
                    s = spell(y, m, d, sep, s2, zm, zd)
                    kind = 'ymd' + sep + 'nozeros'
                txs.append(Tx(DS(s, ('date', (y, m, d)), kind)))
            groups.append(Group('sweep%s%d' % ({'/': 's', '-': 'd', '.': 'p'}[sep], z), txs))
    return groups


SPECIAL_YEARS = [1900, 2000, 2100, 2020, 2021, 1400, 9999, 2196, 1600, 1999]


def g_impossible(ctx, rng, years):
    """every month 0..13 x day 0..32 for the given years, '/' or a random separator, with and
    without leading zeros"""
    txs = []
    for y in years:
        for m in range(0, 14):
            for d in range(0, 33):
                for z in (True, False):
                    if not z and m >= 10 and d >= 10:
                        continue
                    sep = rng.choice('///-.')
                    s = spell(y, m, d, sep, None, z or m >= 10, z or d >= 10)
                    if py_valid(y, m, d):
                        intent = ('date', (y, m, d))
                        kind = 'ymd' + sep + ('zeros' if z else 'nozeros')
                    else:
                        intent = ('reject', 'month-%d' % m if not 1 <= m <= 12 else ('day-%d' % d if not 1 <= d <= 31 else 'day-%d-of-month-%d-%s' % (d, m, 'leap' if is_leap(y) else 'nonleap')))
                        kind = 'impossible'
                    txs.append(Tx(DS(s, intent, kind)))
    return [Group('impossible', txs)]


def g_malformed(ctx, rng, n):
    """valid dates damaged: trailing / leading characters, 5- and 3-digit years, 2-digit years,
    range ends, doubled separators, over-long strings, white space inside note dates"""
    txs = []

    def rd():
        y = rng.choice([rng.randrange(1400, 10000), rng.randrange(1900, 2200), 2020, 2021])
        m = rng.randrange(1, 13)
        return y, m, rng.randrange(1, dim(y, m) + 1)
    for y, m, d, ok in [(1399, 12, 31, 0), (1400, 1, 1, 1), (9999, 12, 31, 1), (1400, 2, 29, 0), (9996, 2, 29, 1), (1000, 1, 1, 0), (999, 1, 1, 0), (0, 1, 1, 0), (1, 1, 1, 0)]:
        for sep in SEPS:
            s = spell(y, m, d, sep)
            txs.append(Tx(DS(s, ('date', (y, m, d)) if ok else None, 'range-end')))
    for s in ['10000/01/01', '12345/01/01', '02021/01/05', '999/01/01', '99/01/01', '21/01/05', '69/12/31', '68/1/1', '5/6/7', '11/12/13',
              '13/12/11', '2021/0105', '20210105', '2021/01', '2021/1', '2021/13', '2021/00', '2021-01', '2021.12', '1399/12', '2021', '12', '0', '00/00',
              '12/25/2021', '05/2021', '1/1/1', '2021/01/05/', '2021//05', '2021/01//05', '2021/1/5/6', '2021/001/05', '2021/01/005',
              '2021/1/50', '2021/10/1', '2021/1/10', '2021/01/1x', '2021/01/05x', '2021/01/05.', '2021/01/05-', '2021/01/050', 
              '2021/+1/05', '2021/1/+5', '2021/0x1/05', '2021/\xe9/05', '2021/01/0', '2021/0/1', '0000/00/00', '2021/02/29', '1900/02/29', '2000/02/29', '2100/2/29']:
        txs.append(Tx(DS(s, None, 'malformed')))
    for _ in range(n):
        y, m, d = rd()
        k = rng.randrange(9)
        # a digit appended to a one-digit day would spell another valid day: keep two digits there
        base = spell(y, m, d, rng.choice(SEPS), None, rng.random() < 0.7 or m >= 10, k in (0, 7) or rng.random() < 0.7 or d >= 10)
        if k == 0:
            s, intent, kind = base + rng.choice(['x', '0', '/', '.', '-', '1', '/1', 'th', '%', ',']), ('reject', 'trailing'), 'trailing'
        elif k == 1:
            s, intent, kind = rng.choice(['0', '1', '00']) + base, None, 'leading'
        elif k == 2:
            s, intent, kind = base.replace(base[4], base[4] * 2, 1), None, 'doubled-separator'
        elif k == 3:
            s, intent, kind = '0' * rng.choice([118, 119, 130]) + base, None, 'long'
        elif k == 4:
            s, intent, kind = base[:rng.randrange(1, len(base))], None, 'truncated'
        elif k == 5:
            p = rng.randrange(len(base))
            s, intent, kind = base[:p] + rng.choice('0123456789/x') + base[p + 1:], None, 'mutated'
        elif k == 6:
            s, intent, kind = str(y % 100) + base[4:], None, 'two-digit-year'
        elif k == 7:
            s, intent, kind = base + base[4] + str(rng.randrange(0, 100)), ('reject', 'trailing'), 'trailing'
        else:
            s, intent, kind = base, ('date', (y, m, d)), 'ymd'
        if not s or not s[0].isdigit() or '=' in s or ' ' in s:
            continue
        txs.append(Tx(DS(s, intent, kind)))
    # dates in posting notes and auxiliary dates; white space can only occur there
    for _ in range(n // 2):
        y, m, d = rd()
        y2, m2, d2 = rd()
        good = DS(spell(y, m, d, rng.choice(SEPS), None, rng.random() < 0.5 or m >= 10, rng.random() < 0.5 or d >= 10), ('date', (y, m, d)), 'ymd')
        other = DS(spell(y2, m2, d2, rng.choice(SEPS)), ('date', (y2, m2, d2)), 'ymd')
        bad_d = rng.choice([0, 32, dim(y2, m2) + 1])
        bad = DS(spell(y2, m2, bad_d), ('reject', 'day-%d' % bad_d if not 1 <= bad_d <= 31 else 'day-%d-of-month-%d-%s' % (bad_d, m2, 'leap' if is_leap(y2) else 'nonleap')), 'impossible')
        ws = DS(spell(y2, m2, d2).replace('/', rng.choice(['/ ', ' /', '/\t']), 1), None, 'whitespace')
        k = rng.randrange(8)
        if k == 0:
            txs.append(Tx(good, xa=other))
        elif k == 1:
            txs.append(Tx(good, xa=bad))
        elif k == 2:
            txs.append(Tx(good, pd=other))
        elif k == 3:
            txs.append(Tx(good, pd=bad))
        elif k == 4:
            txs.append(Tx(good, pd=other, pa=DS(spell(y, m, d), ('date', (y, m, d)), 'ymd')))
        elif k == 5:
            txs.append(Tx(good, pa=other))
        elif k == 6:
            txs.append(Tx(good, pd=ws))
        else:
            txs.append(Tx(good, xa=other, pd=DS(spell(y, m, d, '-'), ('date', (y, m, d)), 'ymd-zeros'), pa=bad if rng.random() < 0.3 else other))
    return [Group('malformed', txs)]


def md_intent(cur, m, d, under_directive):
    """what MM/DD means: that month and day of the current year (always so under a year directive,
    which makes 31 December the current date), or - without a directive, when the month is later
    than today's - of the previous year."""
    cy, cm, cd = cur
    y = cy if (under_directive or m <= cm) else cy - 1
    if not (1 <= m <= 12 and 1 <= d <= 31):
        return ('reject', 'month-%d' % m if not 1 <= m <= 12 else 'day-%d' % d)
    if not py_valid(y, m, d):
        # the day does not exist in the year the string denotes (30 February; 29 February of a
        # non-leap year)
        return ('reject', 'day-%d-of-month-%d-%s' % (d, m, 'leap' if is_leap(y) else 'nonleap'))
    if not py_valid(cy, m, d):
        # 29 February of the previous (leap) year written in January/February of a non-leap year:
        # ledger builds the date in the current year first and refuses it; the text is silent
        return None
    if not 1400 <= y <= 9999:
        return None
    return ('date', (y, m, d))


def g_md_directive(ctx, rng, years):
    txs = []
    # the clock's own year comes first (the directive meets today's date) and once more after a
    # closed `apply year` block of another year (the directive meets the restored clock)
    years = [NOW[0]] + [y for y in years if y != NOW[0]]
    years = years[:2] + [NOW[0]] + years[2:]
    for bi, y in enumerate(years):
        style = 2 if bi == 1 else rng.randrange(3)
        pre = [['Y %d' % y], ['year %d' % y], ['apply year %d' % y]][style]
        first = True
        for m in range(0, 14):
            for d in range(0, 33):
                if (m in (0, 13) or d in (0, 32)) and rng.random() < 0.5:
                    continue
                for z in (True, False):
                    if not z and m >= 10 and d >= 10:
                        continue
                    s = spell_md(m, d, rng.choice('///-.'), z or m >= 10, z or d >= 10)
                    if not s[0].isdigit():
                        continue
                    cur = (y, 12, 31)
                    txs.append(Tx(DS(s, md_intent(cur, m, d, True), 'md-directive'), cur=cur, pre=tuple(pre) if first else ()))
                    first = False
        if style == 2:
            # closes the scope: the epoch goes back to what it was; the next block sets it again
            txs.append(Tx(DS(spell(y, 1, 1), ('date', (y, 1, 1)), 'ymd/zeros'), cur=(y, 12, 31)))
            txs.append(Tx(DS(spell(y, 1, 2), ('date', (y, 1, 2)), 'ymd/zeros'), pre=('end apply year',), cur=None))
    return [Group('md-directive', txs)]


def g_md_epoch(ctx, rng, nows, nblocks):
    """year directives in every form and order under several clocks: the directive names the clock's
    own year, another year, is repeated, nested (`apply year` inside `apply year`), closed by
    `end apply year` / `end apply` / `end`; year-less dates (also as auxiliary and posting-note dates)
    of every month after each step.  The oracle keeps its own stack of directive years."""
    groups = []
    for gi, now in enumerate(nows):
        txs = []
        stack = []                      # (year, is_apply)
        pending = []
        for b in range(nblocks):
            r = rng.random()
            if stack and stack[-1][1] and r < 0.3:
                stack.pop()
                pending.append(rng.choice(['end apply year', 'end apply', 'end']))
            else:
                yr = rng.choice([now[0]] * 5 + [now[0] - 1, now[0] + 1, (stack[-1][0] if stack else now[0])] + [rng.randrange(1401, 9999)])
                yr = min(max(yr, 1401), 9998)
                is_apply = rng.random() < 0.5
                if b == 0:
                    yr = now[0] if gi % 2 == 0 else yr
                form = 'apply year %d' if is_apply else rng.choice(['Y %d', 'Y%d', 'year %d', 'Y  %d'])
                pending.append(form % yr)
                stack.append((yr, is_apply))
            cy = stack[-1][0] if stack else None
            yy = cy if cy is not None else now[0]
            picks = []
            for m in range(1, 13):
                picks.append((m, rng.choice([1, 15, dim(yy, m), 28, rng.randrange(1, 29)])))
            picks.append((2, 29))
            picks.append((rng.choice([0, 13]), 5))
            rng.shuffle(picks)
            for m, d in picks[:rng.randrange(8, 15)]:
                z = rng.random() < 0.6
                mk = lambda mm, dd: DS(spell_md(mm, dd, rng.choice('///-.'), z or mm >= 10, z or dd >= 10),
                                       md_intent((cy, 12, 31), mm, dd, True) if cy is not None else md_intent(now, mm, dd, False),
                                       'md-directive' if cy is not None else 'md-now')
                ds = mk(m, d)
                if not ds.s[0].isdigit():
                    continue
                k = rng.random()
                m2, d2 = rng.randrange(1, 13), rng.randrange(1, 29)
                if k < 0.7:
                    t = Tx(ds)
                elif k < 0.8:
                    t = Tx(ds, xa=mk(m2, d2))
                elif k < 0.9:
                    t = Tx(DS(spell(yy, 1, 2), ('date', (yy, 1, 2)), 'ymd/zeros'), pd=ds)
                else:
                    t = Tx(DS(spell(yy, 1, 2), ('date', (yy, 1, 2)), 'ymd/zeros'), pa=ds)
                t.pre = tuple(pending)
                t.cur = now               # replaced by the model's epoch (assign_epochs)
                pending = []
                txs.append(t)
        groups.append(Group('md-epoch-%d' % gi, txs, now=now))
    return groups


def g_md_include(ctx, rng, nows, nsteps, leaky):
    """year directives and `include`: the including file has a directive in force (or none), includes
    files that have no directive of their own, leave one open, close an `apply year`, include further
    files; year-less dates before, inside and after each include.  Directive scope as the oracle sees
    it is per file: what an included file sets ends with that file, what the includer set goes on.
    leaky=True additionally lets included files leave TWO year directives open (the shape of the
    repaired defect F106, /repo cbfca66: the first of them used to stay in force in the includer);
    the dates read after such a file are judged like all others."""
    groups = []
    for gi, now in enumerate(nows):
        txs, tails, files = [], {}, []
        state = dict(tainted=False, nfile=0)

        def eff(stacks):
            for st in reversed(stacks):
                if st:
                    return st[-1][0]
            return None

        def dates(stacks, fname, pending, n):
            cy = eff(stacks)
            yy = cy if cy is not None else now[0]
            for _ in range(n):
                m = rng.randrange(1, 13)
                d = rng.choice([1, 15, dim(yy, m), 28, rng.randrange(1, 29), 29 if m == 2 else 30])
                z = rng.random() < 0.6
                kind = ('md-directive' if cy is not None else 'md-now') + ('-after-two-open-include' if state['tainted'] else '')
                ds = DS(spell_md(m, d, rng.choice('///-.'), z or m >= 10, z or d >= 10),
                        md_intent((cy, 12, 31), m, d, True) if cy is not None else md_intent(now, m, d, False), kind)
                k = rng.random()
                if k < 0.8:
                    t = Tx(ds)
                elif k < 0.9:
                    t = Tx(DS(spell(yy, 1, 2), ('date', (yy, 1, 2)), 'ymd/zeros'), pd=ds)
                else:
                    t = Tx(ds, xa=DS(spell(yy, 3, 4, '-'), ('date', (yy, 3, 4)), 'ymd-zeros'))
                t.file, t.pre, t.cur = fname, tuple(pending), now
                del pending[:]
                txs.append(t)

        def directive(stacks, pending, yr=None):
            yr = yr if yr is not None else rng.choice([now[0], now[0] - 1, now[0] + 1, 2019, 2020, rng.randrange(1401, 9999)])
            is_apply = rng.random() < 0.5
            pending.append(('apply year %d' if is_apply else rng.choice(['Y %d', 'year %d', 'Y%d'])) % yr)
            stacks[-1].append((yr, is_apply))

        def include(stacks, pending, depth):
            state['nfile'] += 1
            fname = 'inc%d.dat' % state['nfile']
            files.append(fname)
            pending.append('include ' + fname)
            parent_pending = pending
            sub = []          # lines waiting for the next transaction of the included file
            stacks.append([])
            shape = rng.choice(['plain', 'plain', 'one-open', 'closed', 'closed-then-dates', 'nested'] + (['two-open'] * 3 if leaky else []))
            # the include line must be written before the included file's transactions are numbered:
            # flush it onto a transaction of the includer only later; transactions are in reading order,
            # so the included file's come first and carry their own `pre`
            if rng.random() < 0.6:
                dates(stacks, fname, sub, rng.randrange(1, 4))
            if shape == 'one-open':
                directive(stacks, sub)
                dates(stacks, fname, sub, rng.randrange(1, 4))
            elif shape.startswith('closed'):
                sub.append('apply year %d' % rng.choice([now[0] - 2, 2018, rng.randrange(1401, 9999)]))
                stacks[-1].append((int(sub[-1].split()[-1]), True))
                dates(stacks, fname, sub, rng.randrange(1, 4))
                stacks[-1].pop()
                sub.append(rng.choice(['end apply year', 'end apply', 'end']))
                if shape == 'closed-then-dates':
                    dates(stacks, fname, sub, rng.randrange(1, 3))
            elif shape == 'nested' and depth < 2:
                if rng.random() < 0.5:
                    directive(stacks, sub)
                include(stacks, sub, depth + 1)
                dates(stacks, fname, sub, rng.randrange(1, 3))
            elif shape == 'two-open':
                directive(stacks, sub)
                if rng.random() < 0.5:
                    dates(stacks, fname, sub, rng.randrange(1, 3))
                directive(stacks, sub)
                if rng.random() < 0.7:
                    dates(stacks, fname, sub, rng.randrange(1, 3))
            if sub:
                tails.setdefault(fname, []).extend(sub)
            own = stacks.pop()
            if len(own) >= 2:
                state['tainted'] = True
            return parent_pending

        stacks = [[]]
        pending = []
        for b in range(nsteps):
            r = rng.random()
            if b == 0 and gi % 3 != 2:
                directive(stacks, pending, yr=rng.choice([2019, now[0] - 2, now[0] + 3]))
            elif r < 0.2:
                directive(stacks, pending)
            elif r < 0.3 and stacks[-1] and stacks[-1][-1][1]:
                stacks[-1].pop()
                pending.append(rng.choice(['end apply year', 'end apply', 'end']))
            elif r < 0.65:
                include(stacks, pending, 1)
                # pending lines written so far belong BEFORE the included file's transactions in reading
                # order only if they are attached to a main-file transaction that follows; the include
                # line itself must precede: handled by journal_files through the order of `pre`
            dates(stacks, None, pending, rng.randrange(2, 6))
        groups.append(Group('md-include%s-%d' % ('-leaky' if leaky else '', gi), txs, now=now, tails=tails, files=files))
    return groups


def g_md_now(ctx, rng, nows):
    groups = []
    for now in nows:
        txs = []
        for m in range(1, 13):
            for d in range(1, 32):
                for z in (True, False):
                    if not z and m >= 10 and d >= 10:
                        continue
                    s = spell_md(m, d, rng.choice('///-.'), z or m >= 10, z or d >= 10)
                    txs.append(Tx(DS(s, md_intent(now, m, d, False), 'md-now'), cur=now))
        groups.append(Group('md-now-%d-%d-%d' % now, txs, now=now))
    return groups


IN_SEPS = ['/', '-', '.', ':', '_', ',', '', '', 'T', 'x', '%%']
OUT_DIRS = ['%Y', '%m', '%d', '%y', '%e', '%j', '%u', '%w', '%a', '%A', '%b', '%B', '%h']   # no %% here: ledger's --format parser does not pass it through


def expand_in(fmt, y, m, d, zm=True, zd=True):
    """python rendering of an input format over %Y %m %d %y %% (what the user would write)"""
    out = []
    i = 0
    while i < len(fmt):
        if fmt[i] == '%':
            c = fmt[i + 1]
            out.append({'Y': '%04d' % y, 'm': ('%02d' % m) if zm else str(m), 'd': ('%02d' % d) if zd else str(d),
                        'y': '%02d' % (y % 100), '%': '%'}[c])
            i += 2
        else:
            out.append(fmt[i])
            i += 1
    return ''.join(out)


def g_custom(ctx, rng, npairs, per):
    groups = []
    for gi in range(npairs):
        fields = rng.choice([['%Y', '%m', '%d']] * 6 + [['%y', '%m', '%d']] * 2 + [['%m', '%d'], ['%Y', '%m']])
        fields = list(fields)
        rng.shuffle(fields)
        s1, s2 = rng.choice(IN_SEPS), rng.choice(IN_SEPS)
        infmt = fields[0] + s1 + fields[1] + (s2 + fields[2] if len(fields) > 2 else '')
        if rng.random() < 0.15:
            infmt = infmt + rng.choice(['Z', '!', '%%'])
        if rng.random() < 0.1:
            infmt = rng.choice(['d', '#']) + infmt
        nout = rng.randrange(1, 7)
        outfmt = ''
        for k in range(nout):
            outfmt += rng.choice(OUT_DIRS) + rng.choice(['-', '/', '.', ' ', ':', '', ',', '_'])
        if not outfmt.strip() or outfmt.endswith(' ') or outfmt.startswith(' '):
            outfmt = 'D' + outfmt + 'E'
        extra = [infmt]
        if rng.random() < 0.2:
            extra = [rng.choice(['%d.%m.%Y', '%Y%m%d', '%m/%d/%Y'])] + extra
        complete = all(x in infmt for x in ('%m', '%d')) and ('%Y' in infmt or '%y' in infmt)
        now = rng.choice([NOW, (2021, 1, 15), (2020, 12, 31), (2024, 2, 29)])
        txs = []
        for k in range(per):
            if '%y' in infmt and rng.random() < 0.8:
                y = rng.randrange(1969, 2069)
            else:
                y = rng.choice([rng.randrange(1400, 10000), rng.randrange(1900, 2200)])
            m = rng.randrange(1, 13)
            d = rng.randrange(1, dim(y, m) + 1)
            r = rng.random()
            if r < 0.5:
                zm, zd = rng.random() < 0.7, rng.random() < 0.7
                s = expand_in(infmt, y, m, d, zm, zd)
                intent = None
                fixed_ok = (zm or m >= 10) and (zd or d >= 10)
                if complete and fixed_ok and ('%Y' in infmt or 1969 <= y <= 2068) and len(extra) == 1:
                    intent = ('date', (y, m, d))
                kind = 'custom'
            elif r < 0.62:
                bd = rng.choice([0, 32, dim(y, m) + 1, 31, 30, 29])
                bm = rng.choice([m, m, 0, 13, 2])
                s = expand_in(infmt, y, bm, bd)
                intent = None
                if complete and ('%Y' in infmt) and not py_valid(y, bm, bd) and len(extra) == 1:
                    intent = ('reject', 'custom-impossible')
                kind = 'custom-impossible'
            elif r < 0.72:
                s = expand_in(infmt, y, m, d) + rng.choice(['x', '0', '/', '1'])
                intent, kind = None, 'custom-trailing'
            else:
                # default spellings while an input format is set: no separator rewriting any more
                sep = rng.choice(SEPS)
                s = spell(y, m, d, sep, rng.choice([None, None, rng.choice(SEPS)]), rng.random() < 0.7 or m >= 10, rng.random() < 0.7 or d >= 10)
                intent, kind = None, 'default-under-custom'
            if not s or not s[0].isdigit() or '=' in s or ' ' in s or ';' in s:
                continue
            txs.append(Tx(DS(s, intent, kind), cur=now))
        groups.append(Group('custom%d' % gi, txs, now=now, extra=extra, outfmt=outfmt))
    return groups


# ------------------------------------------------------------------------------------------ names in input formats
NAME_FMTS_DIGIT_FIRST = ['%d-%b-%Y', '%d%b%Y', '%Y-%b-%d', '%d.%B.%Y', '%Y/%m/%d,%a', '%Y/%m/%d(%A)', '%d_%h_%Y', '%Y%b%d', '%d-%b-%y',
                         '%d/%b', '%Y-%B', '%m/%d/%Y_%a', '%d%B%Y%A', '%Y.%m.%d.%a.%b', '%d%bch%Y', '%d%be%Y', '%Y%m%d%aday', '%d%buary%Y', '%Y%a%m%d', '%d%B,%Y', '%d%b%a%Y',
                         '%d-%B-%y', '%Y%B%d', '%d%Bx%Y', '%Y/%b/%d', '%d%A%b%Y', '%Y.%m.%d.%b', '%d/%m(%B)%Y', '%m-%d-%Y,%h']
NAME_FMTS_NAME_FIRST = ['%a,%Y/%m/%d', '%A,%d.%m.%Y', '%b-%d-%Y', '%B/%d/%Y', '%a,%d%b%Y', '%A%B%d,%Y', '%b%d', '%h.%d.%Y', '%a%d%m%Y', '%b%Y', '%A%d%B%y']


def expand_names(fmt, y, m, d, wd=None, mname=None):
    """python rendering of an input format over %Y %m %d %y %b %B %h %a %A %% for the day (y, m, d);
    wd / mname override the weekday (0 = Monday) / the month whose NAME is written"""
    if wd is None:
        wd = datetime.date(y, m, d).weekday()
    mn = m if mname is None else mname
    out = []
    i = 0
    while i < len(fmt):
        if fmt[i] == '%':
            c = fmt[i + 1]
            out.append({'Y': '%04d' % y, 'm': '%02d' % m, 'd': '%02d' % d, 'y': '%02d' % (y % 100), '%': '%',
                        'b': MONTHS[mn - 1][:3], 'h': MONTHS[mn - 1][:3], 'B': MONTHS[mn - 1], 'a': WD[wd], 'A': WDFULL[wd]}[c])
            i += 2
        else:
            out.append(fmt[i])
            i += 1
    return ''.join(out)


def abbrev_continued(fmt, y, m, d):
    """does the text the format prints for this day hold an abbreviated name (%b %h %a) directly
    followed by literal characters that spell the rest of the FULL name (`%bch` in March, `%be` in
    June, `%aday` on a Sunday)?  strptime reads either form of a name for either directive, the full
    name first (finding F222)."""
    wd = datetime.date(y, m, d).weekday()
    for mt in re.finditer(r'%([bha])((?:[^%]|%%)*)', fmt):
        full = WDFULL[wd] if mt.group(1) == 'a' else MONTHS[m - 1]
        rest = full[3:]
        lit = mt.group(2).replace('%%', '%')
        if rest and lit.lower().startswith(rest.lower()):
            return True
    return False


def swap_name_forms(fmt):
    """the same format with abbreviated and full names exchanged"""
    return fmt.replace('%b', '%\0').replace('%h', '%\0').replace('%B', '%b').replace('%\0', '%B').replace('%a', '%\1').replace('%A', '%a').replace('%\1', '%A')


def g_names(ctx, rng, ngroups, per):
    """--input-date-format with month and weekday NAMES (%b %B %h %a %A): the exact text the format
    prints for a day, the same with another letter case, with the full name where the abbreviation
    belongs (and back), with the name of another weekday or month, with an impossible day, with damaged
    names.  Formats that begin with a name are read as auxiliary dates (DATE=AUX, [=AUX] in a posting
    note): a transaction line begins with a digit."""
    groups = []
    for gi in range(ngroups):
        first = rng.random() < 0.4
        fmt = rng.choice(NAME_FMTS_NAME_FIRST if first else NAME_FMTS_DIGIT_FIRST)
        has_wd = '%a' in fmt or '%A' in fmt
        has_mname = any(x in fmt for x in ('%b', '%B', '%h'))
        complete = ('%d' in fmt) and ('%m' in fmt or has_mname) and ('%Y' in fmt or '%y' in fmt)
        now = rng.choice([NOW, (2021, 1, 15), (2024, 2, 29), (1999, 12, 31)])
        extra = [fmt]
        if rng.random() < 0.2:
            extra = [rng.choice(['%d.%m.%Y', '%Y%m%d', '%d-%b-%Y', '%Y-%B-%d'])] + extra     # fmt is tried first (push_front)
        txs = []
        for k in range(per):
            if '%y' in fmt and rng.random() < 0.8:
                y = rng.randrange(1969, 2069)
            else:
                y = rng.choice([rng.randrange(1400, 10000), rng.randrange(1900, 2200), 2020, 2021])
            m = rng.randrange(1, 13)
            d = rng.randrange(1, dim(y, m) + 1)
            year_ok = '%Y' in fmt or 1969 <= y <= 2068
            r = rng.random()
            intent = None
            if r < 0.35:
                s, kind = expand_names(fmt, y, m, d), 'names'
                if abbrev_continued(fmt, y, m, d):
                    kind = 'names-abbreviation-followed-by-rest-of-full-name'
                if complete and year_ok and len(extra) == 1:
                    intent = ('date', (y, m, d))
            elif r < 0.47:
                s0 = expand_names(fmt, y, m, d)
                s = rng.choice([s0.lower(), s0.upper(), s0.swapcase(), ''.join(c.upper() if rng.random() < 0.3 else c for c in s0)])
                kind = 'names-case'
                if s == s0:
                    continue
            elif r < 0.57:
                s, kind = expand_names(swap_name_forms(fmt), y, m, d), 'names-other-form'
            elif r < 0.69 and has_wd:
                wd = datetime.date(y, m, d).weekday()
                s, kind = expand_names(fmt, y, m, d, wd=(wd + rng.randrange(1, 7)) % 7), 'names-wrong-weekday'
                if complete and year_ok and len(extra) == 1:
                    intent = ('reject', 'weekday-name-of-another-day')
            elif r < 0.69 and '%m' in fmt and has_mname:
                s, kind = expand_names(fmt, y, m, d, mname=(m - 1 + rng.randrange(1, 12)) % 12 + 1), 'names-two-months'
                if complete and year_ok and len(extra) == 1:
                    intent = ('reject', 'month-name-and-number-differ')
            elif r < 0.78:
                bm = rng.choice([m, m, 2, 4])
                bd = rng.choice([dim(y, bm) + 1, 31, 30, 29, 32, 0])
                s, kind = expand_names(fmt, y, bm, bd, wd=rng.randrange(7)), 'names-impossible'
                if complete and '%Y' in fmt and not py_valid(y, bm, bd) and len(extra) == 1:
                    intent = ('reject', 'custom-impossible')
                elif py_valid(y, bm, bd):
                    kind = 'names-any-weekday'
            elif r < 0.86:
                s0 = expand_names(fmt, y, m, d)
                # damage a name: drop / double / replace one of its letters, 4-letter abbreviations
                pos = [i for i, c in enumerate(s0) if c.isalpha()]
                if not pos:
                    continue
                p = rng.choice(pos)
                s = rng.choice([s0[:p] + s0[p + 1:], s0[:p] + s0[p] + s0[p:], s0[:p] + rng.choice('abejmnrstuy') + s0[p + 1:], s0[:p + 1] + 't' + s0[p + 1:]])
                kind = 'names-damaged'
                if s == s0:
                    continue
            elif r < 0.93:
                s, kind = expand_names(fmt, y, m, d) + rng.choice(['x', 'x', 'day', 'e']), 'names-trailing'
                if complete and year_ok and len(extra) == 1 and s.endswith('x'):
                    intent = ('reject', 'trailing')
            else:
                s, kind = spell(y, m, d, rng.choice(SEPS), None, rng.random() < 0.7 or m >= 10, rng.random() < 0.7 or d >= 10), 'default-under-custom'
            if not s or any(c in s for c in '= ;:[]') or len(s) > 100:
                continue
            ds = DS(s, intent, kind)
            if s[0].isdigit() and not first:
                txs.append(Tx(ds, cur=now))
            else:
                plain = DS(spell(y, m, d), ('date', (y, m, d)), 'ymd/zeros')
                if rng.random() < 0.6:
                    txs.append(Tx(plain, xa=ds, cur=now))
                else:
                    txs.append(Tx(plain, pa=ds, cur=now))
        groups.append(Group('names%d' % gi, txs, now=now, extra=extra))
    return groups


# ------------------------------------------------------------------------------------------ several formats in one run
FMT_POOL = ['%m/%d/%Y', '%d/%m/%Y', '%Y-%m-%d', '%A', '%d %B %Y', '%y%m%d', '%a %e %b', '%j', '%Y/%m/%d', '%As',
            '%A %d %B %Y', '%B', '%d.%m.%y', '%Y%m%d', '%u %w', '%b-%d', '%e/%m', '%Y', '%m', '%d', '%a, %d %b %Y', '%Y.%j']
DT_TAILS = ['', '', ' %H:%M:%S', 'T%H:%M', ' %H', '_%S%M']
ABBR_M = [x[:3] for x in MONTHS]
RB = {'Y': r'(\d{4})', 'm': r'(\d\d)', 'd': r'(\d\d)', 'y': r'(\d\d)', 'e': r'([ \d]\d)', 'j': r'(\d{3})', 'u': r'([1-7])',
      'w': r'([0-6])', 'a': '(' + '|'.join(WD) + ')', 'A': '(' + '|'.join(WDFULL) + ')', 'b': '(' + '|'.join(ABBR_M) + ')',
      'h': '(' + '|'.join(ABBR_M) + ')', 'B': '(' + '|'.join(MONTHS) + ')', 'H': r'(\d\d)', 'M': r'(\d\d)', 'S': r'(\d\d)'}


def rand_fmt(rng):
    if rng.random() < 0.6:
        return rng.choice(FMT_POOL)
    f = ''
    for k in range(rng.randrange(1, 5)):
        f += rng.choice(OUT_DIRS) + rng.choice(['-', '/', '.', ' ', ':', '', ',', '_'])
    f = f.strip()
    return f if f and not f.endswith(('/', ' ')) else f + 'E'


def read_back(fmt, text, want):
    """Oracle: read `text` in the format it was REQUESTED in (`fmt`) and compare every field with
    the day `want`; -> None | symptom"""
    pat, dirs = '', []
    i = 0
    while i < len(fmt):
        if fmt[i] == '%' and i + 1 < len(fmt) and fmt[i + 1] in RB:
            pat += RB[fmt[i + 1]]
            dirs.append(fmt[i + 1])
            i += 2
        else:
            pat += re.escape(fmt[i])
            i += 1
    m = re.fullmatch(pat, text)
    if not m:
        return 'not-in-requested-format'
    y, mo, d = want
    dt = datetime.date(y, mo, d)
    wd = dt.weekday()
    for c, v in zip(dirs, m.groups()):
        ok = {'Y': lambda: int(v) == y, 'm': lambda: int(v) == mo, 'd': lambda: int(v) == d, 'y': lambda: int(v) == y % 100,
              'e': lambda: int(v) == d, 'j': lambda: int(v) == dt.timetuple().tm_yday, 'u': lambda: int(v) == wd + 1,
              'w': lambda: int(v) == (wd + 1) % 7, 'a': lambda: v == WD[wd], 'A': lambda: v == WDFULL[wd],
              'b': lambda: v == ABBR_M[mo - 1], 'h': lambda: v == ABBR_M[mo - 1], 'B': lambda: v == MONTHS[mo - 1],
              'H': lambda: int(v) == 0, 'M': lambda: int(v) == 0, 'S': lambda: int(v) == 0}[c]()
        if not ok:
            return 'other-day'
    return None


def midnight(fmt):
    """format_datetime of a date: the time of day is 00:00:00 (the model formats dates only)"""
    return fmt.replace('%H', '00').replace('%M', '00').replace('%S', '00')


def month_end(y, m):
    return (y, m, dim(y, m))


def multi_run(ctx, rng, idx):
    """one ledger run whose report format asks for 2-4 different date formats (in random byte order),
    possibly with --date-format / --datetime-format / --input-date-format and with an option that
    prints dates itself (--dow, -M, --by-payee).  -> dict(args, journal, rows=[[(fmt, modelfmt, date, literal_prefix)]...], mode)"""
    mode = rng.choice(['plain', 'plain', 'plain', 'dow', 'monthly', 'bypayee'])
    k = rng.randrange(2, 5)
    fmts = []
    while len(fmts) < k:
        f = rand_fmt(rng)
        if f not in fmts:
            fmts.append(f)
    r = rng.random()
    if r < 0.35:
        fmts.sort(reverse=True)          # each later format sorts before the cached ones
    elif r < 0.5:
        fmts.sort()
    df = rand_fmt(rng) if rng.random() < 0.5 or mode == 'monthly' and rng.random() < 0.7 else None
    dtf = (rand_fmt(rng) + rng.choice(DT_TAILS)) if rng.random() < 0.3 else None
    inf = None
    if mode == 'plain' and rng.random() < 0.4:
        inf = rng.choice(['%d.%m.%Y', '%Y%m%d', '%m/%d/%Y', '%Y_%m_%d', '%d-%m-%Y'])
    # transactions
    n = rng.randrange(8, 30)
    base = datetime.date(rng.choice([rng.randrange(1401, 9999), rng.randrange(1950, 2100)]), rng.randrange(1, 13), 1).toordinal()
    payees = ['alpha', 'beta', 'Gamma', 'pa', 'zz top', '0 shop']
    dates, txs = [], []
    for i in range(n):
        dt = datetime.date.fromordinal(base + rng.randrange(0, 120))
        dates.append((dt.year, dt.month, dt.day))
    if mode == 'monthly':
        dates.sort()
    lines = []
    names = []
    for i, (y, m, d) in enumerate(dates):
        name = rng.choice(payees) if mode == 'bypayee' else 'p%d' % i
        names.append(name)
        ds = expand_in(inf, y, m, d) if inf else spell(y, m, d, rng.choice(SEPS), None, rng.random() < 0.7 or m >= 10, rng.random() < 0.7 or d >= 10)
        lines += ['%s %s' % (ds, name), '    A  1', '    B']
        txs.append(ds)
    # fields
    specs = []       # (expression text, requested format, kind)
    for f in fmts:
        kind = rng.choice(['fd', 'fd', 'fdx', 'fdt']) if mode == 'plain' else rng.choice(['fd', 'fd', 'fdt'])
        if kind == 'fdt':
            f2 = f + rng.choice(DT_TAILS)
            specs.append(('format_datetime(date, "%s")' % f2, f2, 'date'))
        elif kind == 'fdx':
            specs.append(('format_date(xact.date, "%s")' % f, f, 'date'))
        else:
            specs.append(('format_date(date, "%s")' % f, f, 'date'))
    if df is not None:
        specs.insert(rng.randrange(len(specs) + 1), ('date', df, 'date'))
        if rng.random() < 0.5:
            specs.insert(rng.randrange(len(specs) + 1), ('format_date(date)', df, 'date'))
    if dtf is not None:
        specs.insert(rng.randrange(len(specs) + 1), ('format_datetime(date)', dtf, 'date'))
    specs.insert(rng.randrange(len(specs) + 1), ('payee', None, 'payee'))
    fmt = '|'.join('%(' + e + ')' for e, _, _ in specs) + '\\n'
    args = ['reg', 'A', '--now', '%d/%d/%d' % NOW]
    if df is not None:
        args += ['--date-format', df]
    if dtf is not None:
        args += ['--datetime-format', dtf]
    if inf:
        args += ['--input-date-format', inf]
    args += {'plain': [], 'dow': ['--dow'], 'monthly': ['-M'], 'bypayee': ['--by-payee']}[mode]
    args += ['--format', fmt]
    # rows the report must show: (date of the row, payee text as (format, date) or literal)
    rows = []
    if mode == 'plain':
        for i, dte in enumerate(dates):
            rows.append((dte, ('lit', 'p%d' % i)))
    elif mode == 'dow':
        for w in range(7):          # Sunday first
            grp = [x for x in dates if (datetime.date(*x).weekday() + 1) % 7 == w]
            if grp:
                rows.append((min(grp), ('fmt', '', '%As', max(grp))))
    elif mode == 'monthly':
        for ym in sorted(set((y, m) for y, m, d in dates)):
            rows.append(((ym[0], ym[1], 1), ('fmt', '- ', df if df is not None else '%y-%b-%d', month_end(*ym))))
    else:
        for nm in sorted(set(names), key=lambda x: x.encode()):
            grp = [dates[i] for i in range(n) if names[i] == nm]
            rows.append((min(grp), ('lit', nm)))
    return dict(mode=mode, args=args, journal='\n'.join(lines) + '\n', specs=specs, rows=rows, inf=inf, idx=idx)


def g_multi(ctx, rng, res, nruns):
    runs = [multi_run(ctx, rng, i) for i in range(nruns)]

    def impl_of(r):
        path = ctx.path('multi%d.dat' % r['idx'])
        with open(path, 'w', encoding='latin-1') as f:
            f.write(r['journal'])
        st, out, err = lib.run_ledger(['-f', path] + r['args'], timeout=120)
        return st, out.decode('latin-1'), err.decode('latin-1')
    with ThreadPoolExecutor(max_workers=min(8, lib.NCPU)) as ex:
        outs = list(ex.map(impl_of, runs))
    # model: every field of every expected row is format_date(requested format) of the row's date
    lines = []
    for r in runs:
        for j, (dte, pay) in enumerate(r['rows']):
            for c, (e, f, kind) in enumerate(r['specs']):
                if kind == 'payee':
                    if pay[0] == 'fmt':
                        lines.append('(f %d.%d.%d %d %d %d %s)' % (r['idx'], j, c, pay[3][0], pay[3][1], pay[3][2], hx(midnight(pay[2]))))
                else:
                    lines.append('(f %d.%d.%d %d %d %d %s)' % (r['idx'], j, c, dte[0], dte[1], dte[2], hx(midnight(f))))
    mout = {}
    for l in lib.run_model('C14', lines):
        k, v = l.split(' ', 1)
        mout[k] = None if v == '?' else unhex(v)
    for r, (st, out, err) in zip(runs, outs):
        got = [x.split('|') for x in out.split('\n') if x]
        want = []
        supported = True
        for j, (dte, pay) in enumerate(r['rows']):
            row = []
            for c, (e, f, kind) in enumerate(r['specs']):
                if kind == 'payee' and pay[0] == 'lit':
                    row.append(pay[1])
                else:
                    t = mout.get('%d.%d.%d' % (r['idx'], j, c))
                    if t is None:
                        supported = False
                    row.append((pay[1] if kind == 'payee' else '') + (t or ''))
            want.append(row)
        res.evaluations += len(r['rows'])
        res.traces += len(r['rows'])
        res.count('kind:multi-format-' + r['mode'], len(r['rows']))
        res.count('multi:formats-per-run:%d' % sum(1 for s in r['specs'] if s[2] == 'date'))
        case = dict(multi=True, journal=r['journal'], args=r['args'], mode=r['mode'],
                    specs=[[e, f, kind] for e, f, kind in r['specs']], rows=[[list(d), list(p)] for d, p in r['rows']])
        for j in range(len(r['rows'])):
            res.nontrivial.add('multi|%s|%s|%d' % (' '.join(r['args'][4:]), r['journal'][:40], j))
        if not supported:
            res.count('model:unsupported')
        elif st != 0 or err.strip() or got != want:
            bad = next((j for j in range(min(len(got), len(want))) if got[j] != want[j]), None)
            res.disagreements.append(dict(name='C14/multi-format-' + r['mode'], case=case, impl=str(got[bad] if bad is not None else (st, err[:200], len(got))),
                                          model=str(want[bad] if bad is not None else len(want))))
        for v in judge_multi(case, st, out, err):
            res.violations.append(v)
        if len(res.samples) < 6 and r['idx'] == 0:
            res.samples.append(dict(args=r['args'], first_row=got[:1], model=want[:1]))


def judge_multi(case, st, out, err):
    """Oracle for a several-formats run: each printed field, read back in the format it was requested
    in, must denote the date of its row; the rows are those the grouping option defines."""
    got = [x.split('|') for x in out.split('\n') if x]
    rows, specs, mode = case['rows'], case['specs'], case['mode']
    mk = lambda key, desc, obs, req: dict(key=key, desc=desc, case=case, observed=obs, required=req)
    if st != 0 or err.strip():
        return [mk('format:run-failed:' + mode, 'a report with several date formats failed', err[:300], 'a report')]
    if len(got) != len(rows) or any(len(g) != len(specs) for g in got):
        return [mk('format:rows:' + mode, 'the report has %d rows, the input defines %d' % (len(got), len(rows)), str(got[:3]), str(len(rows)))]
    for j, (dte, pay) in enumerate(rows):
        for c, (e, f, kind) in enumerate(specs):
            text = got[j][c]
            if kind == 'payee':
                if pay[0] == 'lit':
                    sym = None if text == pay[1] else 'payee-changed'
                    f, wantd = 'payee', pay[1]
                else:
                    f, wantd = pay[2], tuple(pay[3])
                    sym = read_back(f, text[len(pay[1]):], wantd) if text.startswith(pay[1]) else 'not-in-requested-format'
            else:
                wantd = tuple(dte)
                sym = read_back(f, text, wantd)
            if sym:
                return [mk('format:%s:%s' % (sym, mode), 'row %d: %s printed %r; read back in the requested format %r it must denote %s' % (j, e, text, f, wantd),
                           '|'.join(got[j]), str(wantd))]
    return []



# ------------------------------------------------------------------------ date + time of day (P lines)
DT_OUT = '%Y-%m-%d %H:%M:%S'
DT_FORMATS = [('Y', 'm', 'd'), ('m', 'd', 'Y')]          # input_datetime_io, timelog_datetime_io (times.cc)
DT_RANGE = {'Y': (0, 9999, 4), 'm': (1, 12, 2), 'd': (1, 31, 2), 'H': (0, 23, 2), 'M': (0, 59, 2), 'S': (0, 61, 2)}


def strptime_dt(text, order):
    """glibc strptime for `%a/%b/%c %H:%M:%S` (a b c = order): the fields read and the bytes left over, or None.
    A number skips blanks, takes digits while the value can still stay in range (get_number), a blank in the
    format matches any run of blanks, the other bytes match themselves."""
    pos = 0
    got = {}
    for k, item in enumerate([order[0], '/', order[1], '/', order[2], ' ', 'H', ':', 'M', ':', 'S']):
        if item == ' ':
            while pos < len(text) and text[pos] in ' \t':
                pos += 1
        elif item in '/:':
            if text[pos:pos + 1] != item:
                return None
            pos += 1
        else:
            lo, hi, n = DT_RANGE[item]
            while pos < len(text) and text[pos] == ' ':
                pos += 1
            if not text[pos:pos + 1].isdigit() or not text[pos].isascii():
                return None
            val = 0
            while True:
                val = val * 10 + int(text[pos])
                pos += 1
                n -= 1
                if not (n > 0 and val * 10 <= hi and text[pos:pos + 1].isdigit()):
                    break
            if val < lo or val > hi:
                return None
            got[item] = val
    return got, text[pos:]


def model_datetime(text):
    """parse_datetime (times.cc) as the code has it: `.` and `-` become `/`, the two formats in turn, the struct tm
    handed to boost (date constructor checks the day, the time of day is a duration added to it)."""
    buf = text.replace('.', '/').replace('-', '/')
    for order in DT_FORMATS:
        r = strptime_dt(buf, order)
        if r:
            f = r[0]
            if not (1400 <= f['Y'] <= 9999) or f['d'] > dim(f['Y'], f['m']):
                return ('err',)
            t = datetime.datetime(f['Y'], f['m'], f['d']) + datetime.timedelta(hours=f['H'], minutes=f['M'], seconds=f['S'])
            return ('ok', t.strftime('%Y-%m-%d %H:%M:%S') if t.year >= 1000 else '%04d' % t.year + t.strftime('-%m-%d %H:%M:%S'))
    return ('err',)


DT_TIME_RE = re.compile(r'(\d{1,2}):(\d{1,2}):(\d{1,2})$')
def intent_datetime(y, m, d, ttext):
    """What the property text makes of DATE TIME: the moment it denotes, or None when it is not a real one."""
    mm = DT_TIME_RE.match(ttext)
    if not mm or not py_valid(y, m, d):
        return None
    h, mi, sec = (int(x) for x in mm.groups())
    if h > 23 or mi > 59 or sec > 59:
        return None
    return '%04d-%02d-%02d %02d:%02d:%02d' % (y, m, d, h, mi, sec)


def dt_symbol(i):
    return 'Q' + ''.join(chr(65 + (i // 26 ** k) % 26) for k in range(4))


def dt_journal(cases, skip=()):
    lines = ['P %s %s %s $2' % (c['date'], c['time'], dt_symbol(i)) if i not in skip else '; skipped' for i, c in enumerate(cases)]
    lines += ['', '2020/01/01 x'] + ['  A  1 %s' % dt_symbol(i) for i in range(len(cases))] + ['  B', '']
    return '\n'.join(lines)


DT_ARGS = ['prices', '--prices-format', '%(display_account)|%(format_datetime(datetime, "' + DT_OUT + '"))\\n']
def run_datetimes(ctx, name, cases):
    """One P line per case; lines ledger rejects are named in its messages and taken out for the second run."""
    path = ctx.path(name + '.dat')
    open(path, 'w').write(dt_journal(cases))
    st, out, err = lib.run_ledger(['-f', path] + DT_ARGS, timeout=300)
    bad = {}
    cur = None
    for l in err.decode('latin-1').split('\n'):
        mm = re.match(r'While parsing file ".*", line (\d+):', l)
        if mm:
            cur = int(mm.group(1)) - 1
        elif l.startswith('Error: ') and cur is not None and cur < len(cases):
            bad.setdefault(cur, l[7:])
    if bad:
        open(path, 'w').write(dt_journal(cases, skip=bad))
        st, out, err = lib.run_ledger(['-f', path] + DT_ARGS, timeout=300)
    rows = dict(r.split('|', 1) for r in out.decode('latin-1').split('\n') if '|' in r)
    res = []
    for i in range(len(cases)):
        if i in bad:
            res.append(('err', bad[i]))
        elif dt_symbol(i) in rows:
            res.append(('ok', rows[dt_symbol(i)]))
        else:
            res.append(('lost', (st, err.decode('latin-1')[:200])))
    return res


def judge_datetime(c, got):
    want = intent_datetime(c['y'], c['m'], c['d'], c['time'])
    case = dict(dt=True, date=c['date'], time=c['time'], kind=c['kind'])
    if want is not None:
        if got[0] != 'ok':
            return dict(key='rejected:datetime:' + c['kind'], desc='`P %s %s` is a real moment and is rejected' % (c['date'], c['time']), case=case, observed=str(got), required=want)
        if got[1] != want:
            return dict(key='shifted:datetime:' + c['kind'], desc='`P %s %s` is read as %s' % (c['date'], c['time'], got[1]), case=case, observed=got[1], required=want)
    elif got[0] == 'ok':
        return dict(key='accepted:datetime:' + c['kind'], desc='`P %s %s` is not a real date and time of day and is accepted, read as %s' % (c['date'], c['time'], got[1]),
                    case=case, observed=got[1], required='an error')
    return None


def g_datetime(ctx, rng, res, n):
    """Dates with a time of day, as parse_datetime reads them on `P DATE TIME SYMBOL PRICE` lines: real moments in padded and
    unpadded spellings, impossible hours/minutes/seconds (60 and 61 are what strptime's %S still takes), text after the
    seconds, missing fields, impossible days."""
    cases = []
    def add(kind, y, m, d, ttext, sep='/', us=False):
        date = '%02d%s%02d%s%04d' % (m, sep, d, sep, y) if us else spell(y, m, d, sep, zm=rng.random() < .8, zd=rng.random() < .8)
        cases.append(dict(kind=kind, y=y, m=m, d=d, date=date, time=ttext))
    for _ in range(n):
        y = rng.choice([rng.randrange(1400, 2021), rng.randrange(1990, 2021), 2020])      # the prices report leaves out prices later than today
        m = rng.randrange(1, 13)
        d = rng.choice([rng.randrange(1, dim(y, m) + 1), dim(y, m), 1])
        h, mi, sec = rng.choice([0, 23, 12, rng.randrange(24)]), rng.choice([0, 59, rng.randrange(60)]), rng.choice([0, 59, rng.randrange(60)])
        sep = rng.choice(SEPS)
        k = rng.randrange(12)
        if k <= 1:
            add('padded', y, m, d, '%02d:%02d:%02d' % (h, mi, sec), sep)
        elif k == 2:
            add('unpadded', y, m, d, '%d:%d:%d' % (h, mi, sec), sep)
        elif k == 3:
            add('month-first', y, m, d, '%02d:%02d:%02d' % (h, mi, sec), sep, us=True)
        elif k == 4:
            add('second-60', y, m, d, '%02d:%02d:%02d' % (h, mi, rng.choice([60, 61])), sep)
        elif k == 5:
            add('second-above-61', y, m, d, '%02d:%02d:%02d' % (h, mi, rng.randrange(62, 100)), sep)
        elif k == 6:
            add('minute-above-59', y, m, d, '%02d:%02d:%02d' % (h, rng.randrange(60, 100), sec), sep)
        elif k == 7:
            add('hour-above-23', y, m, d, '%02d:%02d:%02d' % (rng.randrange(24, 100), mi, sec), sep)
        elif k == 8:
            add('trailing', y, m, d, '%02d:%02d:%02d' % (h, mi, sec) + rng.choice(['x', 'Z', '0', '7', ':00', '.5', '+01:00', 'pm', ':', '/', ',']), sep)
        elif k == 9:
            add('fields-missing', y, m, d, rng.choice(['%02d' % h, '%02d:%02d' % (h, mi), '%02d:%02d:' % (h, mi), '%02d::%02d' % (h, sec)]), sep)
        elif k == 10:
            mm2 = rng.choice([2, 4, 6, 9, 11, 2])
            add('impossible-day', y, mm2, dim(y, mm2) + 1, '%02d:%02d:%02d' % (h, mi, sec), sep)
        else:
            add('end-of-day', y, m, d, rng.choice(['23:59:59', '23:59:60', '23:59:61', '24:00:00', '00:00:00']), sep)
    for c in cases:
        if c['kind'] == 'end-of-day':
            c['kind'] = 'second-60' if c['time'][6:] in ('60', '61') else 'padded' if c['time'] < '24' else 'hour-above-23'
    got = run_datetimes(ctx, 'datetimes', cases)
    for c, g in zip(cases, got):
        res.evaluations += 1
        res.traces += 1
        res.count('kind:datetime-' + c['kind'])
        res.nontrivial.add('datetime|%s|%s' % (c['date'], c['time']))
        want = model_datetime(c['date'] + ' ' + c['time'])
        if (g[0], g[1] if g[0] == 'ok' else None) != (want[0], want[1] if want[0] == 'ok' else None):
            res.disagreements.append(dict(name='C14/datetime-' + c['kind'], case=dict(date=c['date'], time=c['time']), impl=str(g), model=str(want)))
        v = judge_datetime(c, g)
        if v:
            res.violations.append(v)
        if c['kind'] in ('second-60', 'trailing') and sum(1 for x in res.samples if 'datetime' in x) < 2:
            res.samples.append(dict(datetime='P %s %s' % (c['date'], c['time']), ledger=str(g), model=str(want)))


# ------------------------------------------------------------------------------------------ the run
CANON_RE = re.compile(r'\d{4}/\d\d/\d\d$')


def replay_case(g, i, single, **kw):
    """the replayable input of transaction i: for a group with included files every file with all its
    directive lines and only this transaction"""
    d = single
    if g.files:
        texts, _ = journal_files(g.txs, set(range(len(g.txs))) - {i}, g.tails, g.files)
        d = dict(journal=texts[None], files={f: t for f, t in texts.items() if f is not None})
    d.update(kw)
    return d


def last_pre(txs, i):
    """the directive lines read before transaction i (its own included)"""
    return tuple(p for j in range(i + 1) for p in txs[j].pre)


def process_group(ctx, res, g, impl, mres, date_format_mode=False):
    for i, t in enumerate(g.txs):
        ri = impl[i]
        want = model_expect(t, i, mres)
        res.evaluations += 1
        res.traces += 1
        parts = t.parts()
        kinds = parts[0][1].kind if len(parts) == 1 else '+'.join(sorted(set(ds.kind for _, ds in parts)))
        res.count('kind:' + kinds)
        res.count('impl:' + (ri[0] if ri[0] != 'err' else 'err:' + ri[1]))
        canon = '%s|%s|%s' % (','.join(g.extra), t.cur if any(ds.kind.startswith('md') or ds.kind.startswith('custom') for _, ds in parts) else '', '='.join(ds.s for _, ds in parts))
        trivial = (len(parts) == 1 and not g.extra and ri[0] == 'ok' and len(t.xd.s) == 10 and CANON_RE.match(t.xd.s))
        if not trivial:
            res.nontrivial.add(canon)
        unsupported = (want[0] == 'err' and want[1] == 'Unsupported') or (want[0] == 'ok' and any(x is None for x in want[1]))
        if unsupported:
            res.count('model:unsupported')
        else:
            a = ri if ri[0] != 'ok' else ('ok', list(ri[1]))
            b = want if want[0] != 'ok' else ('ok', list(want[1]))
            if a != b:
                res.disagreements.append(dict(name='C14/%s' % g.name.rstrip('0123456789'), case=dict(strings=[(k, ds.s) for k, ds in t.parts()], cur=t.cur or g.now, extra=list(g.extra), outfmt=g.outfmt),
                                              impl=str(a)[:400], model=str(b)[:400]))
        if g.outfmt == OUTF:
            for key, desc, obs, req in judge_tx(t, ri):
                res.violations.append(dict(key=key, desc=desc,
                                           case=replay_case(g, i, dict(journal=journal_text([Tx(t.xd, t.xa, t.pd, t.pa, t.cur, last_pre(g.txs, i))])[0]),
                                                     now='%d/%d/%d' % g.now, extra=list(g.extra)),
                                           observed=obs, required=req))
        elif ri[0] == 'ok' and t.xd.intent and t.xd.intent[0] == 'reject':
            res.violations.append(dict(key='accepted:%s:%s' % (t.xd.kind, t.xd.intent[1]), desc='%r under --input-date-format %r is not a real date but was accepted' % (t.xd.s, g.extra),
                                       case=dict(journal=journal_text([t])[0], now='%d/%d/%d' % g.now, extra=list(g.extra)), observed=str(ri[1]), required='an error'))
        elif ri[0] == 'err' and t.xd.intent and t.xd.intent[0] == 'date':
            res.violations.append(dict(key='rejected:%s' % t.xd.kind, desc='%r spells a valid date in the input format %r but was rejected' % (t.xd.s, g.extra),
                                       case=dict(journal=journal_text([t])[0], now='%d/%d/%d' % g.now, extra=list(g.extra)), observed=ri[1], required='accepted'))
        if len(res.samples) < 5 and not trivial and (res.evaluations % 9973 == 1 or ri[0] == 'err' and len(res.samples) < 2):
            res.samples.append(dict(strings=[ds.s for _, ds in t.parts()], cur=t.cur or g.now, input_formats=list(g.extra), impl=str(ri)[:200], model=str(want)[:200]))


DIRECTIVE_RE = re.compile(r'(?:Y|year|apply year)\s*(\d+)$')


def assign_epochs(g):
    """the current date at every transaction of a group that contains year directives or includes,
    from the model's epoch machine (Model/Dates.v run_events); replaces what the generator assumed"""
    if not any(t.pre for t in g.txs) and not g.tails:
        return
    items = {}
    for i, t in enumerate(g.txs):
        L = items.setdefault(t.file, [])
        L.extend(('line', p) for p in t.pre)
        L.append(('tx', i))
    for f, tl in g.tails.items():
        items.setdefault(f, []).extend(('line', p) for p in tl)
    evs, order = [], []

    def walk(f):
        for kind, v in items.get(f, []):
            if kind == 'tx':
                evs.append('q')
                order.append(v)
                continue
            m = DIRECTIVE_RE.match(v)
            if m:
                evs.append('(y %s)' % m.group(1))
            elif v.startswith('end'):
                evs.append('end')
            elif v.startswith('include '):
                evs.append('fb')
                walk(v[8:].strip())
                evs.append('fe')
            else:
                raise ValueError('unknown directive line %r' % v)
    walk(None)
    out = lib.run_model('C14', ['(e x %d %d %d (%s))' % (g.now[0], g.now[1], g.now[2], ' '.join(evs))])
    body = out[0].split(' ', 1)[1] if ' ' in out[0] else ''
    curs = [tuple(int(x) for x in c.split(',')) for c in body.split(';')] if body else []
    assert len(curs) == len(g.txs) == len(order), (len(curs), len(g.txs), len(order))
    for i, c in zip(order, curs):
        g.txs[i].cur = c


def run_groups(ctx, res, groups):
    lib.build_driver('C14')
    for g in groups:
        assign_epochs(g)

    def impl_of(g):
        return run_journal(ctx, g.name, g.txs, g.now, g.extra, g.outfmt, g.date_format, tails=g.tails, files=g.files)

    def model_of(g):
        lines, keys = model_lines(g.txs, g.now, g.extra, g.outfmt)
        return model_results(lines, keys)
    lib.build_driver('C14')
    with ThreadPoolExecutor(max_workers=min(8, lib.NCPU)) as ex:
        fi = [ex.submit(impl_of, g) for g in groups]
        fm = [ex.submit(model_of, g) for g in groups]
        for g, a, b in zip(groups, fi, fm):
            impl, mres = a.result(), b.result()
            if '__stderr__' in impl:
                res.disagreements.append(dict(name='C14/%s/stderr' % g.name, case=g.name, impl=impl['__stderr__'], model='no message outside a transaction'))
            process_group(ctx, res, g, impl, mres)


def g_order(ctx, rng, res, n):
    """date < aux_date etc. on random pairs, and --sort date on a shuffled journal"""
    txs = []
    pairs = []
    for _ in range(n):
        y = rng.choice([rng.randrange(1400, 10000), rng.randrange(1990, 2030), 2020])
        m = rng.randrange(1, 13)
        d = rng.randrange(1, dim(y, m) + 1)
        k = rng.randrange(6)
        if k == 0:
            y2, m2, d2 = y, m, d
        elif k == 1:
            o = datetime.date(y, m, d).toordinal() + rng.choice([-1, 1, -7, 30, 365, -366])
            o = min(max(o, datetime.date(1400, 1, 1).toordinal()), datetime.date(9999, 12, 31).toordinal())
            dt = datetime.date.fromordinal(o)
            y2, m2, d2 = dt.year, dt.month, dt.day
        elif k == 2:
            y2, m2 = y, rng.randrange(1, 13)
            d2 = rng.randrange(1, dim(y2, m2) + 1)
        else:
            y2 = rng.choice([y, y + 1, y - 1, rng.randrange(1400, 10000)])
            y2 = min(max(y2, 1400), 9999)
            m2 = rng.randrange(1, 13)
            d2 = rng.randrange(1, dim(y2, m2) + 1)
        pairs.append(((y, m, d), (y2, m2, d2)))
        txs.append(Tx(DS(spell(y, m, d, rng.choice(SEPS)), ('date', (y, m, d)), 'order'), xa=DS(spell(y2, m2, d2, rng.choice(SEPS)), ('date', (y2, m2, d2)), 'order')))
    fmt = '%(payee)|%(date < aux_date)|%(date == aux_date)|%(date > aux_date)|%(format_date(date, "%Y-%m-%d"))\\n'
    impl = run_journal(ctx, 'order', txs, NOW, fmt_override=fmt)
    lines, keys = model_lines(txs, NOW, (), OUTF)
    mres = model_results(lines, keys)
    for i, (a, b) in enumerate(pairs):
        res.evaluations += 1
        res.traces += 1
        res.count('kind:order-pair')
        res.nontrivial.add('order|%s|%s' % (a, b))
        ra, rb = mres[(i, 'xd')], mres[(i, 'xa')]
        want = ('ok', ['true' if ra[2] < rb[2] else 'false', 'true' if ra[2] == rb[2] else 'false', 'true' if ra[2] > rb[2] else 'false', '%04d-%02d-%02d' % ra[1]]) if ra[0] == 'ok' and rb[0] == 'ok' else ('err',)
        got = impl[i]
        if (got[0], list(got[1]) if got[0] == 'ok' else None) != (want[0], want[1] if want[0] == 'ok' else None):
            res.disagreements.append(dict(name='C14/order', case=dict(a=a, b=b), impl=str(got), model=str(want)))
        if got[0] == 'ok':
            req = ['true' if a < b else 'false', 'true' if a == b else 'false', 'true' if a > b else 'false']
            if list(got[1][:3]) != req:
                res.violations.append(dict(key='order:pair', desc='%s compared with %s gives <,==,> = %s' % (a, b, got[1][:3]),
                                           case=dict(journal=journal_text([txs[i]])[0], now='%d/%d/%d' % NOW, extra=[], format=fmt), observed=str(got[1][:3]), required=str(req)))
        else:
            res.violations.append(dict(key='rejected:order', desc='valid dates %s=%s rejected' % (a, b), case=dict(journal=journal_text([txs[i]])[0], now='%d/%d/%d' % NOW, extra=[]), observed=str(got), required='accepted'))
    # sorted register
    stx = [Tx(t.xd) for t in txs]
    text, _ = journal_text(stx)
    path = ctx.path('sort.dat')
    open(path, 'w').write(text)
    st, out, err = lib.run_ledger(['-f', path, 'reg', 'A', '--sort', 'date', '--format', '%(payee)|%(format_date(date, "%Y-%m-%d"))\\n'])
    rows = [r.split('|') for r in out.decode().split('\n') if r.startswith('p')]
    got_order = [int(r[0][1:]) for r in rows]
    model_order = sorted(range(len(stx)), key=lambda i: mres[(i, 'xd')][2])     # stable, by the model's day number
    res.evaluations += 1
    res.traces += 1
    res.nontrivial.add('sort|%d' % len(stx))
    if got_order != model_order or st != 0:
        res.disagreements.append(dict(name='C14/sort', case=path, impl=str(got_order[:40]), model=str(model_order[:40])))
    seq = [pairs[i][0] for i in got_order]
    if len(got_order) != len(stx) or any(seq[i] > seq[i + 1] for i in range(len(seq) - 1)):
        res.violations.append(dict(key='order:sort', desc='--sort date does not list the transactions in calendar order',
                                   case=dict(journal=text[:20000], now='%d/%d/%d' % NOW, extra=[], args=['--sort', 'date']), observed=str(seq[:20]), required='non-decreasing dates'))


def run(ctx, small=False):
    rng = ctx.rng
    res = lib.Result()
    res.rule = ('one case = one transaction whose date strings (date, auxiliary date, posting-note dates) are read by ledger and by the model; '
                'non-trivial = not the canonical zero-padded YYYY/MM/DD spelling of an accepted date (i.e. another separator, a dropped leading zero, '
                'MM/DD with an inferred year, a custom input format, or a rejected string); distinct by (input formats, current date where it matters, strings)')
    thorough = ctx.tier == 'thorough'
    groups = []
    if small:
        groups += g_sweep(ctx, rng, 2019, 2021)
    else:
        groups += g_sweep(ctx, rng, 1900, 2199)
    if thorough and not small:
        # the whole of boost's range, every 7th+ day with a seed-dependent offset, all spellings
        groups += [Group('full-' + g.name, g.txs) for g in g_sweep(ctx, rng, 1400, 9999, step=9, offset=rng.randrange(9))]
    years = SPECIAL_YEARS + [rng.randrange(1400, 10000) for _ in range(ctx.scale(3, 30))]
    groups += g_impossible(ctx, rng, years if not small else years[:4])
    groups += g_malformed(ctx, rng, ctx.scale(2500, 20000))
    groups += g_md_directive(ctx, rng, [2020, 2021, 1900, 2000, 1400, 9999] + [rng.randrange(1400, 10000) for _ in range(ctx.scale(2, 20))])
    groups += g_md_now(ctx, rng, [NOW, (2021, 1, 15), (2020, 2, 29), (2021, 12, 31), (2021, 3, 1), (1400, 1, 15), (2024, 1, 31), (2100, 2, 28), (2025, 1, 15), (2024, 2, 1), (2001, 1, 1), (2000, 1, 31), (1401, 1, 1)]
                       + [(lambda y, m: (y, m, rng.randrange(1, dim(y, m) + 1)))(rng.randrange(1401, 10000), rng.randrange(1, 13)) for _ in range(ctx.scale(2, 12))])
    groups += g_md_epoch(ctx, rng, [NOW, (2021, 1, 15), (2020, 1, 15), (2021, 12, 31), (2024, 2, 29), (2000, 3, 1)]
                         + [(lambda y, m: (y, m, rng.randrange(1, dim(y, m) + 1)))(rng.randrange(1402, 9998), rng.randrange(1, 13)) for _ in range(ctx.scale(4, 40))],
                         ctx.scale(14, 30))
    inc_nows = [NOW, (2021, 1, 15), (2020, 1, 15), (2024, 2, 29)] + [(lambda y, m: (y, m, rng.randrange(1, dim(y, m) + 1)))(rng.randrange(1403, 9997), rng.randrange(1, 13)) for _ in range(ctx.scale(12, 60))]
    groups += g_md_include(ctx, rng, inc_nows, ctx.scale(10, 16), False)
    groups += g_md_include(ctx, rng, inc_nows[:ctx.scale(5, 16)], ctx.scale(8, 12), True)
    groups += g_custom(ctx, rng, ctx.scale(150, 1500), 30)
    groups += g_names(ctx, rng, ctx.scale(120, 1200) if not small else 40, 30)
    run_groups(ctx, res, groups)
    g_order(ctx, rng, res, ctx.scale(2000, 20000))
    g_multi(ctx, rng, res, ctx.scale(120, 1200) if not small else 60)
    g_datetime(ctx, rng, res, ctx.scale(1500, 12000) if not small else 300)
    return res


def search(ctx, broken):
    import random
    for s in range(3):
        ctx.rng = random.Random('C14-search-%d-%d' % (ctx.seed, s))
        r = run(ctx, small=(s > 0))
        if r.violations:
            return r.violations
    return []


def replay(ctx, obj):
    res = lib.Result()
    case = obj.get('case') or {}
    if case.get('dt'):
        m3 = re.match(r'(\d+)\D(\d+)\D(\d+)$', case['date'])
        a, b, c3 = (int(x) for x in m3.groups())
        y, m, d = (a, b, c3) if a > 31 else (c3, a, b)
        c = dict(kind=case['kind'], y=y, m=m, d=d, date=case['date'], time=case['time'])
        got = run_datetimes(ctx, 'replay', [c])[0]
        print('replay: P %s %s -> %s; model of the code: %s; the property: %s' % (c['date'], c['time'], got, model_datetime(c['date'] + ' ' + c['time']), intent_datetime(y, m, d, c['time']) or 'an error'))
        v = judge_datetime(c, got)
        if v:
            res.violations.append(dict(key=v['key'], desc=v['desc']))
        return res
    if case.get('multi'):
        path = ctx.path('replay.dat')
        open(path, 'w', encoding='latin-1').write(case['journal'])
        st, out, err = lib.run_ledger(['-f', path] + case['args'])
        print('replay: ledger %s\nstdout: %s\nstderr: %s' % (' '.join(case['args']), out.decode('latin-1')[:600], err.decode('latin-1')[:300]))
        for v in judge_multi(case, st, out.decode('latin-1'), err.decode('latin-1')):
            res.violations.append(dict(key=v['key'], desc=v['desc']))
        return res
    if 'journal' in case:
        path = ctx.path('replay.dat')
        open(path, 'w', encoding='latin-1').write(case['journal'])
        for fn, text in (case.get('files') or {}).items():
            open(ctx.path(os.path.basename(fn)), 'w', encoding='latin-1').write(text)
        args = ['-f', path, 'reg', 'A', '--now', case.get('now', '2021/6/15')]
        for e in case.get('extra', []):
            args += ['--input-date-format', e]
        args += case.get('args', [])
        fmt = case.get('format') or '%(payee)|%(format_date(xact.date, "' + OUTF + '"))|%(xact.aux_date)|%(format_date(date, "' + OUTF + '"))|%(aux_date)\\n'
        st, out, err = lib.run_ledger(args + ['--format', fmt])
        print('replay: status %s\nstdout: %s\nstderr: %s\nrequired: %s' % (st, out.decode('latin-1')[:600], err.decode('latin-1')[:600], obj.get('required')))
        key = obj.get('key', '')
        accepted = (st == 0 and out.strip() != b'')
        if key.startswith('accepted:') and accepted:
            res.violations.append(dict(key=key, desc=obj.get('desc', '')))
        elif key.startswith('rejected:') and not accepted:
            res.violations.append(dict(key=key, desc=obj.get('desc', '')))
        elif key.startswith('shifted:') and accepted and obj.get('observed') and obj['observed'].split('|')[0] in out.decode('latin-1'):
            res.violations.append(dict(key=key, desc=obj.get('desc', '')))
        elif key.startswith('order:') and accepted and obj.get('observed'):
            res.violations.append(dict(key=key, desc=obj.get('desc', '')))
    return res
