"""C08 - aggregate reports do not depend on input order or file layout.
Oracle (property text): for a base journal in the order-free fragment, every variant (transactions
permuted, postings permuted inside transactions, the file cut into 1-4 included files in nested
directories) gives the same exact balance for every account, the same date-sorted register (as
per-date multisets of rows) and the same commodity display precision/style.
Correspondence: the per-account balances, the number of accepted postings and the final pool
precision predicted by the extracted model (Model/Journal.v over Model/Xact.v, given the same file
tree) against ledger's `bal --flat` for every variant.
Layout stream (run_layout): trees of files with apply account / apply tag / alias / bucket / include (relative paths,
a file included twice), several --file and --master-account: every register row against Model/Layout.read_journal,
and the same directives laid out as one file / as one file of includes must give the same balances and register."""
import os, re, itertools, shutil
from fractions import Fraction as F
import lib
import xactlib as X

META = dict(
    id='C08',
    level='proof',
    technique='Coq proof (Permutation-invariance of account sums over stable transactions, of posting order, of the learned pool precision; include = concatenation) + differential correspondence and metamorphic oracle over permuted / re-split journals',
    level_text='Theorems in coq/Properties/Properties_C08.v: the balance bal shows is the exact sum of the account\'s postings; permuting transactions that are stable (contribute the same under every pool state and hash order - exactly balanced transactions are) changes no account sum; permuting postings inside an exactly balanced transaction keeps it balanced with the same contributions; the display precision the pool ends with is permutation-invariant in transactions and postings; a tree of included files is processed as the concatenation of its transactions. Outside the fragment acceptance is order dependent (acceptance_order_dependence_refuted, finding F11). Tie to the code: for generated base journals and their variants ledger\'s exact `bal --flat` rows are compared with the model\'s journal_balances on the same file tree, and ledger\'s own outputs are compared across variants. File layout under scoping directives (Model/Layout.v): the apply stack belongs to one file (an included file starts from the including file\'s top account, cannot end the includer\'s apply, and what it leaves open ends with it), the alias table and the default account belong to the journal; a piece of a file that closes its own applies can be cut out into an included file without any change (cutting_a_closed_piece_into_an_included_file_changes_nothing), several --file are read as one file including them; the numbers the model computes with are re-read from textual.cc (Gen/LayoutScope.v, layout_scope_is_the_sources) and every register row of generated file trees (account, default account, tags) is compared with read_journal.',
    level_note='Trusted as C01. The include directive is modelled as concatenation in inclusion order (path resolution is not modelled; the harness writes include paths relative to the including file over child, sibling and parent directories, and globs in the file-name part). The register comparison across variants is an implementation-only relation (oracle).',
    design_ref='DESIGN.md section 7 C08',
    assumptions=['base journals contain only exactly balanced transactions (explicit amounts or one elided amount), no assertions, automated transactions, apply/alias/bucket/year directives (permutation streams)',
                 'layout stream: transactions with explicit amounts in one commodity; apply account, apply tag, end apply, alias (one round of expansion), bucket, include, several --file, --master-account; no year directives, no --recursive-aliases',
                 'transactions carry distinct payees so that register rows can be matched across variants'],
)

REG = '%(date)|%(payee)|%(account)|%(verif_rational(amount))|%(scrub(display_amount))\\n'   # the last field: what the register column shows (computed lot details are not shown without --lots)
BAL = '%(account)|%(verif_rational(amount))\\n'


def gen_base(rng):
    n = rng.randrange(2, 9)
    xs = []
    for i in range(n):
        x = X.gen_balanced(rng, with_costs=rng.random() < 0.3)
        if rng.random() < 0.3:
            x = X.add_null(rng, X.gen_balanced(rng, with_costs=False, with_virtual=False))
        elif rng.random() < 0.2:
            x = X.gen_cost_only(rng)        # a sub-display cost in a commodity whose precision depends on what was read before
        elif rng.random() < 0.25:
            x = X.gen_plain(rng, elide=rng.random() < 0.4)   # commodity-less amounts: displayed at their own precision
        elif rng.random() < 0.3:
            x = X.gen_lot_notes(rng)                        # lots that differ in their note (or date) only
        elif rng.random() < 0.15:
            x = X.gen_implied_rate_with_cancel(rng)         # an implied rate beside a commodity that cancels (F65)
        elif rng.random() < 0.15:
            x = X.gen_implied_rate_with_virtual(rng)        # an implied rate beside a (virtual) posting in one of the two
        x.date = '2020/%02d/%02d' % (rng.randrange(1, 13), rng.randrange(1, 29))
        x.orig = i
        xs.append(x)
    # a pair of lots of one commodity bought at the same price on the same lot date, told apart by their notes only
    if rng.random() < 0.3:
        a, b = X.gen_lot_notes(rng), X.gen_lot_notes(rng)
        pa = next(p for p in a.posts if p.lot is not None)
        pb = next(p for p in b.posts if p.lot is not None)
        pb.lot, pb.lot_date = pa.lot, pa.lot_date
        pa.lot_note, pb.lot_note = rng.sample(['lotA', 'lotB', 'ira', 'taxable'], 2)
        if rng.random() < 0.5:
            pb.lot_note = None            # the same lot once with and once without a note
        pb.acct = pa.acct
        cash = next(p for p in b.posts if p.lot is None)
        cash.amt = X.Amt(-pb.lot.value * pb.amt.value, 2, '$')
        for x in (a, b):
            x.date = '2020/%02d/%02d' % (rng.randrange(1, 13), rng.randrange(1, 29))
            x.orig = len(xs)
            xs.append(x)
    # display style: some amounts of one commodity are written with thousands marks - the commodity learns the style from
    # any of them, whatever their precision and wherever they stand
    if rng.random() < 0.4:
        big = [p.amt for x in xs for p in x.posts if p.amt is not None and p.amt.sym and abs(p.amt.value) >= 1000]
        if big:
            sym = rng.choice(big).sym
            for a in big:
                if a.sym == sym and rng.random() < 0.5:
                    a.marks = True
    return xs


def exactly_balanced_fragment(x):
    # costs whose total has more decimals than the commodity are in C01's display-zero domain,
    # where acceptance may depend on the precision learned so far (F11): stay exact
    return True


def write_tree(ctx, rng, xs, name):
    """cut xs (with their payee indices) into 1-4 files; returns (main path, tree for the model)"""
    root = ctx.path(name)
    shutil.rmtree(root, ignore_errors=True)
    os.makedirs(os.path.join(root, 'sub', 'deep'))
    k = rng.randrange(1, 5)
    cuts = sorted(rng.sample(range(1, len(xs)), min(k - 1, max(0, len(xs) - 1)))) if len(xs) > 1 else []
    pieces, prev = [], 0
    for c in cuts + [len(xs)]:
        pieces.append(xs[prev:c])
        prev = c
    main = os.path.join(root, 'main.dat')
    if len(pieces) == 1:
        open(main, 'w').write('\n'.join(x.text(x.orig) for x in pieces[0]))
        return main, [x.sx() for x in pieces[0]]
    tree, lines = [], []
    nested = rng.random() < 0.5 and len(pieces) >= 3
    for pi, piece in enumerate(pieces):
        text = '\n'.join(x.text(x.orig) for x in piece)
        if pi == 0 and rng.random() < 0.5:
            lines.append(text)                      # stays in the main file
            tree += [x.sx() for x in piece]
            continue
        if nested and pi == len(pieces) - 1:
            continue
        rel = ('sub/f%d.dat' % pi) if pi % 2 else ('f%d.dat' % pi)
        body = text
        node = [x.sx() for x in piece]
        if nested and pi == len(pieces) - 2:
            # the last piece is included from inside this file
            last = pieces[-1]
            deep = 'deep/g.dat' if rel.startswith('sub/') else 'sub/deep/g.dat'
            open(os.path.join(root, os.path.dirname(rel), deep), 'w').write('\n'.join(x.text(x.orig) for x in last))
            body += '\ninclude %s\n' % deep
            node.append(['include'] + [x.sx() for x in last])
        open(os.path.join(root, rel), 'w').write(body)
        lines.append('include %s\n' % rel)
        tree.append(['include'] + node)
    open(main, 'w').write('\n'.join(lines))
    return main, tree


# aggregated registers: one row per group (all postings, an account, a payee, a month, a week day) - date, label, account and
# exact amount of every row are compared as a multiset with the base journal's (the date of a group is that of its
# earliest posting; `--sort date` orders the groups)
AGG = '%(date)|%(payee)|%(account)|%(verif_rational(amount))\n'
AGG_COMMANDS = [('subtotal', ['reg', '--subtotal', '--sort', 'date']),
                ('by-payee', ['reg', '--by-payee', '--payee', 'account_base', '--sort', 'date']),
                ('monthly', ['reg', '--monthly', '--sort', 'date']),
                ('dow', ['reg', '--dow']),
                ('collapse', ['reg', '--collapse', '--sort', 'date']),
                ('depth-1', ['bal', '--depth', '1', '--no-total'])]


def canon_value(r):
    """hook text of an amount or balance -> sorted non-zero (commodity key without computed lot details, exact quantity)"""
    ents = [X.canon_amount(e) for e in (r[2:].split(';') if r.startswith('B:') and r[2:] else [r] if r.startswith('A:') else [])]
    tot = {}
    for e in ents:
        if e:
            k = (e[0] or '').split('~')[0]
            tot[k] = tot.get(k, 0) + e[1]
    return tuple(sorted((k, q) for k, q in tot.items() if q != 0))


def run_aggregates(ctx, main):
    out_ = {}
    for name, cmd in AGG_COMMANDS:
        st, out, err = lib.run_ledger(['-f', main] + cmd + ['--date-format', '%Y/%m/%d', '--format', AGG if cmd[0] == 'reg' else '%(date)|-|%(account)|%(verif_rational(display_total))\n'])
        rows = []
        for l in out.decode('utf-8', 'replace').split('\n'):
            f = l.split('|')
            if len(f) == 4:
                v = canon_value(f[3])
                if v:
                    rows.append((f[0], f[1], f[2], v))
        out_[name] = (st, sorted(rows))
    # the TEXT of the per-lot balance: the lines of an account come in the order of its lots (price, date, note), not in
    # the order the lots were first seen
    st, out, err = lib.run_ledger(['-f', main, 'bal', '--lots', '--flat', '--no-total'])
    out_['lots-text'] = (st, [l.rstrip() for l in out.decode('utf-8', 'replace').split('\n') if l.strip()])
    return out_


def compare_group_dates(res, jid, xs, agg, main):
    """the dates of the subtotal rows against the model of report_subtotal's loop (Model/Subtotal.v): every row of
    `reg --subtotal` is dated with the earliest posting date and labelled with the latest; every row of a --by-payee
    group (the payee being the account's last segment) with the earliest date of that group"""
    items = []
    for x in xs:
        d = int(x.date.replace('/', ''))
        for q in x.posts:
            items.append([q.acct.split(':')[-1].encode(), d])
    want = {}
    for l in lib.run_model('C08', [lib.sx(['range', jid] + items)]):
        f = l.split(' ')
        if len(f) == 5 and f[1] == 'R' and f[3] != '-':
            want[f[2] if f[2] == '*' else bytes.fromhex(f[2]).decode('utf-8', 'replace')] = (int(f[3]), int(f[4]))

    def num(t):
        return int(t.replace('/', '')) if re.fullmatch(r'\d{4}/\d\d/\d\d', t) else None
    for (date, payee, acct, v) in agg['subtotal'][1]:
        res.traces += 1
        got = (num(date), num(payee[2:]) if payee.startswith('- ') else None)
        if got != want.get('*'):
            res.disagreements.append(dict(name='C08/subtotal-dates', case=main, impl=str(got), model=str(want.get('*')), text=open(main).read()[:3000]))
            break
    for (date, payee, acct, v) in agg['by-payee'][1]:
        res.traces += 1
        w = want.get(payee)
        if w is None or num(date) != w[0]:
            res.disagreements.append(dict(name='C08/group-dates', case=main, group=payee, impl=date, model=str(w), text=open(main).read()[:3000]))
            break


# include globs: (pattern, names it must read, names in the same directory it must leave alone)
GLOBS = [('tx*.dat', ['tx.dat', 'tx1.dat', 'tx22.dat', 'tx.a.dat'], ['ty1.dat', 'tx1.dat.bak', 'atx1.dat', 'tx1xdat', 'tx']),
         ('p?.dat', ['p1.dat', 'pa.dat', 'p-.dat'], ['p.dat', 'p12.dat', 'q1.dat', 'p1xdat']),
         ('*.inc', ['a.inc', 'b.c.inc', '.inc'], ['a.inc2', 'ainc', 'a.dat']),
         ('f.dat', ['f.dat'], ['fxdat', 'f.dat2', 'ff.dat', 'f_dat']),
         ('a+b.dat', ['a+b.dat'], ['aab.dat', 'ab.dat', 'a+bxdat']),
         ('x(1).dat', ['x(1).dat'], ['x1.dat', 'x(1)xdat']),
         ('y{2}|z.dat', ['y{2}|z.dat'], ['yy.dat', 'z.dat', 'y{2}']),
         ('m*n?.dat', ['mn1.dat', 'mxxn2.dat', 'm.n.n3.dat'], ['mn.dat', 'mxn12.dat', 'xmn1.dat'])]


def write_glob_tree(ctx, rng, xs, name, res):
    """the transactions cut into files that ONE include with a glob in its file name reads (in the sorted order of their
    names), beside files whose names the pattern must not match and which hold a transaction of their own; which names
    are read is what the model of the glob says (Model/Glob.v), and it must be what this table expects
    -> (main path, tree for the model)"""
    root = ctx.path(name)
    shutil.rmtree(root, ignore_errors=True)
    os.makedirs(os.path.join(root, 'parts'))
    pat, yes, no = rng.choice(GLOBS)
    names = yes + no
    verdict = {}
    for l in lib.run_model('C08', [lib.sx(['glob', 'g', pat.encode()] + [n.encode() for n in names])]):
        f = l.split(' ')
        if len(f) == 4 and f[1] == 'G':
            verdict[bytes.fromhex(f[2]).decode()] = f[3] == '1'
    res.traces += 1
    if [n for n in names if verdict.get(n)] != yes:
        res.disagreements.append(dict(name='C08/glob-table', case=pat, impl='expected to read %s' % yes, model=str(verdict)))
    read = sorted(n for n in names if verdict.get(n))
    k = min(len(read), max(1, len(xs) - 1))
    read = sorted(rng.sample(read, k)) if rng.random() < 0.5 else read        # not every matching name need exist
    if pat.count('*') and (pat.replace('*', '') in yes) and pat.replace('*', '') not in read:
        read = sorted(read[:-1] + [pat.replace('*', '')]) if len(read) > 1 else [pat.replace('*', '')]
    head = xs[:1] if rng.random() < 0.5 else []
    rest = xs[len(head):]
    cuts = sorted(rng.sample(range(1, len(rest)), min(len(read) - 1, max(0, len(rest) - 1)))) if len(rest) > 1 else []
    pieces, prev = [], 0
    for c in cuts + [len(rest)]:
        pieces.append(rest[prev:c])
        prev = c
    while len(pieces) < len(read):
        pieces.append([])
    tree = [x.sx() for x in head]
    for n, piece in zip(read, pieces):
        open(os.path.join(root, 'parts', n), 'w').write('\n'.join(x.text(x.orig) for x in piece) + '\n' if piece else '; nothing here\n')
        tree.append(['include'] + [x.sx() for x in piece])
    for i, n in enumerate(no):
        open(os.path.join(root, 'parts', n), 'w').write('2020/01/01 decoy%d\n    Decoy:%d    $%d.00\n    Decoy:Other\n' % (i, i, 1000 + i))
    main = os.path.join(root, 'main.dat')
    open(main, 'w').write('\n'.join(x.text(x.orig) for x in head) + '\n\ninclude parts/%s\n' % pat)
    res.count('include-glob:' + pat)
    return main, tree


# --------------------------------------------------------------------------- file layout with apply / alias / bucket
# (Model/Layout.v)  A journal is a tree of files: transactions, `apply account`, `apply tag`, `end apply ..`, `alias`,
# `bucket` and `include` with paths RELATIVE to the including file (child, parent and sibling directories), some files
# included twice, one to three files named on the command line, with or without --master-account.
# K: the account every posting is booked under, the default account that balances a one-posting transaction and the
#    tags in force, row by row, against read_journal on the same tree; an `end apply` that has nothing of ITS file to
#    end is an error in both.
# O (property text: distributing the transactions over files joined by include changes no balance and no register):
#    the same directives written as ONE file - every included file spliced in where its include stood, valid when each
#    file ends the `apply`s it begins - and the files of the command line read from one file including them, give the
#    same `bal --flat` and the same register.
L_SEGS = ['Assets', 'Cash', 'Bank', 'Exp', 'Food', 'Rent', 'Top', 'Sub', 'Deep', 'Eq', 'Bk', 'Pool', 'al1', 'al2', 'al3']
L_ID = {n: i + 1 for i, n in enumerate(L_SEGS)}
L_TAGS = ['t0', 't1', 't2']
L_REG = '%(payee)|%(account)|' + ','.join('%%(has_tag("%s"))' % t for t in L_TAGS) + '|%(verif_rational(amount))\n'


def l_name(rng, alias_first=0.0, maxlen=3):
    plain = L_SEGS[:12]
    n = [rng.choice(plain) for _ in range(rng.randrange(1, maxlen + 1))]
    if rng.random() < alias_first:
        n[0] = rng.choice(L_SEGS[12:])
    return tuple(n)


def gen_layout_file(rng, st, depth, closed):
    """items of one file; st: counters shared by the whole journal (reading order = generation order)"""
    items, open_ = [], []
    for _ in range(rng.randrange(2, 8)):
        r = rng.random()
        if r < 0.42:
            st['n'] += 1
            single = st['bucket'] and rng.random() < 0.4
            names = [l_name(rng, 0.35)] if single else [l_name(rng, 0.35) for _ in range(rng.randrange(2, 4))]
            items.append(('x', 'p%d' % st['n'], names, rng.randrange(1, 90)))
        elif r < 0.54:
            items.append(('aa', l_name(rng, maxlen=2)))
            open_.append('a')
        elif r < 0.62:
            items.append(('at', rng.randrange(len(L_TAGS))))
            open_.append('t')
        elif r < 0.74:
            if open_:
                k = open_.pop()
                items.append(('end', k if rng.random() < 0.6 else '-'))
        elif r < 0.82:
            key = (rng.choice(L_SEGS[12:]),) + ((rng.choice(L_SEGS[:12]),) if rng.random() < 0.15 else ())
            items.append(('alias', key, l_name(rng, maxlen=2)))
        elif r < 0.87:
            items.append(('bucket', l_name(rng, maxlen=2)))
            st['bucket'] = True
        elif depth < 2 and st['files'] < 6:
            prev = [i for i in items if i[0] == 'inc']
            if prev and rng.random() < 0.25:
                items.append(prev[-1])                        # the same file once more
                st['twice'] = True
            else:
                st['files'] += 1
                fid = st['files']
                sub_closed = rng.random() < 0.7
                items.append(('inc', fid, gen_layout_file(rng, st, depth + 1, sub_closed), sub_closed))
    if st.get('bad') == depth and depth > 0 and not st.get('bad_done'):
        # an `end apply` that only an apply of the INCLUDING file could answer
        while open_:
            items.append(('end', '-'))
            open_.pop()
        items.append(('end', rng.choice(['a', 't', '-'])))
        st['bad_done'] = True
    if closed:
        while open_:
            k = open_.pop()
            items.append(('end', k if rng.random() < 0.5 else '-'))
    return items


def l_closed(items):
    """python's own reading of `this file ends every apply it begins and no other` (recursively for what it includes)"""
    d = 0
    for it in items:
        if it[0] in ('aa', 'at'):
            d += 1
        elif it[0] == 'end':
            d -= 1
            if d < 0:
                return False
        elif it[0] == 'inc' and not l_closed(it[2]):
            return False
    return d == 0


def l_text(items, inc_line):
    out = []
    for it in items:
        if it[0] == 'x':
            amt = it[3]
            names = it[2]
            if len(names) == 1:
                posts = ['    %s    $%d.00' % (':'.join(names[0]), amt)]
            else:
                posts = ['    %s    $%d.00' % (':'.join(names[0]), amt)] + \
                        ['    %s    $%d.00' % (':'.join(n), 1) for n in names[1:-1]] + \
                        ['    %s    $-%d.00' % (':'.join(names[-1]), amt + len(names) - 2)]
            out.append('2020/01/%02d %s\n%s\n' % (1 + amt % 28, it[1], '\n'.join(posts)))
        elif it[0] == 'aa':
            out.append('apply account %s\n' % ':'.join(it[1]))
        elif it[0] == 'at':
            out.append('apply tag %s\n' % L_TAGS[it[1]])
        elif it[0] == 'end':
            out.append({'a': 'end apply account\n', 't': 'end apply tag\n', '-': 'end apply\n'}[it[1]])
        elif it[0] == 'alias':
            out.append('alias %s=%s\n' % (':'.join(it[1]), ':'.join(it[2])))
        elif it[0] == 'bucket':
            out.append('bucket %s\n' % ':'.join(it[1]))
        elif it[0] == 'inc':
            out.append(inc_line(it))
    return '\n'.join(out)


def l_sx(items):
    dot = lambda n: '.'.join(str(L_ID[s]) for s in n) if n else '-'
    out = []
    for it in items:
        if it[0] == 'x':
            out.append(['x'] + [dot(n) for n in it[2]])
        elif it[0] == 'aa':
            out.append(['aa', dot(it[1])])
        elif it[0] == 'at':
            out.append(['at', 30 + it[1]])
        elif it[0] == 'end':
            out.append(['end', it[1]])
        elif it[0] == 'alias':
            out.append(['alias', dot(it[1]), dot(it[2])])
        elif it[0] == 'bucket':
            out.append(['bucket', dot(it[1])])
        elif it[0] == 'inc':
            out.append(['inc'] + l_sx(it[2]))
    return out


def l_xacts(items):
    for it in items:
        if it[0] == 'x':
            yield it
        elif it[0] == 'inc':
            yield from l_xacts(it[2])


L_DIRS = ['', 'sub', 'sub/deep', 'other']


def l_write(root, rng, files):
    """write the tree; every include path is relative to the directory of the file that holds it -> paths of the top files"""
    where = {}

    def place(fid):
        if fid not in where:
            where[fid] = os.path.join(rng.choice(L_DIRS), 'f%d.dat' % fid)
        return where[fid]

    def write(path, items):
        here = os.path.dirname(path)

        def inc_line(it):
            tgt = place(it[1])
            write(tgt, it[2])
            return 'include %s\n' % os.path.relpath(tgt, here or '.')
        text = l_text(items, inc_line)
        os.makedirs(os.path.join(root, here), exist_ok=True)
        open(os.path.join(root, path), 'w').write(text)
    tops = []
    for i, items in enumerate(files):
        path = os.path.join(rng.choice(L_DIRS[:2]), 'main%d.dat' % i)
        write(path, items)
        tops.append(os.path.join(root, path))
    return tops


def l_inline(items):
    out = []
    for it in items:
        if it[0] == 'inc':
            out += l_inline(it[2])
        else:
            out.append(it)
    return out


def l_observe(tops, master):
    args = []
    for t in tops:
        args += ['-f', t]
    if master:
        args += ['--master-account', ':'.join(master)]
    st, out, err = lib.run_ledger(args + ['reg', '--format', L_REG])
    rows = []
    for l in out.decode('utf-8', 'replace').split('\n'):
        f = l.split('|')
        if len(f) == 4:
            rows.append((f[0], f[1], tuple(i for i, b in enumerate(f[2].split(',')) if b == 'true'), f[3]))
    st2, out2, err2 = lib.run_ledger(args + ['bal', '--flat', '--no-total', '--format', BAL])
    bal = sorted(l for l in out2.decode('utf-8', 'replace').split('\n') if l)
    return st, rows, (st2, bal), err.decode('utf-8', 'replace')


def run_layout(ctx, res, n):
    rng = ctx.rng
    unid = {v: k for k, v in L_ID.items()}
    name = lambda dotted: '' if dotted == '-' else ':'.join(unid[int(x)] for x in dotted.split('.'))
    for j in range(n):
        st = dict(n=0, files=0, bucket=False)
        if rng.random() < 0.06:
            st['bad'] = rng.randrange(1, 3)
        nfiles = rng.choice([1, 1, 1, 2, 2, 3])
        files = [gen_layout_file(rng, st, 0, rng.random() < 0.7) for _ in range(nfiles)]
        master = l_name(rng, maxlen=2) if rng.random() < 0.25 else ()
        root = ctx.path('layout%d' % (j % 4))
        shutil.rmtree(root, ignore_errors=True)
        os.makedirs(root)
        tops = l_write(root, rng, files)
        status, rows, bal, err = l_observe(tops, master)
        res.evaluations += 1
        res.count('layout:files=%d' % nfiles)
        flat = [it for fl in files for it in fl]
        has_inc = any(it[0] == 'inc' for it in flat)
        if master:
            res.count('layout:master-account')
        if st.get('twice'):
            res.count('layout:same-file-twice')
        if st.get('bad_done'):
            res.count('layout:end-apply-in-included-file-with-nothing-to-end')
        for fl in files:
            depth = 0
            for it in fl:
                depth += it[0] in ('aa', 'at')
                depth -= it[0] == 'end'
                if it[0] == 'inc':
                    res.count('layout:include-under-apply' if depth > 0 else 'layout:include')
                    if not l_closed(it[2]):
                        res.count('layout:apply-left-open-in-included-file')
                    if any(i[0] == 'alias' for i in it[2]):
                        res.count('layout:alias-declared-in-included-file')
                    if any(i[0] == 'bucket' for i in it[2]):
                        res.count('layout:bucket-declared-in-included-file')
        if has_inc or nfiles > 1:
            res.nontrivial.add('layout:%d:' % j + str(files)[:400])
        # K: the model on the same tree
        out = lib.run_model('C08', [lib.sx(['layout', 'L%d' % j, '.'.join(str(L_ID[s]) for s in master) if master else '-'] + [['file'] + l_sx(fl) for fl in files])])
        errs, mx = None, []
        for l in out:
            f = l.split(' ')
            if f[1] == 'E':
                errs = int(f[2])
            elif f[1] == 'X':
                mx.append(([name(a) for a in f[3].split(',')], None if f[4] == '-' else name(f[4]), () if f[5] == '-' else tuple(sorted(int(t) - 30 for t in set(f[5].split(',')))))) 
        res.traces += 1
        xs = [x for fl in files for x in l_xacts(fl)]
        want = []
        for x, (accts, bucket, tags) in zip(xs, mx):
            for a in accts:
                want.append((x[1], a, tags))
            if len(accts) == 1 and bucket is not None:
                want.append((x[1], bucket, tags))
        got = [r[:3] for r in rows]
        case = dict(files=tops, master=':'.join(master), text='\n'.join('==> %s\n%s' % (os.path.relpath(os.path.join(dp, f), root), open(os.path.join(dp, f)).read()) for dp, _, fs in sorted(os.walk(root)) for f in sorted(fs))[:4000])
        if errs is None or len(mx) != len(xs):
            res.disagreements.append(dict(name='C08/layout-model-output', case=case, impl='-', model=str(out)[:400]))
        elif errs > 0:
            if status == 0:
                res.disagreements.append(dict(name='C08/layout-error', case=case, impl='accepted', model='%d errors' % errs))
        elif status != 0 or got != want:
            res.disagreements.append(dict(name='C08/layout-accounts', case=case, status=status, err=err[-300:],
                                          impl=str([g for g, w in zip(got, want) if g != w][:4]) + ' of %d rows' % len(got),
                                          model=str([w for g, w in zip(got, want) if g != w][:4]) + ' of %d rows' % len(want)))
        if len(res.samples) < 5 and has_inc and j > 3:
            res.samples.append(dict(layout=case['text'][:500], rows=str(got[:6])))
        if errs or status != 0:
            continue
        # O: other layouts of the same directives
        variants = []
        if nfiles > 1:
            # the files of the command line, included in that order from one file
            vroot = ctx.path('layoutv')
            shutil.rmtree(vroot, ignore_errors=True)
            os.makedirs(vroot)
            open(os.path.join(vroot, 'all.dat'), 'w').write(''.join('include %s\n' % os.path.relpath(t, vroot) for t in tops))
            variants.append(('files-as-includes', [os.path.join(vroot, 'all.dat')]))
        if all(l_closed(fl) for fl in files) and (has_inc or nfiles > 1):
            vroot = ctx.path('layouti')
            shutil.rmtree(vroot, ignore_errors=True)
            os.makedirs(vroot)
            open(os.path.join(vroot, 'one.dat'), 'w').write(l_text([it for fl in files for it in l_inline(fl)], None))
            variants.append(('one-file', [os.path.join(vroot, 'one.dat')]))
        for kind, vtops in variants:
            res.evaluations += 1
            res.count('layout-variant:' + kind)
            vst, vrows, vbal, verr = l_observe(vtops, master)
            if vst != status or vbal != bal:
                res.violations.append(dict(key='layout-differs:balance:' + kind, desc='`bal --flat` differs when the same directives are laid out as ' + kind,
                                           case=dict(case, variant=[open(t).read() for t in vtops]), observed=str(vbal)[:500], required=str(bal)[:500]))
            elif vrows != rows:
                res.violations.append(dict(key='layout-differs:register:' + kind, desc='the register differs when the same directives are laid out as ' + kind,
                                           case=dict(case, variant=[open(t).read() for t in vtops]), observed=str([v for v, r in zip(vrows, rows) if v != r][:4]), required=str([r for v, r in zip(vrows, rows) if v != r][:4])))


def run_variant(ctx, main):
    LOTS = {}
    st, out, err = lib.run_ledger(['-f', main, 'bal', '--flat', '--empty', '--no-total', '--format', BAL])
    bal = {}
    for l in out.decode('utf-8', 'replace').split('\n'):
        if '|' in l:
            a, r = l.split('|', 1)
            if r.startswith('B:'):
                ents = [X.canon_amount(e) for e in (r[2:].split(';') if r[2:] else [])]
            elif r.startswith('A:'):
                ents = [X.canon_amount(r)]
            else:
                ents = []
            # an amount bought at a cost carries a computed lot annotation (hidden by the hook): the account
            # keeps it as a separate entry of the same symbol; `bal` shows their sum
            merged, lots = {}, {}
            for e in ents:
                if e:
                    base = (e[0] or '').split('~')[0]           # the model's account balances strip lot details
                    q, pr = merged.get(base, (0, 0))
                    merged[base] = (q + e[1], max(pr, e[2]))
                    lots[e[0] or ''] = lots.get(e[0] or '', 0) + e[1]
            bal[a] = sorted((k, q, pr) for k, (q, pr) in merged.items() if q != 0)
            LOTS[a] = sorted((k, q) for k, q in lots.items() if q != 0 and '~' in k)   # per written lot (price, date, note)
    st2, out2, err2 = lib.run_ledger(['-f', main, 'reg', '--sort', 'date', '--empty', '--format', REG])
    reg = {}
    nrows = 0
    for l in out2.decode('utf-8', 'replace').split('\n'):
        f = l.split('|')
        if len(f) == 5:
            nrows += 1
            c = X.canon_amount(f[3])
            if c is not None and c[1] == 0:
                continue        # a zero row (hidden by `reg` unless --empty): an exactly cancelling commodity may or may
                                # may not leave a zero entry behind depending on posting order (modelled; not a register change)
            reg.setdefault(f[0], []).append(tuple(f[1:]))
    for d in reg:
        reg[d].sort()
    bal['__lots__'] = [(a, v) for a, v in sorted(LOTS.items()) if v]
    return st, bal, reg, nrows, err.decode('utf-8', 'replace')


def shown(e):
    """what an account balance shows of one entry: commodity and exact quantity; a commodity-less amount is displayed
    rounded to its own number of decimals (there is no commodity to take them from) with trailing zeros trimmed, so the
    quantity as displayed is part of the report (a larger internal precision that only adds zeros is not)"""
    s, q, pr = e
    if s:
        return (s, q)
    scaled = q * 10 ** pr
    n = scaled.numerator // scaled.denominator
    r = scaled - n
    if r > F(1, 2) or (r == F(1, 2) and n % 2 == 1):
        n += 1
    return (s, q, F(n, 10 ** pr))


def model_variant(jid, tree):
    out = lib.run_model('C08', [lib.sx(['files', jid] + tree)])
    bal, pool, n, od = {}, {}, None, False
    for l in out:
        p = l.split(' ', 3)
        if p[1] == 'B':
            ents = []
            for e in (p[3].split(';') if len(p) > 3 and p[3] else []):
                m = re.fullmatch(r'(.*):(-?\d+)/(\d+):(\d+):([01])', e)
                ents.append((m.group(1), F(int(m.group(2)), int(m.group(3))), int(m.group(4))))
            bal[p[2]] = sorted(ents)
        elif p[1] == 'P':
            pool[p[2]] = int(p[3])
        elif p[1] == 'N':
            n = int(p[2])
        elif p[1] == 'ORDER-DEPENDENT':
            od = True
    return bal, pool, n, od


def run(ctx, n_override=None):
    rng = ctx.rng
    res = lib.Result()
    res.rule = ('base journals of 2-8 exactly balanced transactions (1-3 commodities, virtual/[balanced] postings, exact costs, one '
                'elided amount) x variants: transactions permuted (all permutations for <= 4 transactions in the thorough tier, sampled '
                'otherwise), postings permuted inside every transaction, the file cut into 1-4 files with include directives incl. a '
                'nested directory; non-trivial = the variant differs from the base in order or layout; distinct by (base text, variant)')
    n = n_override or ctx.scale(60, 450)
    for j in range(n):
        base = gen_base(rng)
        variants = [('base', list(base), False)]
        perms = 4 if ctx.tier == 'quick' else 8
        if ctx.tier != 'quick' and len(base) <= 4:
            for pm in itertools.permutations(range(len(base))):
                variants.append(('xperm', [base[i] for i in pm], False))
        else:
            for _ in range(perms):
                v = list(base)
                rng.shuffle(v)
                variants.append(('xperm', v, False))
        for _ in range(2):
            v = []
            for x in base:
                ps = list(x.posts)
                rng.shuffle(ps)
                y = X.Xact(ps, x.date)
                y.orig = x.orig
                v.append(y)
            variants.append(('pperm', v, False))
        for _ in range(2):
            variants.append(('split', list(base), True))
        variants.append(('split-glob', list(base), 'glob'))
        ref = None
        for vi, (kind, xs, split) in enumerate(variants):
            name = 'v%d' % (vi % 3)
            if split == 'glob':
                main, tree = write_glob_tree(ctx, rng, xs, name, res)
            elif split:
                main, tree = write_tree(ctx, rng, xs, name)
            else:
                root = ctx.path(name)
                shutil.rmtree(root, ignore_errors=True)
                os.makedirs(root)
                main = os.path.join(root, 'main.dat')
                open(main, 'w').write('\n'.join(x.text(x.orig) for x in xs))
                tree = [x.sx() for x in xs]
            st, bal, reg, nrows, err = run_variant(ctx, main)
            res.evaluations += 1
            res.count('variant:' + kind)
            if kind != 'base':
                res.nontrivial.add('%d:%s:%d' % (j, kind, vi) + base[0].text(0))
            # correspondence with the model on this very layout
            mbal, mpool, mn, od = model_variant('j%dv%d' % (j, vi), tree)
            res.traces += 1
            if od:
                res.count('model:order-dependent')
            else:
                # the precision counter of a commoditized entry is not compared: ledger keeps an amount bought at a (computed) cost
                # in a slot of its own, so the counters of the merged entry depend on which slots are still there; what is
                # displayed for such an entry is the commodity's precision (C04), not the counter
                def k_(v):
                    return [(s_, q_, pr_ if not s_ else None) for (s_, q_, pr_) in v]
                mb = {a: k_(v) for a, v in mbal.items() if v}
                ib = {a: k_(v) for a, v in bal.items() if v and a != '__lots__'}
                if st != 0 or mb != ib or mn != nrows:
                    res.disagreements.append(dict(name='C08/balances', case=main, kind=kind, status=st, counts=(mn, nrows), text='\n'.join(x.text(x.orig) for x in xs),
                                                  diff=str([(a, ib.get(a), mb.get(a)) for a in set(ib) | set(mb) if ib.get(a) != mb.get(a)])[:1500],
                                                  impl=str((sorted(ib.items()), nrows))[:600], model=str((sorted(mb.items()), mn))[:600], err=err[-300:]))
            # aggregated registers against the base's
            agg = run_aggregates(ctx, main) if (vi == 0 or vi % 3 == 1) else None
            if agg is not None:
                compare_group_dates(res, 'j%dv%d' % (j, vi), xs, agg, main)
            if vi == 0:
                ref_agg = agg
            elif agg is not None:
                for cname in (agg if kind != 'pperm' else ['lots-text']):
                    res.count('aggregate:' + cname)
                    if agg[cname] != ref_agg[cname]:
                        res.violations.append(dict(key='aggregate-differs:%s:%s' % (cname, kind), desc='the aggregated report `%s` differs from the base journal\'s' % ' '.join(dict(AGG_COMMANDS).get(cname, ['bal', '--lots', '--flat'])),
                                                   case=dict(base=ref[3], variant=main, text=open(main).read()), observed=str(agg[cname])[:600], required=str(ref_agg[cname])[:600]))
            # oracle: identical to the base
            if ref is None:
                ref = (st, {a: ([shown(e) for e in v] if a != '__lots__' else v) for a, v in bal.items()}, reg, open(main).read())
                if len(res.samples) < 3:
                    res.samples.append(dict(base=ref[3][:400], balances=str(sorted(ref[1].items()))[:300]))
                continue
            b2 = {a: ([shown(e) for e in v] if a != '__lots__' else v) for a, v in bal.items()}
            if st != ref[0]:
                res.violations.append(dict(key='status-differs:' + kind, desc='exit status %s vs %s for the base' % (st, ref[0]),
                                           case=dict(base=ref[3], variant=main, text=open(main).read()), observed=str(st), required=str(ref[0])))
            elif b2 != ref[1]:
                res.violations.append(dict(key='balance-differs:' + kind, desc='an account balance differs from the base journal',
                                           case=dict(base=ref[3], variant=main, text=open(main).read()), observed=str(sorted(b2.items()))[:500], required=str(sorted(ref[1].items()))[:500]))
            if kind != 'pperm':
                if reg != ref[2]:
                    res.violations.append(dict(key='register-differs:' + kind, desc='the date-sorted register differs from the base journal',
                                               case=dict(base=ref[3], variant=main, text=open(main).read()), observed=str(sorted(reg.items()))[:500], required=str(sorted(ref[2].items()))[:500]))
            else:
                # postings permuted: an elided posting's generated rows may come in another position; compare rows as multisets per date
                if {d: sorted(v) for d, v in reg.items()} != {d: sorted(v) for d, v in ref[2].items()}:
                    res.violations.append(dict(key='register-differs:pperm', desc='the register rows differ (as per-date multisets) from the base journal',
                                               case=dict(base=ref[3], variant=main, text=open(main).read()), observed=str(sorted(reg.items()))[:500], required=str(sorted(ref[2].items()))[:500]))
    run_layout(ctx, res, (n_override or ctx.scale(150, 900)))
    return res


def search(ctx, broken):
    import random
    for s in range(3):
        ctx.rng = random.Random('C08-search-%d-%d' % (ctx.seed, s))
        r = run(ctx, n_override=120)
        if r.violations:
            return r.violations
    return []


def replay(ctx, obj):
    res = lib.Result()
    case = obj.get('case') or {}
    for k in ('base', 'text'):
        if k in case:
            p = ctx.path('replay_%s.dat' % k)
            open(p, 'w').write(case[k])
            st, out, err = lib.run_ledger(['-f', p, 'bal', '--flat', '--empty', '--no-total', '--format', BAL])
            print(k, 'status', st)
            print(out.decode()[:2000])
            print(err.decode()[:500])
    return res
