"""C08 - aggregate reports do not depend on input order or file layout.
Oracle (property text): for a base journal in the order-free fragment, every variant (transactions
permuted, postings permuted inside transactions, the file cut into 1-4 included files in nested
directories) gives the same exact balance for every account, the same date-sorted register (as
per-date multisets of rows) and the same commodity display precision/style.
Correspondence: the per-account balances, the number of accepted postings and the final pool
precision predicted by the extracted model (Model/Journal.v over Model/Xact.v, given the same file
tree) against ledger's `bal --flat` for every variant."""
import os, re, itertools, shutil
from fractions import Fraction as F
import lib
import xactlib as X

META = dict(
    id='C08',
    level='proof',
    technique='Coq proof (Permutation-invariance of account sums over stable transactions, of posting order, of the learned pool precision; include = concatenation) + differential correspondence and metamorphic oracle over permuted / re-split journals',
    level_text='Theorems in coq/Properties/Properties_C08.v: the balance bal shows is the exact sum of the account\'s postings; permuting transactions that are stable (contribute the same under every pool state and hash order - exactly balanced transactions are) changes no account sum; permuting postings inside an exactly balanced transaction keeps it balanced with the same contributions; the display precision the pool ends with is permutation-invariant in transactions and postings; a tree of included files is processed as the concatenation of its transactions. Outside the fragment acceptance is order dependent (acceptance_order_dependence_refuted, finding F11). Tie to the code: for generated base journals and their variants ledger\'s exact `bal --flat` rows are compared with the model\'s journal_balances on the same file tree, and ledger\'s own outputs are compared across variants.',
    level_note='Trusted as C01. The include directive is modelled as concatenation in inclusion order (glob expansion and path resolution are not modelled; the harness uses explicit relative includes and one sorted glob). The register comparison across variants is an implementation-only relation (oracle).',
    design_ref='DESIGN.md section 7 C08',
    assumptions=['base journals contain only exactly balanced transactions (explicit amounts or one elided amount), no assertions, automated transactions, apply/alias/bucket/year directives',
                 'transactions carry distinct payees so that register rows can be matched across variants'],
)

REG = '%(date)|%(payee)|%(account)|%(verif_rational(amount))|%(scrub(display_amount))\\n'   # the last field: what the register column shows (computed lot details are not shown without --lots)
BAL = '%(account)|%(verif_rational(amount))\\n'


def gen_base(rng):
    n = rng.randrange(2, 9)
    xs = []
    for i in range(n):
        x = X.gen_balanced(rng, with_costs=rng.random() < 0.3)
        if rng.random() < 0.3:
            x = X.add_null(rng, X.gen_balanced(rng, with_costs=False, with_virtual=False))
        elif rng.random() < 0.2:
            x = X.gen_cost_only(rng)        # a sub-display cost in a commodity whose precision depends on what was read before
        elif rng.random() < 0.25:
            x = X.gen_plain(rng, elide=rng.random() < 0.4)   # commodity-less amounts: displayed at their own precision
        elif rng.random() < 0.3:
            x = X.gen_lot_notes(rng)                        # lots that differ in their note (or date) only
        elif rng.random() < 0.15:
            x = X.gen_implied_rate_with_cancel(rng)         # an implied rate beside a commodity that cancels (F65)
        elif rng.random() < 0.15:
            x = X.gen_implied_rate_with_virtual(rng)        # an implied rate beside a (virtual) posting in one of the two
        x.date = '2020/%02d/%02d' % (rng.randrange(1, 13), rng.randrange(1, 29))
        x.orig = i
        xs.append(x)
    # a pair of lots of one commodity bought at the same price on the same lot date, told apart by their notes only
    if rng.random() < 0.3:
        a, b = X.gen_lot_notes(rng), X.gen_lot_notes(rng)
        pa = next(p for p in a.posts if p.lot is not None)
        pb = next(p for p in b.posts if p.lot is not None)
        pb.lot, pb.lot_date = pa.lot, pa.lot_date
        pa.lot_note, pb.lot_note = rng.sample(['lotA', 'lotB', 'ira', 'taxable'], 2)
        if rng.random() < 0.5:
            pb.lot_note = None            # the same lot once with and once without a note
        pb.acct = pa.acct
        cash = next(p for p in b.posts if p.lot is None)
        cash.amt = X.Amt(-pb.lot.value * pb.amt.value, 2, '$')
        for x in (a, b):
            x.date = '2020/%02d/%02d' % (rng.randrange(1, 13), rng.randrange(1, 29))
            x.orig = len(xs)
            xs.append(x)
    # display style: some amounts of one commodity are written with thousands marks - the commodity learns the style from
    # any of them, whatever their precision and wherever they stand
    if rng.random() < 0.4:
        big = [p.amt for x in xs for p in x.posts if p.amt is not None and p.amt.sym and abs(p.amt.value) >= 1000]
        if big:
            sym = rng.choice(big).sym
            for a in big:
                if a.sym == sym and rng.random() < 0.5:
                    a.marks = True
    return xs


def exactly_balanced_fragment(x):
    # costs whose total has more decimals than the commodity are in C01's display-zero domain,
    # where acceptance may depend on the precision learned so far (F11): stay exact
    return True


def write_tree(ctx, rng, xs, name):
    """cut xs (with their payee indices) into 1-4 files; returns (main path, tree for the model)"""
    root = ctx.path(name)
    shutil.rmtree(root, ignore_errors=True)
    os.makedirs(os.path.join(root, 'sub', 'deep'))
    k = rng.randrange(1, 5)
    cuts = sorted(rng.sample(range(1, len(xs)), min(k - 1, max(0, len(xs) - 1)))) if len(xs) > 1 else []
    pieces, prev = [], 0
    for c in cuts + [len(xs)]:
        pieces.append(xs[prev:c])
        prev = c
    main = os.path.join(root, 'main.dat')
    if len(pieces) == 1:
        open(main, 'w').write('\n'.join(x.text(x.orig) for x in pieces[0]))
        return main, [x.sx() for x in pieces[0]]
    tree, lines = [], []
    nested = rng.random() < 0.5 and len(pieces) >= 3
    for pi, piece in enumerate(pieces):
        text = '\n'.join(x.text(x.orig) for x in piece)
        if pi == 0 and rng.random() < 0.5:
            lines.append(text)                      # stays in the main file
            tree += [x.sx() for x in piece]
            continue
        if nested and pi == len(pieces) - 1:
            continue
        rel = ('sub/f%d.dat' % pi) if pi % 2 else ('f%d.dat' % pi)
        body = text
        node = [x.sx() for x in piece]
        if nested and pi == len(pieces) - 2:
            # the last piece is included from inside this file
            last = pieces[-1]
            deep = 'deep/g.dat' if rel.startswith('sub/') else 'sub/deep/g.dat'
            open(os.path.join(root, os.path.dirname(rel), deep), 'w').write('\n'.join(x.text(x.orig) for x in last))
            body += '\ninclude %s\n' % deep
            node.append(['include'] + [x.sx() for x in last])
        open(os.path.join(root, rel), 'w').write(body)
        lines.append('include %s\n' % rel)
        tree.append(['include'] + node)
    open(main, 'w').write('\n'.join(lines))
    return main, tree


# aggregated registers: one row per group (all postings, an account, a payee, a month, a week day) - date, label, account and
# exact amount of every row are compared as a multiset with the base journal's (the date of a group is that of its
# earliest posting; `--sort date` orders the groups)
AGG = '%(date)|%(payee)|%(account)|%(verif_rational(amount))\n'
AGG_COMMANDS = [('subtotal', ['reg', '--subtotal', '--sort', 'date']),
                ('by-payee', ['reg', '--by-payee', '--payee', 'account_base', '--sort', 'date']),
                ('monthly', ['reg', '--monthly', '--sort', 'date']),
                ('dow', ['reg', '--dow']),
                ('collapse', ['reg', '--collapse', '--sort', 'date']),
                ('depth-1', ['bal', '--depth', '1', '--no-total'])]


def canon_value(r):
    """hook text of an amount or balance -> sorted non-zero (commodity key without computed lot details, exact quantity)"""
    ents = [X.canon_amount(e) for e in (r[2:].split(';') if r.startswith('B:') and r[2:] else [r] if r.startswith('A:') else [])]
    tot = {}
    for e in ents:
        if e:
            k = (e[0] or '').split('~')[0]
            tot[k] = tot.get(k, 0) + e[1]
    return tuple(sorted((k, q) for k, q in tot.items() if q != 0))


def run_aggregates(ctx, main):
    out_ = {}
    for name, cmd in AGG_COMMANDS:
        st, out, err = lib.run_ledger(['-f', main] + cmd + ['--date-format', '%Y/%m/%d', '--format', AGG if cmd[0] == 'reg' else '%(date)|-|%(account)|%(verif_rational(display_total))\n'])
        rows = []
        for l in out.decode('utf-8', 'replace').split('\n'):
            f = l.split('|')
            if len(f) == 4:
                v = canon_value(f[3])
                if v:
                    rows.append((f[0], f[1], f[2], v))
        out_[name] = (st, sorted(rows))
    # the TEXT of the per-lot balance: the lines of an account come in the order of its lots (price, date, note), not in
    # the order the lots were first seen
    st, out, err = lib.run_ledger(['-f', main, 'bal', '--lots', '--flat', '--no-total'])
    out_['lots-text'] = (st, [l.rstrip() for l in out.decode('utf-8', 'replace').split('\n') if l.strip()])
    return out_


def compare_group_dates(res, jid, xs, agg, main):
    """the dates of the subtotal rows against the model of report_subtotal's loop (Model/Subtotal.v): every row of
    `reg --subtotal` is dated with the earliest posting date and labelled with the latest; every row of a --by-payee
    group (the payee being the account's last segment) with the earliest date of that group"""
    items = []
    for x in xs:
        d = int(x.date.replace('/', ''))
        for q in x.posts:
            items.append([q.acct.split(':')[-1].encode(), d])
    want = {}
    for l in lib.run_model('C08', [lib.sx(['range', jid] + items)]):
        f = l.split(' ')
        if len(f) == 5 and f[1] == 'R' and f[3] != '-':
            want[f[2] if f[2] == '*' else bytes.fromhex(f[2]).decode('utf-8', 'replace')] = (int(f[3]), int(f[4]))

    def num(t):
        return int(t.replace('/', '')) if re.fullmatch(r'\d{4}/\d\d/\d\d', t) else None
    for (date, payee, acct, v) in agg['subtotal'][1]:
        res.traces += 1
        got = (num(date), num(payee[2:]) if payee.startswith('- ') else None)
        if got != want.get('*'):
            res.disagreements.append(dict(name='C08/subtotal-dates', case=main, impl=str(got), model=str(want.get('*')), text=open(main).read()[:3000]))
            break
    for (date, payee, acct, v) in agg['by-payee'][1]:
        res.traces += 1
        w = want.get(payee)
        if w is None or num(date) != w[0]:
            res.disagreements.append(dict(name='C08/group-dates', case=main, group=payee, impl=date, model=str(w), text=open(main).read()[:3000]))
            break


# include globs: (pattern, names it must read, names in the same directory it must leave alone)
GLOBS = [('tx*.dat', ['tx.dat', 'tx1.dat', 'tx22.dat', 'tx.a.dat'], ['ty1.dat', 'tx1.dat.bak', 'atx1.dat', 'tx1xdat', 'tx']),
         ('p?.dat', ['p1.dat', 'pa.dat', 'p-.dat'], ['p.dat', 'p12.dat', 'q1.dat', 'p1xdat']),
         ('*.inc', ['a.inc', 'b.c.inc', '.inc'], ['a.inc2', 'ainc', 'a.dat']),
         ('f.dat', ['f.dat'], ['fxdat', 'f.dat2', 'ff.dat', 'f_dat']),
         ('a+b.dat', ['a+b.dat'], ['aab.dat', 'ab.dat', 'a+bxdat']),
         ('x(1).dat', ['x(1).dat'], ['x1.dat', 'x(1)xdat']),
         ('y{2}|z.dat', ['y{2}|z.dat'], ['yy.dat', 'z.dat', 'y{2}']),
         ('m*n?.dat', ['mn1.dat', 'mxxn2.dat', 'm.n.n3.dat'], ['mn.dat', 'mxn12.dat', 'xmn1.dat'])]


def write_glob_tree(ctx, rng, xs, name, res):
    """the transactions cut into files that ONE include with a glob in its file name reads (in the sorted order of their
    names), beside files whose names the pattern must not match and which hold a transaction of their own; which names
    are read is what the model of the glob says (Model/Glob.v), and it must be what this table expects
    -> (main path, tree for the model)"""
    root = ctx.path(name)
    shutil.rmtree(root, ignore_errors=True)
    os.makedirs(os.path.join(root, 'parts'))
    pat, yes, no = rng.choice(GLOBS)
    names = yes + no
    verdict = {}
    for l in lib.run_model('C08', [lib.sx(['glob', 'g', pat.encode()] + [n.encode() for n in names])]):
        f = l.split(' ')
        if len(f) == 4 and f[1] == 'G':
            verdict[bytes.fromhex(f[2]).decode()] = f[3] == '1'
    res.traces += 1
    if [n for n in names if verdict.get(n)] != yes:
        res.disagreements.append(dict(name='C08/glob-table', case=pat, impl='expected to read %s' % yes, model=str(verdict)))
    read = sorted(n for n in names if verdict.get(n))
    k = min(len(read), max(1, len(xs) - 1))
    read = sorted(rng.sample(read, k)) if rng.random() < 0.5 else read        # not every matching name need exist
    if pat.count('*') and (pat.replace('*', '') in yes) and pat.replace('*', '') not in read:
        read = sorted(read[:-1] + [pat.replace('*', '')]) if len(read) > 1 else [pat.replace('*', '')]
    head = xs[:1] if rng.random() < 0.5 else []
    rest = xs[len(head):]
    cuts = sorted(rng.sample(range(1, len(rest)), min(len(read) - 1, max(0, len(rest) - 1)))) if len(rest) > 1 else []
    pieces, prev = [], 0
    for c in cuts + [len(rest)]:
        pieces.append(rest[prev:c])
        prev = c
    while len(pieces) < len(read):
        pieces.append([])
    tree = [x.sx() for x in head]
    for n, piece in zip(read, pieces):
        open(os.path.join(root, 'parts', n), 'w').write('\n'.join(x.text(x.orig) for x in piece) + '\n' if piece else '; nothing here\n')
        tree.append(['include'] + [x.sx() for x in piece])
    for i, n in enumerate(no):
        open(os.path.join(root, 'parts', n), 'w').write('2020/01/01 decoy%d\n    Decoy:%d    $%d.00\n    Decoy:Other\n' % (i, i, 1000 + i))
    main = os.path.join(root, 'main.dat')
    open(main, 'w').write('\n'.join(x.text(x.orig) for x in head) + '\n\ninclude parts/%s\n' % pat)
    res.count('include-glob:' + pat)
    return main, tree


def run_variant(ctx, main):
    LOTS = {}
    st, out, err = lib.run_ledger(['-f', main, 'bal', '--flat', '--empty', '--no-total', '--format', BAL])
    bal = {}
    for l in out.decode('utf-8', 'replace').split('\n'):
        if '|' in l:
            a, r = l.split('|', 1)
            if r.startswith('B:'):
                ents = [X.canon_amount(e) for e in (r[2:].split(';') if r[2:] else [])]
            elif r.startswith('A:'):
                ents = [X.canon_amount(r)]
            else:
                ents = []
            # an amount bought at a cost carries a computed lot annotation (hidden by the hook): the account
            # keeps it as a separate entry of the same symbol; `bal` shows their sum
            merged, lots = {}, {}
            for e in ents:
                if e:
                    base = (e[0] or '').split('~')[0]           # the model's account balances strip lot details
                    q, pr = merged.get(base, (0, 0))
                    merged[base] = (q + e[1], max(pr, e[2]))
                    lots[e[0] or ''] = lots.get(e[0] or '', 0) + e[1]
            bal[a] = sorted((k, q, pr) for k, (q, pr) in merged.items() if q != 0)
            LOTS[a] = sorted((k, q) for k, q in lots.items() if q != 0 and '~' in k)   # per written lot (price, date, note)
    st2, out2, err2 = lib.run_ledger(['-f', main, 'reg', '--sort', 'date', '--empty', '--format', REG])
    reg = {}
    nrows = 0
    for l in out2.decode('utf-8', 'replace').split('\n'):
        f = l.split('|')
        if len(f) == 5:
            nrows += 1
            c = X.canon_amount(f[3])
            if c is not None and c[1] == 0:
                continue        # a zero row (hidden by `reg` unless --empty): an exactly cancelling commodity may or may
                                # may not leave a zero entry behind depending on posting order (modelled; not a register change)
            reg.setdefault(f[0], []).append(tuple(f[1:]))
    for d in reg:
        reg[d].sort()
    bal['__lots__'] = [(a, v) for a, v in sorted(LOTS.items()) if v]
    return st, bal, reg, nrows, err.decode('utf-8', 'replace')


def shown(e):
    """what an account balance shows of one entry: commodity and exact quantity; a commodity-less amount is displayed
    rounded to its own number of decimals (there is no commodity to take them from) with trailing zeros trimmed, so the
    quantity as displayed is part of the report (a larger internal precision that only adds zeros is not)"""
    s, q, pr = e
    if s:
        return (s, q)
    scaled = q * 10 ** pr
    n = scaled.numerator // scaled.denominator
    r = scaled - n
    if r > F(1, 2) or (r == F(1, 2) and n % 2 == 1):
        n += 1
    return (s, q, F(n, 10 ** pr))


def model_variant(jid, tree):
    out = lib.run_model('C08', [lib.sx(['files', jid] + tree)])
    bal, pool, n, od = {}, {}, None, False
    for l in out:
        p = l.split(' ', 3)
        if p[1] == 'B':
            ents = []
            for e in (p[3].split(';') if len(p) > 3 and p[3] else []):
                m = re.fullmatch(r'(.*):(-?\d+)/(\d+):(\d+):([01])', e)
                ents.append((m.group(1), F(int(m.group(2)), int(m.group(3))), int(m.group(4))))
            bal[p[2]] = sorted(ents)
        elif p[1] == 'P':
            pool[p[2]] = int(p[3])
        elif p[1] == 'N':
            n = int(p[2])
        elif p[1] == 'ORDER-DEPENDENT':
            od = True
    return bal, pool, n, od


def run(ctx, n_override=None):
    rng = ctx.rng
    res = lib.Result()
    res.rule = ('base journals of 2-8 exactly balanced transactions (1-3 commodities, virtual/[balanced] postings, exact costs, one '
                'elided amount) x variants: transactions permuted (all permutations for <= 4 transactions in the thorough tier, sampled '
                'otherwise), postings permuted inside every transaction, the file cut into 1-4 files with include directives incl. a '
                'nested directory; non-trivial = the variant differs from the base in order or layout; distinct by (base text, variant)')
    n = n_override or ctx.scale(60, 450)
    for j in range(n):
        base = gen_base(rng)
        variants = [('base', list(base), False)]
        perms = 4 if ctx.tier == 'quick' else 8
        if ctx.tier != 'quick' and len(base) <= 4:
            for pm in itertools.permutations(range(len(base))):
                variants.append(('xperm', [base[i] for i in pm], False))
        else:
            for _ in range(perms):
                v = list(base)
                rng.shuffle(v)
                variants.append(('xperm', v, False))
        for _ in range(2):
            v = []
            for x in base:
                ps = list(x.posts)
                rng.shuffle(ps)
                y = X.Xact(ps, x.date)
                y.orig = x.orig
                v.append(y)
            variants.append(('pperm', v, False))
        for _ in range(2):
            variants.append(('split', list(base), True))
        variants.append(('split-glob', list(base), 'glob'))
        ref = None
        for vi, (kind, xs, split) in enumerate(variants):
            name = 'v%d' % (vi % 3)
            if split == 'glob':
                main, tree = write_glob_tree(ctx, rng, xs, name, res)
            elif split:
                main, tree = write_tree(ctx, rng, xs, name)
            else:
                root = ctx.path(name)
                shutil.rmtree(root, ignore_errors=True)
                os.makedirs(root)
                main = os.path.join(root, 'main.dat')
                open(main, 'w').write('\n'.join(x.text(x.orig) for x in xs))
                tree = [x.sx() for x in xs]
            st, bal, reg, nrows, err = run_variant(ctx, main)
            res.evaluations += 1
            res.count('variant:' + kind)
            if kind != 'base':
                res.nontrivial.add('%d:%s:%d' % (j, kind, vi) + base[0].text(0))
            # correspondence with the model on this very layout
            mbal, mpool, mn, od = model_variant('j%dv%d' % (j, vi), tree)
            res.traces += 1
            if od:
                res.count('model:order-dependent')
            else:
                # the precision counter of a commoditized entry is not compared: ledger keeps an amount bought at a (computed) cost
                # in a slot of its own, so the counters of the merged entry depend on which slots are still there; what is
                # displayed for such an entry is the commodity's precision (C04), not the counter
                def k_(v):
                    return [(s_, q_, pr_ if not s_ else None) for (s_, q_, pr_) in v]
                mb = {a: k_(v) for a, v in mbal.items() if v}
                ib = {a: k_(v) for a, v in bal.items() if v and a != '__lots__'}
                if st != 0 or mb != ib or mn != nrows:
                    res.disagreements.append(dict(name='C08/balances', case=main, kind=kind, status=st, counts=(mn, nrows), text='\n'.join(x.text(x.orig) for x in xs),
                                                  diff=str([(a, ib.get(a), mb.get(a)) for a in set(ib) | set(mb) if ib.get(a) != mb.get(a)])[:1500],
                                                  impl=str((sorted(ib.items()), nrows))[:600], model=str((sorted(mb.items()), mn))[:600], err=err[-300:]))
            # aggregated registers against the base's
            agg = run_aggregates(ctx, main) if (vi == 0 or vi % 3 == 1) else None
            if agg is not None:
                compare_group_dates(res, 'j%dv%d' % (j, vi), xs, agg, main)
            if vi == 0:
                ref_agg = agg
            elif agg is not None:
                for cname in (agg if kind != 'pperm' else ['lots-text']):
                    res.count('aggregate:' + cname)
                    if agg[cname] != ref_agg[cname]:
                        res.violations.append(dict(key='aggregate-differs:%s:%s' % (cname, kind), desc='the aggregated report `%s` differs from the base journal\'s' % ' '.join(dict(AGG_COMMANDS).get(cname, ['bal', '--lots', '--flat'])),
                                                   case=dict(base=ref[3], variant=main, text=open(main).read()), observed=str(agg[cname])[:600], required=str(ref_agg[cname])[:600]))
            # oracle: identical to the base
            if ref is None:
                ref = (st, {a: ([shown(e) for e in v] if a != '__lots__' else v) for a, v in bal.items()}, reg, open(main).read())
                if len(res.samples) < 3:
                    res.samples.append(dict(base=ref[3][:400], balances=str(sorted(ref[1].items()))[:300]))
                continue
            b2 = {a: ([shown(e) for e in v] if a != '__lots__' else v) for a, v in bal.items()}
            if st != ref[0]:
                res.violations.append(dict(key='status-differs:' + kind, desc='exit status %s vs %s for the base' % (st, ref[0]),
                                           case=dict(base=ref[3], variant=main, text=open(main).read()), observed=str(st), required=str(ref[0])))
            elif b2 != ref[1]:
                res.violations.append(dict(key='balance-differs:' + kind, desc='an account balance differs from the base journal',
                                           case=dict(base=ref[3], variant=main, text=open(main).read()), observed=str(sorted(b2.items()))[:500], required=str(sorted(ref[1].items()))[:500]))
            if kind != 'pperm':
                if reg != ref[2]:
                    res.violations.append(dict(key='register-differs:' + kind, desc='the date-sorted register differs from the base journal',
                                               case=dict(base=ref[3], variant=main, text=open(main).read()), observed=str(sorted(reg.items()))[:500], required=str(sorted(ref[2].items()))[:500]))
            else:
                # postings permuted: an elided posting's generated rows may come in another position; compare rows as multisets per date
                if {d: sorted(v) for d, v in reg.items()} != {d: sorted(v) for d, v in ref[2].items()}:
                    res.violations.append(dict(key='register-differs:pperm', desc='the register rows differ (as per-date multisets) from the base journal',
                                               case=dict(base=ref[3], variant=main, text=open(main).read()), observed=str(sorted(reg.items()))[:500], required=str(sorted(ref[2].items()))[:500]))
    return res


def search(ctx, broken):
    import random
    for s in range(3):
        ctx.rng = random.Random('C08-search-%d-%d' % (ctx.seed, s))
        r = run(ctx, n_override=120)
        if r.violations:
            return r.violations
    return []


def replay(ctx, obj):
    res = lib.Result()
    case = obj.get('case') or {}
    for k in ('base', 'text'):
        if k in case:
            p = ctx.path('replay_%s.dat' % k)
            open(p, 'w').write(case[k])
            st, out, err = lib.run_ledger(['-f', p, 'bal', '--flat', '--empty', '--no-total', '--format', BAL])
            print(k, 'status', st)
            print(out.decode()[:2000])
            print(err.decode()[:500])
    return res
